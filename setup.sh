#!/bin/bash
# Offline setup: build the driver against /repo and the native replay harness.
set -e
cd "$(dirname "$0")"
export CARGO_NET_OFFLINE=true CARGO_TARGET_DIR=/verif/target
cp /repo/Cargo.lock driver/Cargo.lock 2>/dev/null || true
cargo build --offline --manifest-path driver/Cargo.toml
mkdir -p target evidence replays
gcc -O1 -no-pie -o target/x86run native/x86run.c
python3-vt -c "import z3; print('z3', z3.get_version_string())"
# warm the MIR cache used by the Engine-B checks (C04, C07, C16)
python3-vt -c "import sys; sys.path.insert(0,'/verif'); from mirsym import dump; print(dump.mir_path()[0])"
