use serde_json::Value;
pub type R<T> = Result<T, String>;

pub fn dispatch(cmd: &str, _req: &Value) -> R<Value> {
    Err(format!("unknown cmd {}", cmd))
}
