//! arch descriptors, fixed-point harness, CFG edit scripts, paged / backing memory histories.
use crate::cmds::{arch_for, backing_from, err_json};
use crate::{emit, hex, ilread, unhex};
use falcon::analysis::fixed_point;
use falcon::architecture::Endian;
use falcon::il;
use falcon::memory::{self, MemoryPermissions};
use falcon::RC;
use serde_json::{json, Value};
use std::cmp::Ordering;
use std::collections::HashMap;

pub type R<T> = Result<T, String>;

// ------------------------------------------------------------------ arch --

fn arch(req: &Value) -> R<Value> {
    let a = arch_for(req["arch"].as_str().ok_or("arch")?)?;
    let cc = a.calling_convention();
    let mut pres: Vec<Value> = cc.preserved_registers().iter().map(emit::scalar).collect();
    pres.sort_by_key(|x| x.to_string());
    let mut trash: Vec<Value> = cc.trashed_registers().iter().map(emit::scalar).collect();
    trash.sort_by_key(|x| x.to_string());
    let ra = match cc.return_address_type() {
        falcon::analysis::calling_convention::ReturnAddressType::Register(s) => json!(["register", emit::scalar(s)]),
        falcon::analysis::calling_convention::ReturnAddressType::Stack(o) => json!(["stack", o]),
    };
    let mut argtypes = Vec::new();
    for i in 0..12 {
        argtypes.push(match cc.argument_type(i) {
            falcon::analysis::calling_convention::ArgumentType::Register(s) => json!(["register", emit::scalar(&s)]),
            falcon::analysis::calling_convention::ArgumentType::Stack(o) => json!(["stack", o]),
        });
    }
    let mut queries = Vec::new();
    for s in cc.preserved_registers().iter().chain(cc.trashed_registers().iter()) {
        queries.push(json!([emit::scalar(s), cc.is_preserved(s), cc.is_trashed(s)]));
    }
    queries.sort_by_key(|x| x.to_string());
    Ok(json!({
        "ok": true,
        "name": a.name(),
        "endian": match a.endian() { Endian::Big => "big", Endian::Little => "little" },
        "word_size": a.word_size(),
        "stack_pointer": emit::scalar(&a.stack_pointer()),
        "cc": {
            "argument_registers": cc.argument_registers().iter().map(emit::scalar).collect::<Vec<_>>(),
            "preserved": pres, "trashed": trash,
            "stack_argument_offset": cc.stack_argument_offset(),
            "stack_argument_length": cc.stack_argument_length(),
            "return_address": ra,
            "return_register": emit::scalar(cc.return_register()),
            "argument_types": argtypes,
            "sp_preserved": cc.is_preserved(&a.stack_pointer()),
            "queries": queries,
        }
    }))
}

// -------------------------------------------------------------- fixpoint --

#[derive(Clone, Debug, PartialEq)]
struct Bits(u64);
impl PartialOrd for Bits {
    fn partial_cmp(&self, o: &Bits) -> Option<Ordering> {
        if self.0 == o.0 {
            Some(Ordering::Equal)
        } else if self.0 & o.0 == self.0 {
            Some(Ordering::Less)
        } else if self.0 & o.0 == o.0 {
            Some(Ordering::Greater)
        } else {
            None
        }
    }
}

struct GenKill {
    gen: HashMap<String, u64>,
    kill: HashMap<String, u64>,
}

fn key_of(l: &il::RefProgramLocation) -> String {
    let pl: il::ProgramLocation = l.clone().into();
    crate::cmds2::loc_json(&pl).to_string()
}

impl<'f> fixed_point::FixedPointAnalysis<'f, Bits> for GenKill {
    fn trans(&self, location: il::RefProgramLocation<'f>, state: Option<Bits>) -> Result<Bits, falcon::Error> {
        let s = state.map(|b| b.0).unwrap_or(0);
        let k = key_of(&location);
        let g = self.gen.get(&k).cloned().unwrap_or(0);
        let kl = self.kill.get(&k).cloned().unwrap_or(0);
        Ok(Bits((s & !kl) | g))
    }
    fn join(&self, a: Bits, b: &Bits) -> Result<Bits, falcon::Error> {
        Ok(Bits(a.0 | b.0))
    }
}

#[derive(Clone, Debug)]
struct Elem {
    v: usize,
    leq: RC<Vec<Vec<bool>>>,
}
impl PartialEq for Elem {
    fn eq(&self, o: &Elem) -> bool {
        self.v == o.v
    }
}
impl PartialOrd for Elem {
    fn partial_cmp(&self, o: &Elem) -> Option<Ordering> {
        if self.v == o.v {
            Some(Ordering::Equal)
        } else if self.leq[self.v][o.v] {
            Some(Ordering::Less)
        } else if self.leq[o.v][self.v] {
            Some(Ordering::Greater)
        } else {
            None
        }
    }
}

struct Table {
    leq: RC<Vec<Vec<bool>>>,
    join: Vec<Vec<usize>>,
    bottom: usize,
    transfer: HashMap<String, Vec<usize>>,
}

impl<'f> fixed_point::FixedPointAnalysis<'f, Elem> for Table {
    fn trans(&self, location: il::RefProgramLocation<'f>, state: Option<Elem>) -> Result<Elem, falcon::Error> {
        let s = state.map(|e| e.v).unwrap_or(self.bottom);
        let k = key_of(&location);
        let v = match self.transfer.get(&k) {
            Some(t) => t[s],
            None => s,
        };
        Ok(Elem { v, leq: self.leq.clone() })
    }
    fn join(&self, a: Elem, b: &Elem) -> Result<Elem, falcon::Error> {
        Ok(Elem { v: self.join[a.v][b.v], leq: self.leq.clone() })
    }
}

fn u64map(v: &Value) -> HashMap<String, u64> {
    let mut m = HashMap::new();
    if let Some(o) = v.as_object() {
        for (k, x) in o {
            m.insert(k.clone(), x.as_u64().unwrap_or(0));
        }
    }
    m
}

fn fixpoint(req: &Value) -> R<Value> {
    let f = ilread::function(&req["function"])?;
    let forward = req["direction"].as_str().unwrap_or("forward") == "forward";
    let opts = !req["force"].is_null() || !req["max_steps"].is_null();
    let force = req["force"].as_bool().unwrap_or(false);
    let max_steps = req["max_steps"].as_u64().unwrap_or(250000) as usize;
    let kind = req["kind"].as_str().unwrap_or("genkill");
    macro_rules! run {
        ($a:expr, $conv:expr) => {{
            let rows: Result<Vec<(String, Value)>, falcon::Error> = if forward {
                let r = if opts {
                    fixed_point::fixed_point_forward_options($a, &f, force, max_steps)
                } else {
                    fixed_point::fixed_point_forward($a, &f)
                };
                r.map(|m| {
                    m.iter()
                        .map(|(k, v)| {
                            let kj = crate::cmds2::loc_json(k);
                            (kj.to_string(), json!([kj, $conv(v)]))
                        })
                        .collect()
                })
            } else {
                let r = if opts {
                    fixed_point::fixed_point_backward_options($a, &f, force)
                } else {
                    fixed_point::fixed_point_backward($a, &f)
                };
                r.map(|m| {
                    m.iter()
                        .map(|(k, v)| {
                            let pl: il::ProgramLocation = k.clone().into();
                            let kj = crate::cmds2::loc_json(&pl);
                            (kj.to_string(), json!([kj, $conv(v)]))
                        })
                        .collect()
                })
            };
            match rows {
                Ok(mut rows) => {
                    rows.sort_by(|a, b| a.0.cmp(&b.0));
                    json!({"ok": true, "table": rows.into_iter().map(|x| x.1).collect::<Vec<_>>()})
                }
                Err(e) => err_json(&e),
            }
        }};
    }
    Ok(if kind == "genkill" {
        let a = GenKill { gen: u64map(&req["gen"]), kill: u64map(&req["kill"]) };
        run!(a, |v: &Bits| json!(v.0))
    } else {
        let leq: Vec<Vec<bool>> = req["leq"].as_array().ok_or("leq")?.iter()
            .map(|r| r.as_array().unwrap().iter().map(|b| b.as_bool().unwrap_or(false)).collect()).collect();
        let join: Vec<Vec<usize>> = req["join"].as_array().ok_or("join")?.iter()
            .map(|r| r.as_array().unwrap().iter().map(|b| b.as_u64().unwrap_or(0) as usize).collect()).collect();
        let mut transfer = HashMap::new();
        if let Some(o) = req["transfer"].as_object() {
            for (k, x) in o {
                transfer.insert(k.clone(), x.as_array().unwrap().iter().map(|b| b.as_u64().unwrap_or(0) as usize).collect());
            }
        }
        let a = Table { leq: RC::new(leq), join, bottom: req["bottom"].as_u64().unwrap_or(0) as usize, transfer };
        run!(a, |v: &Elem| json!(v.v))
    })
}

// --------------------------------------------------------------- cfgedit --

fn push_ops(b: &mut il::Block, ops: &Value) -> R<()> {
    if let Some(a) = ops.as_array() {
        for o in a {
            match ilread::operation(o)? {
                il::Operation::Assign { dst, src } => b.assign(dst, src),
                il::Operation::Store { index, src } => b.store(index, src),
                il::Operation::Load { dst, index } => b.load(dst, index),
                il::Operation::Branch { target } => b.branch(target),
                il::Operation::Intrinsic { intrinsic } => b.intrinsic(intrinsic),
                il::Operation::Nop { .. } => b.nop(),
            }
        }
    }
    Ok(())
}

fn res_json(r: Result<(), falcon::Error>) -> Value {
    match r {
        Ok(()) => json!({"ok": true}),
        Err(e) => err_json(&e),
    }
}

fn cfgedit(req: &Value) -> R<Value> {
    let mut g = if req["start"].is_null() { il::ControlFlowGraph::new() } else { ilread::cfg(&req["start"])? };
    let mut results = Vec::new();
    for op in req["script"].as_array().ok_or("script")? {
        let t = op[0].as_str().ok_or("op tag")?;
        let r = match t {
            "new_block" => match g.new_block() {
                Ok(b) => {
                    push_ops(b, &op[1])?;
                    json!({"ok": true, "index": b.index()})
                }
                Err(e) => err_json(&e),
            },
            "uncond" => res_json(g.unconditional_edge(op[1].as_u64().unwrap() as usize, op[2].as_u64().unwrap() as usize)),
            "cond" => res_json(g.conditional_edge(op[1].as_u64().unwrap() as usize, op[2].as_u64().unwrap() as usize, ilread::expr(&op[3])?)),
            "set_entry" => res_json(g.set_entry(op[1].as_u64().unwrap() as usize)),
            "set_exit" => res_json(g.set_exit(op[1].as_u64().unwrap() as usize)),
            "merge" => res_json(g.merge()),
            "append" => res_json(g.append(&ilread::cfg(&op[1])?)),
            "insert" => match g.insert(&ilread::cfg(&op[1])?) {
                Ok((a, b)) => json!({"ok": true, "entry": a, "exit": b}),
                Err(e) => err_json(&e),
            },
            "block_append" => {
                let src = match g.block(op[2].as_u64().unwrap() as usize) {
                    Ok(b) => Some(b.clone()),
                    Err(_) => None,
                };
                match (src, g.block_mut(op[1].as_u64().unwrap() as usize)) {
                    (Some(s), Ok(d)) => {
                        d.append(&s);
                        json!({"ok": true})
                    }
                    _ => json!({"ok": false, "kind": "NoBlock"}),
                }
            }
            "remove_instruction" => match g.block_mut(op[1].as_u64().unwrap() as usize) {
                Ok(b) => res_json(b.remove_instruction(op[2].as_u64().unwrap() as usize)),
                Err(e) => err_json(&e),
            },
            "set_address" => {
                g.set_address(op[1].as_u64());
                json!({"ok": true})
            }
            "dump" => json!({"ok": true, "cfg": emit::cfg(&g)}),
            _ => return Err(format!("unknown cfg op {}", t)),
        };
        results.push(r);
    }
    Ok(json!({"ok": true, "results": results, "final": emit::cfg(&g)}))
}

// --------------------------------------------------------------- memory --

fn perm(v: &Value) -> MemoryPermissions {
    MemoryPermissions::from_bits_truncate(v.as_u64().unwrap_or(7) as u32)
}

fn endian(v: &Value) -> Endian {
    if v.as_str() == Some("big") { Endian::Big } else { Endian::Little }
}

/// pagedmem: a history over memory::paged::Memory<il::Expression> (stored values are fresh scalars)
/// or Memory<il::Constant> ("values": "constant").
fn pagedmem(req: &Value) -> R<Value> {
    let concrete = req["values"].as_str() == Some("constant");
    let mut mems_e: HashMap<String, memory::paged::Memory<il::Expression>> = HashMap::new();
    let mut mems_c: HashMap<String, memory::paged::Memory<il::Constant>> = HashMap::new();
    let mut out = Vec::new();
    for op in req["ops"].as_array().ok_or("ops")? {
        let t = op[0].as_str().ok_or("op")?;
        let id = op[1].as_str().unwrap_or("m").to_string();
        let r: Value = match t {
            "new" => {
                let e = endian(&op[2]);
                let backing = if op[3].is_null() { None } else { Some(RC::new(backing_from(&op[3], e.clone())?)) };
                if concrete {
                    mems_c.insert(id, match backing { Some(b) => memory::paged::Memory::new_with_backing(e, b), None => memory::paged::Memory::new(e) });
                } else {
                    mems_e.insert(id, match backing { Some(b) => memory::paged::Memory::new_with_backing(e, b), None => memory::paged::Memory::new(e) });
                }
                json!({"ok": true})
            }
            "store" => {
                let addr = op[2].as_u64().ok_or("addr")?;
                if concrete {
                    let c = il::Constant::new_big(op[3].as_str().ok_or("value")?.parse().map_err(|_| "value")?, op[4].as_u64().ok_or("bits")? as usize);
                    match mems_c.get_mut(&id).ok_or("mem")?.store(addr, c) { Ok(()) => json!({"ok": true}), Err(e) => err_json(&e) }
                } else {
                    let e = ilread::expr(&op[3])?;
                    match mems_e.get_mut(&id).ok_or("mem")?.store(addr, e) { Ok(()) => json!({"ok": true}), Err(e) => err_json(&e) }
                }
            }
            "load" => {
                let addr = op[2].as_u64().ok_or("addr")?;
                let bits = op[3].as_u64().ok_or("bits")? as usize;
                if concrete {
                    match mems_c.get(&id).ok_or("mem")?.load(addr, bits) {
                        Ok(Some(c)) => json!({"ok": true, "value": emit::constant(&c)}),
                        Ok(None) => json!({"ok": true, "value": null}),
                        Err(e) => err_json(&e),
                    }
                } else {
                    match mems_e.get(&id).ok_or("mem")?.load(addr, bits) {
                        Ok(Some(e)) => json!({"ok": true, "value": emit::expr(&e)}),
                        Ok(None) => json!({"ok": true, "value": null}),
                        Err(e) => err_json(&e),
                    }
                }
            }
            "clone" => {
                let dst = op[2].as_str().ok_or("dst")?.to_string();
                if concrete {
                    let m = mems_c.get(&id).ok_or("mem")?.clone();
                    mems_c.insert(dst, m);
                } else {
                    let m = mems_e.get(&id).ok_or("mem")?.clone();
                    mems_e.insert(dst, m);
                }
                json!({"ok": true})
            }
            "eq" => {
                let other = op[2].as_str().ok_or("other")?;
                let v = if concrete { mems_c.get(&id).ok_or("mem")? == mems_c.get(other).ok_or("mem")? } else { mems_e.get(&id).ok_or("mem")? == mems_e.get(other).ok_or("mem")? };
                json!({"ok": true, "value": v})
            }
            "setperm" => {
                let (a, l, p) = (op[2].as_u64().ok_or("addr")?, op[3].as_u64().ok_or("len")?, perm(&op[4]));
                if concrete { mems_c.get_mut(&id).ok_or("mem")?.set_permissions(a, l, p) } else { mems_e.get_mut(&id).ok_or("mem")?.set_permissions(a, l, p) }
                json!({"ok": true})
            }
            "perm" => {
                let a = op[2].as_u64().ok_or("addr")?;
                let p = if concrete { mems_c.get(&id).ok_or("mem")?.permissions(a) } else { mems_e.get(&id).ok_or("mem")?.permissions(a) };
                json!({"ok": true, "value": p.map(|x| x.bits())})
            }
            _ => return Err(format!("unknown pagedmem op {}", t)),
        };
        out.push(r);
    }
    Ok(json!({"ok": true, "results": out}))
}

fn sections_json(m: &memory::backing::Memory) -> Value {
    json!(m.sections().iter().map(|(a, s)| json!([a, hex(s.data()), s.permissions().bits()])).collect::<Vec<_>>())
}

fn backing(req: &Value) -> R<Value> {
    let mut m = memory::backing::Memory::new(endian(&req["endian"]));
    let mut out = Vec::new();
    for op in req["ops"].as_array().ok_or("ops")? {
        let t = op[0].as_str().ok_or("op")?;
        let r = match t {
            "set_memory" => {
                m.set_memory(op[1].as_u64().ok_or("addr")?, unhex(op[2].as_str().ok_or("data")?)?, perm(&op[3]));
                json!({"ok": true})
            }
            "get8" => json!({"ok": true, "value": m.get8(op[1].as_u64().ok_or("addr")?)}),
            "get32" => json!({"ok": true, "value": m.get32(op[1].as_u64().ok_or("addr")?)}),
            "set32" => match m.set32(op[1].as_u64().ok_or("addr")?, op[2].as_u64().ok_or("value")? as u32) {
                Ok(()) => json!({"ok": true}),
                Err(e) => err_json(&e),
            },
            "get" => json!({"ok": true, "value": m.get(op[1].as_u64().ok_or("addr")?, op[2].as_u64().ok_or("bits")? as usize).map(|c| emit::constant(&c))}),
            "perm" => json!({"ok": true, "value": m.permissions(op[1].as_u64().ok_or("addr")?).map(|p| p.bits())}),
            "sections" => json!({"ok": true, "value": sections_json(&m)}),
            _ => return Err(format!("unknown backing op {}", t)),
        };
        out.push(r);
    }
    Ok(json!({"ok": true, "results": out, "sections": sections_json(&m)}))
}

/// exprop: derived expression builders, constructors and scalar substitution on real il::Expression
fn exprop(req: &Value) -> R<Value> {
    let op = req["op"].as_str().ok_or("op")?;
    let e = |k: &str| -> R<il::Expression> { ilread::expr(&req[k]) };
    let r = match op {
        "sra" => il::Expression::sra(e("lhs")?, e("rhs")?),
        "rotl" => il::Expression::rotl(e("lhs")?, e("rhs")?),
        "replace_scalar" => e("expr")?.replace_scalar(&ilread::scalar(&req["scalar"])?, &e("with")?),
        "add" => il::Expression::add(e("lhs")?, e("rhs")?),
        "sub" => il::Expression::sub(e("lhs")?, e("rhs")?),
        "mul" => il::Expression::mul(e("lhs")?, e("rhs")?),
        "divu" => il::Expression::divu(e("lhs")?, e("rhs")?),
        "modu" => il::Expression::modu(e("lhs")?, e("rhs")?),
        "divs" => il::Expression::divs(e("lhs")?, e("rhs")?),
        "mods" => il::Expression::mods(e("lhs")?, e("rhs")?),
        "and" => il::Expression::and(e("lhs")?, e("rhs")?),
        "or" => il::Expression::or(e("lhs")?, e("rhs")?),
        "xor" => il::Expression::xor(e("lhs")?, e("rhs")?),
        "shl" => il::Expression::shl(e("lhs")?, e("rhs")?),
        "shr" => il::Expression::shr(e("lhs")?, e("rhs")?),
        "ashr" => il::Expression::ashr(e("lhs")?, e("rhs")?),
        "cmpeq" => il::Expression::cmpeq(e("lhs")?, e("rhs")?),
        "cmpneq" => il::Expression::cmpneq(e("lhs")?, e("rhs")?),
        "cmpltu" => il::Expression::cmpltu(e("lhs")?, e("rhs")?),
        "cmplts" => il::Expression::cmplts(e("lhs")?, e("rhs")?),
        "zext" => il::Expression::zext(req["bits"].as_u64().ok_or("bits")? as usize, e("lhs")?),
        "sext" => il::Expression::sext(req["bits"].as_u64().ok_or("bits")? as usize, e("lhs")?),
        "trun" => il::Expression::trun(req["bits"].as_u64().ok_or("bits")? as usize, e("lhs")?),
        "ite" => il::Expression::ite(e("cond")?, e("lhs")?, e("rhs")?),
        "eval" => {
            return Ok(match falcon::executor::eval(&e("expr")?) {
                Ok(c) => json!({"ok": true, "value": emit::constant(&c)}),
                Err(er) => err_json(&er),
            })
        }
        _ => return Err(format!("unknown exprop {}", op)),
    };
    Ok(match r {
        Ok(x) => json!({"ok": true, "expr": emit::expr(&x), "bits": x.bits()}),
        Err(er) => err_json(&er),
    })
}

pub fn dispatch(cmd: &str, req: &Value) -> R<Value> {
    match cmd {
        "exprop" => exprop(req),
        "arch" => arch(req),
        "fixpoint" => fixpoint(req),
        "cfgedit" => cfgedit(req),
        "pagedmem" => pagedmem(req),
        "backing" => backing(req),
        _ => crate::cmds4::dispatch(cmd, req),
    }
}
