//! Analysis / transformation / memory commands.
use crate::cmds::{arch_for, err_json};
use crate::{emit, ilread};
use falcon::analysis;
use falcon::il;
use serde_json::{json, Value};

pub type R<T> = Result<T, String>;

pub fn loc_json(l: &il::ProgramLocation) -> Value {
    match l.function_location() {
        il::FunctionLocation::Instruction(b, i) => json!(["ins", b, i]),
        il::FunctionLocation::Edge(h, t) => json!(["edge", h, t]),
        il::FunctionLocation::EmptyBlock(b) => json!(["empty", b]),
    }
}

fn ref_loc_json(l: &il::RefProgramLocation) -> Value {
    let pl: il::ProgramLocation = l.clone().into();
    loc_json(&pl)
}

fn function_of(req: &Value) -> R<il::Function> {
    ilread::function(&req["function"])
}

fn locset(ls: &analysis::LocationSet) -> Value {
    let mut v: Vec<Value> = ls.locations().iter().map(loc_json).collect();
    v.sort_by_key(|x| x.to_string());
    json!(v)
}

fn ssa(req: &Value) -> R<Value> {
    let f = function_of(req)?;
    Ok(match falcon::transformation::ssa_transformation(&f) {
        Ok(g) => json!({"ok": true, "function": emit::function(&g)}),
        Err(e) => err_json(&e),
    })
}

fn dce(req: &Value) -> R<Value> {
    let f = function_of(req)?;
    Ok(match analysis::dead_code_elimination(&f) {
        Ok(g) => json!({"ok": true, "function": emit::function(&g)}),
        Err(e) => err_json(&e),
    })
}

fn table<T, F: Fn(&T) -> Value>(
    m: &std::collections::HashMap<il::ProgramLocation, T>,
    f: F,
) -> Value {
    let mut rows: Vec<(String, Value)> = m
        .iter()
        .map(|(k, v)| {
            let kj = loc_json(k);
            (kj.to_string(), json!([kj, f(v)]))
        })
        .collect();
    rows.sort_by(|a, b| a.0.cmp(&b.0));
    json!(rows.into_iter().map(|x| x.1).collect::<Vec<_>>())
}

fn rd(req: &Value) -> R<Value> {
    let f = function_of(req)?;
    Ok(match analysis::reaching_definitions(&f) {
        Ok(m) => json!({"ok": true, "table": table(&m, locset)}),
        Err(e) => err_json(&e),
    })
}

fn usedef(req: &Value) -> R<Value> {
    let f = function_of(req)?;
    Ok(match analysis::use_def(&f) {
        Ok(m) => json!({"ok": true, "table": table(&m, locset)}),
        Err(e) => err_json(&e),
    })
}

fn defuse(req: &Value) -> R<Value> {
    let f = function_of(req)?;
    Ok(match analysis::def_use(&f) {
        Ok(m) => json!({"ok": true, "table": table(&m, locset)}),
        Err(e) => err_json(&e),
    })
}

/// constants: per location, for every scalar named in "scalars" the reported constant (or null),
/// plus Constants::eval on each probe expression.
fn constants(req: &Value) -> R<Value> {
    let f = function_of(req)?;
    let mut scalars = Vec::new();
    if let Some(a) = req["scalars"].as_array() {
        for s in a {
            scalars.push(ilread::scalar(s)?);
        }
    }
    let mut probes = Vec::new();
    if let Some(a) = req["probes"].as_array() {
        for e in a {
            probes.push(ilread::expr(e)?);
        }
    }
    Ok(match analysis::constants::constants(&f) {
        Ok(m) => json!({"ok": true, "table": table(&m, |c| {
            let sc: Vec<Value> = scalars.iter().map(|s| match c.scalar(s) {
                Some(k) => json!([emit::scalar(s), emit::constant(k)]),
                None => json!([emit::scalar(s), null]),
            }).collect();
            let pr: Vec<Value> = probes.iter().map(|e| match c.eval(e) {
                Some(k) => emit::constant(&k),
                None => Value::Null,
            }).collect();
            json!({"scalars": sc, "probes": pr})
        })}),
        Err(e) => err_json(&e),
    })
}

fn spoffsets(req: &Value) -> R<Value> {
    let f = function_of(req)?;
    let a = arch_for(req["arch"].as_str().ok_or("arch")?)?;
    Ok(
        match analysis::stack_pointer_offsets::stack_pointer_offsets(&f, a.as_ref()) {
            Ok(m) => json!({"ok": true, "sp": emit::scalar(&a.stack_pointer()), "table": table(&m, |v| match v {
                analysis::stack_pointer_offsets::StackPointerOffset::Top => json!("top"),
                analysis::stack_pointer_offsets::StackPointerOffset::Bottom => json!("bottom"),
                analysis::stack_pointer_offsets::StackPointerOffset::Value(i) => json!(*i as i64),
            })}),
            Err(e) => err_json(&e),
        },
    )
}

/// locations: forward/backward relation and enumeration as falcon reports them.
fn locations(req: &Value) -> R<Value> {
    let f = function_of(req)?;
    let mut rows = Vec::new();
    for fl in f.locations() {
        let pl = il::RefProgramLocation::new(&f, fl);
        let fw = match pl.forward() {
            Ok(v) => json!(v.iter().map(ref_loc_json).collect::<Vec<_>>()),
            Err(e) => json!({"err": e.to_string()}),
        };
        let bw = match pl.backward() {
            Ok(v) => json!(v.iter().map(ref_loc_json).collect::<Vec<_>>()),
            Err(e) => json!({"err": e.to_string()}),
        };
        rows.push(json!({"loc": ref_loc_json(&pl), "forward": fw, "backward": bw}));
    }
    Ok(json!({"ok": true, "locations": rows}))
}

pub fn dispatch(cmd: &str, req: &Value) -> R<Value> {
    match cmd {
        "ssa" => ssa(req),
        "dce" => dce(req),
        "rd" => rd(req),
        "usedef" => usedef(req),
        "defuse" => defuse(req),
        "constants" => constants(req),
        "spoffsets" => spoffsets(req),
        "locations" => locations(req),
        _ => crate::cmds3::dispatch(cmd, req),
    }
}
