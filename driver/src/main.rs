//! fdriver: runs real falcon entry points concretely and dumps artefacts as JSON.
//! Protocol: one JSON request per stdin line, one JSON response per stdout line.
mod cmds;
mod cmds2;
mod cmds3;
mod cmds4;
mod emit;
mod ilread;

use serde_json::{json, Value};
use std::io::{BufRead, Write};
use std::panic;
use std::sync::Mutex;

pub fn unhex(s: &str) -> Result<Vec<u8>, String> {
    let s: String = s.chars().filter(|c| !c.is_whitespace()).collect();
    if s.len() % 2 != 0 {
        return Err("odd hex".into());
    }
    (0..s.len())
        .step_by(2)
        .map(|i| u8::from_str_radix(&s[i..i + 2], 16).map_err(|e| e.to_string()))
        .collect()
}

pub fn hex(b: &[u8]) -> String {
    b.iter().map(|x| format!("{:02x}", x)).collect()
}

static LAST_PANIC: Mutex<Option<String>> = Mutex::new(None);

pub fn take_last_panic() -> String {
    LAST_PANIC.lock().unwrap().take().unwrap_or_default()
}

fn main() {
    panic::set_hook(Box::new(|info| {
        let msg = if let Some(s) = info.payload().downcast_ref::<&str>() {
            s.to_string()
        } else if let Some(s) = info.payload().downcast_ref::<String>() {
            s.clone()
        } else {
            "panic".to_string()
        };
        let loc = info
            .location()
            .map(|l| format!("{}:{}", l.file(), l.line()))
            .unwrap_or_default();
        *LAST_PANIC.lock().unwrap() = Some(format!("{} @ {}", msg, loc));
    }));
    let stdin = std::io::stdin();
    let stdout = std::io::stdout();
    for line in stdin.lock().lines() {
        let line = match line {
            Ok(l) => l,
            Err(_) => break,
        };
        if line.trim().is_empty() {
            continue;
        }
        let req: Value = match serde_json::from_str(&line) {
            Ok(v) => v,
            Err(e) => {
                let mut o = stdout.lock();
                writeln!(o, "{}", json!({"fatal": format!("bad json: {}", e)})).unwrap();
                o.flush().unwrap();
                continue;
            }
        };
        let res = panic::catch_unwind(panic::AssertUnwindSafe(|| cmds::dispatch(&req)));
        let out = match res {
            Ok(Ok(v)) => v,
            Ok(Err(e)) => json!({"fatal": e}),
            Err(_) => {
                let m = LAST_PANIC.lock().unwrap().take().unwrap_or_default();
                json!({"panic": m})
            }
        };
        let mut o = stdout.lock();
        writeln!(o, "{}", out).unwrap();
        o.flush().unwrap();
    }
}
