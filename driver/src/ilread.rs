//! Reader for the JSON IL syntax of emit.rs (so generated IL can be fed to falcon).
use falcon::il::*;
use num_bigint::BigUint;
use serde_json::Value;
use std::str::FromStr;

pub type R<T> = Result<T, String>;

fn arr(v: &Value) -> R<&Vec<Value>> {
    v.as_array().ok_or_else(|| format!("expected array: {}", v))
}

pub fn scalar(v: &Value) -> R<Scalar> {
    let a = arr(v)?;
    if a.len() < 3 || a[0] != "scalar" {
        return Err(format!("bad scalar {}", v));
    }
    let mut s = Scalar::new(
        a[1].as_str().ok_or("scalar name")?,
        a[2].as_u64().ok_or("scalar bits")? as usize,
    );
    if a.len() > 3 {
        if let Some(n) = a[3].as_u64() {
            s.set_ssa(Some(n as usize));
        }
    }
    Ok(s)
}

pub fn expr(v: &Value) -> R<Expression> {
    let a = arr(v)?;
    let tag = a[0].as_str().ok_or("expr tag")?;
    let b = |i: usize| -> R<Box<Expression>> { Ok(Box::new(expr(&a[i])?)) };
    Ok(match tag {
        "scalar" => Expression::Scalar(scalar(v)?),
        "const" => {
            let val = match &a[1] {
                Value::String(s) => BigUint::from_str(s).map_err(|e| e.to_string())?,
                Value::Number(n) => BigUint::from(n.as_u64().ok_or("const")?),
                _ => return Err("const value".into()),
            };
            Expression::Constant(Constant::new_big(val, a[2].as_u64().ok_or("bits")? as usize))
        }
        "add" => Expression::Add(b(1)?, b(2)?),
        "sub" => Expression::Sub(b(1)?, b(2)?),
        "mul" => Expression::Mul(b(1)?, b(2)?),
        "divu" => Expression::Divu(b(1)?, b(2)?),
        "modu" => Expression::Modu(b(1)?, b(2)?),
        "divs" => Expression::Divs(b(1)?, b(2)?),
        "mods" => Expression::Mods(b(1)?, b(2)?),
        "and" => Expression::And(b(1)?, b(2)?),
        "or" => Expression::Or(b(1)?, b(2)?),
        "xor" => Expression::Xor(b(1)?, b(2)?),
        "shl" => Expression::Shl(b(1)?, b(2)?),
        "shr" => Expression::Shr(b(1)?, b(2)?),
        "ashr" => Expression::AShr(b(1)?, b(2)?),
        "cmpeq" => Expression::Cmpeq(b(1)?, b(2)?),
        "cmpneq" => Expression::Cmpneq(b(1)?, b(2)?),
        "cmplts" => Expression::Cmplts(b(1)?, b(2)?),
        "cmpltu" => Expression::Cmpltu(b(1)?, b(2)?),
        "zext" => Expression::Zext(a[1].as_u64().ok_or("bits")? as usize, b(2)?),
        "sext" => Expression::Sext(a[1].as_u64().ok_or("bits")? as usize, b(2)?),
        "trun" => Expression::Trun(a[1].as_u64().ok_or("bits")? as usize, b(2)?),
        "ite" => Expression::Ite(b(1)?, b(2)?, b(3)?),
        _ => return Err(format!("unknown expr tag {}", tag)),
    })
}

fn exprs(v: &Value) -> R<Option<Vec<Expression>>> {
    if v.is_null() {
        return Ok(None);
    }
    let mut out = Vec::new();
    for e in arr(v)? {
        out.push(expr(e)?);
    }
    Ok(Some(out))
}

pub fn intrinsic(v: &Value) -> R<Intrinsic> {
    let hex = v["bytes"].as_str().unwrap_or("");
    let bytes = crate::unhex(hex)?;
    Ok(Intrinsic::new(
        v["mnemonic"].as_str().unwrap_or("intrinsic"),
        v["str"].as_str().unwrap_or("intrinsic"),
        exprs(&v["arguments"])?.unwrap_or_default(),
        exprs(&v["written"])?,
        exprs(&v["read"])?,
        bytes,
    ))
}

pub fn operation(v: &Value) -> R<Operation> {
    let a = arr(v)?;
    let tag = a[0].as_str().ok_or("op tag")?;
    Ok(match tag {
        "assign" => Operation::assign(scalar(&a[1])?, expr(&a[2])?),
        "store" => Operation::store(expr(&a[1])?, expr(&a[2])?),
        "load" => Operation::load(scalar(&a[1])?, expr(&a[2])?),
        "branch" => Operation::branch(expr(&a[1])?),
        "intrinsic" => Operation::intrinsic(intrinsic(&a[1])?),
        "nop" => {
            if a.len() > 1 {
                Operation::placeholder(operation(&a[1])?)
            } else {
                Operation::nop()
            }
        }
        _ => return Err(format!("unknown op tag {}", tag)),
    })
}

/// Build a ControlFlowGraph: blocks must be listed with index == position
/// (0,1,2,..) because ControlFlowGraph::new_block hands out indices in order.
/// Instruction indices are handed out by the Block in order as well.
pub fn cfg(v: &Value) -> R<ControlFlowGraph> {
    let mut g = ControlFlowGraph::new();
    for (pos, b) in arr(&v["blocks"])?.iter().enumerate() {
        let blk = g.new_block().map_err(|e| e.to_string())?;
        if let Some(i) = b["index"].as_u64() {
            if i as usize != pos || blk.index() != pos {
                return Err(format!("block index {} at position {}", i, pos));
            }
        }
        for ins in arr(&b["instructions"])? {
            let op = operation(&ins["op"])?;
            match op {
                Operation::Assign { dst, src } => blk.assign(dst, src),
                Operation::Store { index, src } => blk.store(index, src),
                Operation::Load { dst, index } => blk.load(dst, index),
                Operation::Branch { target } => blk.branch(target),
                Operation::Intrinsic { intrinsic } => blk.intrinsic(intrinsic),
                Operation::Nop { placeholder } => match placeholder {
                    Some(p) => blk.placeholder(*p),
                    None => blk.nop(),
                },
            }
            if let Some(addr) = ins["address"].as_u64() {
                let n = blk.instructions().len();
                blk.instructions_mut()[n - 1].set_address(Some(addr));
            }
        }
    }
    for e in arr(&v["edges"])? {
        let h = e["head"].as_u64().ok_or("head")? as usize;
        let t = e["tail"].as_u64().ok_or("tail")? as usize;
        if e["cond"].is_null() {
            g.unconditional_edge(h, t).map_err(|e| e.to_string())?;
        } else {
            g.conditional_edge(h, t, expr(&e["cond"])?)
                .map_err(|e| e.to_string())?;
        }
    }
    if let Some(en) = v["entry"].as_u64() {
        g.set_entry(en as usize).map_err(|e| e.to_string())?;
    }
    if let Some(ex) = v["exit"].as_u64() {
        g.set_exit(ex as usize).map_err(|e| e.to_string())?;
    }
    Ok(g)
}

pub fn function(v: &Value) -> R<Function> {
    let mut g = cfg(&v["cfg"])?;
    // optional edits applied after construction, so that instruction indices are no longer dense
    // (Block::remove_instruction is public API): "remove": [[block, instruction_index], ...]
    if let Some(rm) = v["remove"].as_array() {
        for r in rm {
            let b = r[0].as_u64().ok_or("remove block")? as usize;
            let i = r[1].as_u64().ok_or("remove index")? as usize;
            g.block_mut(b)
                .map_err(|e| e.to_string())?
                .remove_instruction(i)
                .map_err(|e| e.to_string())?;
        }
    }
    Ok(Function::new(v["address"].as_u64().unwrap_or(0), g))
}
