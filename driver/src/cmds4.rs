//! scan: lift many byte strings with the real translators under catch_unwind and check the
//! well-formedness of whatever comes back (C05 ground half); returns the distinct guard sets
//! for the solver half (edge determinism over all valuations).
use crate::cmds::{arch_for, translator_for, R};
use crate::{emit, hex, unhex};
use falcon::il::*;
use falcon::translator;
use serde_json::{json, Value};
use std::collections::{BTreeMap, BTreeSet};
use std::panic;

/// Width of an expression if it is well-sorted, else the first rule it breaks.
fn sort(e: &Expression) -> Result<usize, String> {
    use Expression::*;
    match e {
        Scalar(s) => {
            if s.bits() == 0 {
                Err(format!("scalar {} has 0 bits", s.name()))
            } else {
                Ok(s.bits())
            }
        }
        Constant(c) => {
            if c.bits() == 0 {
                Err("constant with 0 bits".into())
            } else {
                Ok(c.bits())
            }
        }
        Add(l, r) | Sub(l, r) | Mul(l, r) | Divu(l, r) | Modu(l, r) | Divs(l, r) | Mods(l, r)
        | And(l, r) | Or(l, r) | Xor(l, r) | Shl(l, r) | Shr(l, r) | AShr(l, r) => {
            let (a, b) = (sort(l)?, sort(r)?);
            if a != b {
                Err(format!("binary operands {} vs {} bits", a, b))
            } else {
                Ok(a)
            }
        }
        Cmpeq(l, r) | Cmpneq(l, r) | Cmplts(l, r) | Cmpltu(l, r) => {
            let (a, b) = (sort(l)?, sort(r)?);
            if a != b {
                Err(format!("comparison operands {} vs {} bits", a, b))
            } else {
                Ok(1)
            }
        }
        Zext(b, x) | Sext(b, x) => {
            let a = sort(x)?;
            if a >= *b {
                Err(format!("extension of {} bits to {}", a, b))
            } else {
                Ok(*b)
            }
        }
        Trun(b, x) => {
            let a = sort(x)?;
            if a <= *b || *b == 0 {
                Err(format!("truncation of {} bits to {}", a, b))
            } else {
                Ok(*b)
            }
        }
        Ite(c, t, f) => {
            let (cc, a, b) = (sort(c)?, sort(t)?, sort(f)?);
            if cc != 1 {
                Err(format!("ite condition {} bits", cc))
            } else if a != b {
                Err(format!("ite arms {} vs {} bits", a, b))
            } else {
                Ok(a)
            }
        }
    }
}

fn sort_opt(e: &Expression) -> Result<usize, String> {
    // falcon's own Expression::bits() recurses only into the left operand; use ours
    sort(e)
}

thread_local! {
    static CUR_ROLE: std::cell::RefCell<String> = std::cell::RefCell::new(String::new());
}

struct Acc {
    ok: u64,
    err: u64,
    err_kinds: BTreeMap<String, u64>,
    panics: BTreeMap<String, (u64, String)>,
    bad: BTreeMap<String, (u64, String)>,
    info: BTreeMap<String, (u64, String)>,
    guards: BTreeMap<String, String>,
    mnemonic_ok: BTreeMap<String, u64>,
    scalars: BTreeSet<(String, usize)>,
    collect: bool,
}

fn nm(s: &Scalar) -> String {
    let mut out = String::new();
    let mut last = false;
    for c in s.name().chars() {
        if c.is_ascii_digit() {
            if !last {
                out.push('#');
            }
            last = true;
        } else {
            out.push(c);
            last = false;
        }
    }
    if out.starts_with("temp") {
        out = "temp".into();
    }
    format!("{}:{}", out, s.bits())
}

fn note(m: &mut BTreeMap<String, (u64, String)>, k: String, ex: &str) {
    let k = CUR_ROLE.with(|r| format!("{} [{}]", k, r.borrow()));
    let e = m.entry(k).or_insert((0, ex.to_string()));
    e.0 += 1;
}

fn check_graph(acc: &mut Acc, g: &ControlFlowGraph, addr_bits: usize, ex: &str, ops: bool) {
    let blocks: BTreeSet<usize> = g.blocks().iter().map(|b| b.index()).collect();
    match (g.entry(), g.exit()) {
        (Some(en), Some(exi)) => {
            if !blocks.contains(&en) || !blocks.contains(&exi) {
                note(&mut acc.bad, "graph: entry/exit is not a block".into(), ex);
            } else {
                // exit reachable from entry through existing blocks
                let mut seen = BTreeSet::new();
                let mut st = vec![en];
                while let Some(b) = st.pop() {
                    if !seen.insert(b) {
                        continue;
                    }
                    if let Ok(s) = g.successor_indices(b) {
                        for t in s {
                            st.push(t);
                        }
                    }
                }
                if !seen.contains(&exi) {
                    note(&mut acc.bad, "graph: exit not reachable from entry".into(), ex);
                }
                if seen.len() != blocks.len() {
                    note(&mut acc.bad, "graph: block not reachable from entry".into(), ex);
                }
            }
        }
        _ => note(&mut acc.bad, "graph: entry or exit unset".into(), ex),
    }
    for e in g.edges() {
        if !blocks.contains(&e.head()) || !blocks.contains(&e.tail()) {
            note(&mut acc.bad, "graph: edge joins a missing block".into(), ex);
        }
        if let Some(c) = e.condition() {
            match sort_opt(c) {
                Ok(1) => {}
                Ok(n) => note(&mut acc.bad, format!("edge guard is {} bits", n), ex),
                Err(m) => note(&mut acc.bad, format!("edge guard ill-sorted: {}", m), ex),
            }
        }
    }
    for b in g.blocks() {
        let outs = g.edges_out(b.index()).unwrap_or_default();
        if !outs.is_empty() {
            let gs: Vec<Value> = outs
                .iter()
                .map(|e| e.condition().map(emit::expr).unwrap_or(Value::Null))
                .collect();
            if outs.len() > 1 || outs[0].condition().is_some() {
                acc.guards.entry(json!(gs).to_string()).or_insert_with(|| ex.to_string());
            }
            if g.exit() == Some(b.index()) {
                note(&mut acc.bad, "graph: exit block has outgoing edges".into(), ex);
            }
        } else if g.exit() != Some(b.index()) {
            note(&mut acc.bad, "graph: non-exit block without outgoing edge".into(), ex);
        }
        for i in b.instructions() {
            if !ops {
                break;
            }
            if acc.collect {
                let op = i.operation();
                for sc in op.scalars_read().unwrap_or_default().into_iter().chain(op.scalars_written().unwrap_or_default()) {
                    if !sc.name().starts_with("temp") {
                        acc.scalars.insert((sc.name().to_string(), sc.bits()));
                    }
                }
            }
            match i.operation() {
                Operation::Assign { dst, src } => match sort_opt(src) {
                    Ok(n) if n == dst.bits() => {}
                    Ok(n) => note(&mut acc.bad, format!("assign: {} bits into {}", n, nm(dst)), &format!("{} | {}", ex, i.operation())),
                    Err(m) => note(&mut acc.bad, format!("assign: ill-sorted source: {}", m), ex),
                },
                Operation::Store { index, src } => {
                    match sort_opt(index) {
                        Ok(n) if n == addr_bits => {}
                        Ok(n) => note(&mut acc.info, format!("store: address is {} bits (word size {})", n, addr_bits), ex),
                        Err(m) => note(&mut acc.bad, format!("store: ill-sorted address: {}", m), ex),
                    }
                    match sort_opt(src) {
                        Ok(n) if n % 8 == 0 => {}
                        Ok(n) => note(&mut acc.bad, format!("store: value of {} bits", n), ex),
                        Err(m) => note(&mut acc.bad, format!("store: ill-sorted value: {}", m), ex),
                    }
                }
                Operation::Load { dst, index } => {
                    match sort_opt(index) {
                        Ok(n) if n == addr_bits => {}
                        Ok(n) => note(&mut acc.info, format!("load: address is {} bits (word size {})", n, addr_bits), ex),
                        Err(m) => note(&mut acc.bad, format!("load: ill-sorted address: {}", m), ex),
                    }
                    if dst.bits() == 0 || dst.bits() % 8 != 0 {
                        note(&mut acc.bad, format!("load: destination of {} bits", dst.bits()), ex);
                    }
                }
                Operation::Branch { target } => match sort_opt(target) {
                    Ok(n) if n == addr_bits => {}
                    Ok(n) if n <= 64 => note(&mut acc.info, format!("branch: target is {} bits (word size {})", n, addr_bits), ex),
                    Ok(n) => note(&mut acc.bad, format!("branch: target is {} bits", n), ex),
                    Err(m) => note(&mut acc.bad, format!("branch: ill-sorted target: {}", m), ex),
                },
                Operation::Intrinsic { intrinsic } => {
                    for a in intrinsic.arguments() {
                        if let Err(m) = sort_opt(a) {
                            note(&mut acc.bad, format!("intrinsic: ill-sorted argument: {}", m), ex);
                        }
                    }
                }
                Operation::Nop { .. } => {}
            }
        }
    }
}

/// Code-independent role of an input: the major opcode fields of its first instruction.
fn role(arch: &str, b: &[u8]) -> String {
    if arch == "x86" || arch == "amd64" {
        let mut i = 0;
        let mut pre = String::new();
        let mut rexw = false;
        while i < b.len() {
            match b[i] {
                0x66 => {
                    pre.push_str("66.");
                    rexw = false;
                }
                0x67 => {
                    pre.push_str("67.");
                    rexw = false;
                }
                0xf2 | 0xf3 | 0xf0 | 0x2e | 0x36 | 0x3e | 0x26 | 0x64 | 0x65 => rexw = false,
                0x40..=0x4f if arch == "amd64" => rexw = b[i] & 8 != 0, // only the REX right before the opcode counts
                _ => break,
            }
            i += 1;
            if i > 14 {
                return "prefixes".into();
            }
        }
        let mut pres: Vec<&str> = pre.split('.').filter(|x| !x.is_empty()).collect();
        pres.sort();
        pres.dedup();
        let mut out = pres.join(".");
        if rexw {
            out.push_str(".rexw");
        }
        if i >= b.len() {
            return format!("{}:end", out);
        }
        let mut op = format!("{:02x}", b[i]);
        let mut group = matches!(b[i], 0x80..=0x83 | 0x8c | 0x8e | 0x8f | 0xc0 | 0xc1 | 0xc6 | 0xc7 | 0xd0..=0xd3 | 0xf6 | 0xf7 | 0xfe | 0xff);
        if b[i] == 0x0f && i + 1 < b.len() {
            i += 1;
            op.push_str(&format!("{:02x}", b[i]));
            group = matches!(b[i], 0x00 | 0x01 | 0xba | 0xc7 | 0xae | 0x18 | 0x1f);
            if (b[i] == 0x38 || b[i] == 0x3a) && i + 1 < b.len() {
                i += 1;
                op.push_str(&format!("{:02x}", b[i]));
            }
        }
        if group && i + 1 < b.len() {
            op.push_str(&format!("/{}", (b[i + 1] >> 3) & 7));
        }
        return format!("{}:{}", out, op);
    }
    if b.len() < 4 {
        return "short".into();
    }
    let w = if arch == "mips" || arch == "ppc" {
        u32::from_be_bytes([b[0], b[1], b[2], b[3]])
    } else {
        u32::from_le_bytes([b[0], b[1], b[2], b[3]])
    };
    match arch {
        "mips" | "mipsel" => match w >> 26 {
            0 => format!("special/{:02x}", w & 0x3f),
            1 => format!("regimm/{:02x}", (w >> 16) & 0x1f),
            0x1c => format!("special2/{:02x}", w & 0x3f),
            0x1f => format!("special3/{:02x}", w & 0x3f),
            o => format!("op{:02x}", o),
        },
        "ppc" => match w >> 26 {
            o @ (4 | 19 | 31 | 59 | 63) => format!("op{}/xo{}", o, (w >> 1) & 0x3ff),
            o => format!("op{}", o),
        },
        _ => format!("a64/{:02x}", (w >> 24) & 0x3f),
    }
}

fn normalise_panic(m: &str) -> String {
    // drop line numbers and embedded numerals so that the signature names the site, not the input
    let (msg, loc) = match m.rfind(" @ ") {
        Some(i) => (&m[..i], &m[i + 3..]),
        None => (m, ""),
    };
    let file = loc.rsplit_once(':').map(|x| x.0).unwrap_or(loc);
    let file = file.rsplit_once("/lib/").map(|x| x.1).unwrap_or(file);
    let mut out = String::new();
    let mut last_digit = false;
    for c in msg.chars().take(90) {
        if c.is_ascii_digit() {
            if !last_digit {
                out.push('#');
            }
            last_digit = true;
        } else {
            out.push(c);
            last_digit = false;
        }
    }
    format!("{} @ {}", out, file)
}

pub fn scan(req: &Value) -> R<Value> {
    let arch = req["arch"].as_str().ok_or("arch")?;
    let t = translator_for(arch)?;
    let a = arch_for(arch)?;
    let addr_bits = a.word_size();
    let address = req["address"].as_u64().unwrap_or(0);
    let mut o = translator::Options::new();
    o.set_unsupported_are_intrinsics(req["intrinsics"].as_bool().unwrap_or(false));
    let mut items: Vec<Vec<u8>> = Vec::new();
    if let Some(arr) = req["items"].as_array() {
        for it in arr {
            items.push(unhex(it.as_str().ok_or("item")?)?);
        }
    }
    if let Some(gen) = req.get("lcg") {
        // words: w = (x & mask) | fixed for an LCG stream x; emitted in the arch's instruction byte order
        let mut x = gen["seed"].as_u64().unwrap_or(1);
        let n = gen["count"].as_u64().unwrap_or(0);
        let mask = gen["mask"].as_u64().unwrap_or(0xffff_ffff) as u32;
        let fixed = gen["fixed"].as_u64().unwrap_or(0) as u32;
        let nbytes = gen["nbytes"].as_u64().unwrap_or(4) as usize;
        let big = gen["big"].as_bool().unwrap_or(false);
        for _ in 0..n {
            let mut v = Vec::new();
            while v.len() < nbytes {
                x = x.wrapping_mul(6364136223846793005).wrapping_add(1442695040888963407);
                let w = (((x >> 32) as u32) & mask) | fixed;
                let b = if big { w.to_be_bytes() } else { w.to_le_bytes() };
                v.extend_from_slice(&b);
            }
            v.truncate(nbytes);
            items.push(v);
        }
    }
    let mut acc = Acc {
        ok: 0,
        err: 0,
        err_kinds: BTreeMap::new(),
        panics: BTreeMap::new(),
        bad: BTreeMap::new(),
        info: BTreeMap::new(),
        guards: BTreeMap::new(),
        mnemonic_ok: BTreeMap::new(),
        scalars: BTreeSet::new(),
        collect: req["collect_scalars"].as_bool().unwrap_or(false),
    };
    for bytes in &items {
        let ex = hex(bytes);
        CUR_ROLE.with(|r| *r.borrow_mut() = role(arch, bytes));
        let res = panic::catch_unwind(panic::AssertUnwindSafe(|| t.translate_block(bytes, address, &o)));
        match res {
            Err(_) => {
                let m = crate::take_last_panic();
                // attribute the panic to the instruction it happens in: the longest-starting suffix that still panics
                let step = if arch == "x86" || arch == "amd64" { 1 } else { 4 };
                let mut k = 0;
                let mut off = step;
                while off < bytes.len() {
                    let sfx = &bytes[off..];
                    let a2 = address.wrapping_add(off as u64);
                    if panic::catch_unwind(panic::AssertUnwindSafe(|| t.translate_block(sfx, a2, &o))).is_err() {
                        k = off;
                    }
                    off += step;
                }
                crate::take_last_panic();
                CUR_ROLE.with(|r| *r.borrow_mut() = role(arch, &bytes[k..]));
                note(&mut acc.panics, normalise_panic(&m), &ex);
            }
            Ok(Err(e)) => {
                acc.err += 1;
                let dbg = format!("{:?}", e);
                let kind: String = dbg.chars().take_while(|c| c.is_alphanumeric() || *c == '_').collect();
                *acc.err_kinds.entry(kind).or_insert(0) += 1;
            }
            Ok(Ok(r)) => {
                acc.ok += 1;
                if r.length() > bytes.len() {
                    note(&mut acc.bad, "result: length exceeds the input".into(), &ex);
                }
                for (ia, g) in r.instructions() {
                    let off = ia.wrapping_sub(address) as usize;
                    if off < bytes.len() {
                        CUR_ROLE.with(|r| *r.borrow_mut() = role(arch, &bytes[off..]));
                    }
                    check_graph(&mut acc, g, addr_bits, &ex, true);
                }
                let succ = r.successors();
                for (_, c) in succ {
                    if let Some(c) = c {
                        match sort_opt(c) {
                            Ok(1) => {}
                            Ok(n) => note(&mut acc.bad, format!("successor guard is {} bits", n), &ex),
                            Err(m) => note(&mut acc.bad, format!("successor guard ill-sorted: {}", m), &ex),
                        }
                    }
                }
                if succ.len() > 1 || (succ.len() == 1 && succ[0].1.is_some()) {
                    let gs: Vec<Value> = succ.iter().map(|(_, c)| c.as_ref().map(emit::expr).unwrap_or(Value::Null)).collect();
                    acc.guards.entry(json!(gs).to_string()).or_insert_with(|| ex.to_string());
                }
                if req["blockify"].as_bool().unwrap_or(false) {
                    let b = panic::catch_unwind(panic::AssertUnwindSafe(|| r.blockify()));
                    match b {
                        Err(_) => {
                            let m = crate::take_last_panic();
                            note(&mut acc.panics, format!("blockify: {}", normalise_panic(&m)), &ex);
                        }
                        Ok(Err(e)) => note(&mut acc.bad, format!("blockify fails: {:?}", e).chars().take(80).collect(), &ex),
                        Ok(Ok(g)) => {
                            CUR_ROLE.with(|r| *r.borrow_mut() = "blockify".into());
                            check_graph(&mut acc, &g, addr_bits, &ex, false)
                        }
                    }
                }
            }
        }
    }
    let m2j = |m: &BTreeMap<String, (u64, String)>| -> Value {
        Value::Array(m.iter().map(|(k, (n, ex))| json!({"what": k, "count": n, "example": ex})).collect())
    };
    Ok(json!({
        "ok": true,
        "n": items.len(),
        "lifted": acc.ok,
        "errors": acc.err,
        "error_kinds": acc.err_kinds,
        "panics": m2j(&acc.panics),
        "bad": m2j(&acc.bad),
        "info": m2j(&acc.info),
        "guards": acc.guards.iter().map(|(s, ex)| json!([serde_json::from_str::<Value>(s).unwrap(), ex])).collect::<Vec<_>>(),
        "mnemonics": acc.mnemonic_ok,
        "scalars": acc.scalars.iter().map(|(n, b)| json!([n, b])).collect::<Vec<_>>(),
    }))
}

/// elf: run the real loader on a byte string (validation of the C19 stubs)
fn elf(req: &Value) -> R<Value> {
    use falcon::loader::Loader;
    let bytes = unhex(req["bytes"].as_str().ok_or("bytes")?)?;
    let base = req["base"].as_u64().unwrap_or(0);
    let mut e = match falcon::loader::Elf::new(bytes, base) {
        Ok(e) => e,
        Err(err) => return Ok(json!({"ok": false, "error": err.to_string()})),
    };
    if let Some(us) = req["user_entries"].as_array() {
        for u in us {
            e.add_user_function(u.as_u64().ok_or("user entry")?);
        }
    }
    let mem = match e.memory() {
        Ok(m) => json!(m.sections().iter().map(|(a, s)| json!([a, hex(s.data()), s.permissions().bits()])).collect::<Vec<_>>()),
        Err(err) => json!({"error": err.to_string()}),
    };
    let fe = match e.function_entries() {
        Ok(v) => json!(v.iter().map(|f| json!([f.address(), f.name()])).collect::<Vec<_>>()),
        Err(err) => json!({"error": err.to_string()}),
    };
    Ok(json!({
        "ok": true,
        "arch": e.architecture().name(),
        "endian": format!("{:?}", e.architecture().endian()),
        "memory": mem,
        "function_entries": fe,
        "program_entry": e.program_entry(),
        "symbols": e.symbols().iter().map(|s| json!([s.address(), s.name()])).collect::<Vec<_>>(),
        "exported_symbols": e.exported_symbols().iter().map(|s| json!([s.address(), s.name()])).collect::<Vec<_>>(),
        "base": e.base_address(),
    }))
}

/// graph: run one real graph-library algorithm on a concrete graph (replay / validation for C11)
fn graph(req: &Value) -> R<Value> {
    use falcon::graph::{Graph, NullEdge, NullVertex};
    let mut g: Graph<NullVertex, NullEdge> = Graph::new();
    for v in req["vertices"].as_array().ok_or("vertices")? {
        g.insert_vertex(NullVertex::new(v.as_u64().ok_or("vertex")? as usize)).map_err(|e| e.to_string())?;
    }
    for e in req["edges"].as_array().ok_or("edges")? {
        g.insert_edge(NullEdge::new(e[0].as_u64().ok_or("h")? as usize, e[1].as_u64().ok_or("t")? as usize)).map_err(|e| e.to_string())?;
    }
    if let Some(ops) = req["edit"].as_array() {
        for op in ops {
            let r = match op[0].as_str().ok_or("op")? {
                "insert_vertex" => g.insert_vertex(NullVertex::new(op[1].as_u64().ok_or("v")? as usize)),
                "insert_edge" => g.insert_edge(NullEdge::new(op[1].as_u64().ok_or("h")? as usize, op[2].as_u64().ok_or("t")? as usize)),
                "remove_vertex" => g.remove_vertex(op[1].as_u64().ok_or("v")? as usize),
                "remove_edge" => g.remove_edge(op[1].as_u64().ok_or("h")? as usize, op[2].as_u64().ok_or("t")? as usize),
                _ => return Err("unknown edit".into()),
            };
            let _ = r;
        }
    }
    let root = req["root"].as_u64().unwrap_or(0) as usize;
    let alg = req["alg"].as_str().ok_or("alg")?;
        let gedges = |t: &Graph<NullVertex, NullEdge>| -> Value {
        let mut v: Vec<(usize, usize)> = t.edges().iter().map(|e| { use falcon::graph::Edge; (e.head(), e.tail()) }).collect();
        v.sort();
        let mut vs: Vec<usize> = t.vertices().iter().map(|x| { use falcon::graph::Vertex; x.index() }).collect();
        vs.sort();
        json!({"vertices": vs, "edges": v})
    };
    let mapset = |m: std::collections::HashMap<usize, Vec<usize>>| -> Value {
        let mut ks: Vec<_> = m.into_iter().map(|(k, mut v)| { v.sort(); (k, v) }).collect();
        ks.sort();
        json!(ks)
    };
    let err = |e: falcon::Error| json!({"error": e.to_string()});
    let out = match alg {
        "idom" => match g.compute_immediate_dominators(root) { Ok(m) => { let mut v: Vec<(usize, usize)> = m.into_iter().collect(); v.sort(); json!(v) } Err(e) => err(e) },
        "dominators" => match g.compute_dominators(root) { Ok(m) => mapset(m.into_iter().map(|(k, s)| (k, s.into_iter().collect())).collect()), Err(e) => err(e) },
        "frontiers" => match g.compute_dominance_frontiers(root) { Ok(m) => mapset(m.into_iter().map(|(k, s)| (k, s.into_iter().collect())).collect()), Err(e) => err(e) },
        "predecessors" => match g.compute_predecessors() { Ok(m) => mapset(m.into_iter().map(|(k, s)| (k, s.into_iter().collect())).collect()), Err(e) => err(e) },
        "dominator_tree" => match g.compute_dominator_tree(root) { Ok(t) => gedges(&t), Err(e) => err(e) },
        "dfs_tree" => match g.compute_dfs_tree(root) { Ok(t) => gedges(&t), Err(e) => err(e) },
        "acyclic" => match g.compute_acyclic(root) { Ok(t) => gedges(&t), Err(e) => err(e) },
        "is_acyclic" => json!(g.is_acyclic(root)),
        "is_reducible" => match g.is_reducible(root) { Ok(b) => json!(b), Err(e) => err(e) },
        "pre_order" => match g.compute_pre_order(root) { Ok(v) => json!(v), Err(e) => err(e) },
        "post_order" => match g.compute_post_order(root) { Ok(v) => json!(v), Err(e) => err(e) },
        "topological" => match g.compute_topological_ordering() { Ok(v) => json!(v), Err(e) => err(e) },
        "reachable" => match g.reachable_vertices(root) { Ok(s) => { let mut v: Vec<usize> = s.into_iter().collect(); v.sort(); json!(v) } Err(e) => err(e) },
        "unreachable" => match g.unreachable_vertices(root) { Ok(s) => { let mut v: Vec<usize> = s.into_iter().collect(); v.sort(); json!(v) } Err(e) => err(e) },
        "loops" => match g.compute_loops(root) { Ok(ls) => { let mut v: Vec<(usize, Vec<usize>)> = ls.iter().map(|l| (l.header(), l.nodes().iter().cloned().collect())).collect(); v.sort(); json!(v) } Err(e) => err(e) },
        "views" => {
            use falcon::graph::{Edge, Vertex};
            let mut vs: Vec<usize> = g.vertices().iter().map(|x| x.index()).collect(); vs.sort();
            let mut es: Vec<(usize, usize)> = g.edges().iter().map(|e| (e.head(), e.tail())).collect(); es.sort();
            let succ: Vec<(usize, Vec<usize>)> = vs.iter().map(|&v| (v, g.successor_indices(v).unwrap_or_default())).collect();
            let pred: Vec<(usize, Vec<usize>)> = vs.iter().map(|&v| (v, g.predecessor_indices(v).unwrap_or_default())).collect();
            json!({"vertices": vs, "edges": es, "successors": succ, "predecessors": pred})
        }
        _ => return Err(format!("unknown alg {}", alg)),
    };
    Ok(json!({"ok": true, "result": out}))
}

pub fn dispatch(cmd: &str, req: &Value) -> R<Value> {
    match cmd {
        "scan" => scan(req),
        "graph" => graph(req),
        "elf" => elf(req),
        _ => Err(format!("unknown cmd {}", cmd)),
    }
}
