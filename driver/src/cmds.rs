use crate::{emit, hex, ilread, unhex};
use falcon::architecture::{self, Architecture, Endian};
use falcon::executor;
use falcon::il;
use falcon::memory::{self, MemoryPermissions};
use falcon::translator::{self, Translator};
use falcon::RC;
use num_bigint::BigUint;
use serde_json::{json, Value};
use std::str::FromStr;

pub type R<T> = Result<T, String>;

pub fn translator_for(arch: &str) -> R<Box<dyn Translator>> {
    Ok(match arch {
        "x86" => Box::new(translator::x86::X86::new()),
        "amd64" => Box::new(translator::x86::Amd64::new()),
        "mips" => Box::new(translator::mips::Mips::new()),
        "mipsel" => Box::new(translator::mips::Mipsel::new()),
        "ppc" => Box::new(translator::ppc::Ppc::new()),
        "aarch64" => Box::new(translator::aarch64::AArch64::new()),
        "aarch64eb" => Box::new(translator::aarch64::AArch64Eb::new()),
        _ => return Err(format!("unknown arch {}", arch)),
    })
}

pub fn arch_for(arch: &str) -> R<Box<dyn Architecture>> {
    Ok(match arch {
        "x86" => Box::new(architecture::X86::new()),
        "amd64" => Box::new(architecture::Amd64::new()),
        "mips" => Box::new(architecture::Mips::new()),
        "mipsel" => Box::new(architecture::Mipsel::new()),
        "ppc" => Box::new(architecture::Ppc::new()),
        "aarch64" => Box::new(architecture::AArch64::new()),
        "aarch64eb" => Box::new(architecture::AArch64Eb::new()),
        _ => return Err(format!("unknown arch {}", arch)),
    })
}

pub fn err_json(e: &falcon::Error) -> Value {
    let dbg = format!("{:?}", e);
    let kind = dbg
        .split(|c: char| !(c.is_alphanumeric() || c == '_'))
        .next()
        .unwrap_or("")
        .to_string();
    json!({"ok": false, "kind": kind, "error": e.to_string()})
}

fn options(req: &Value) -> R<translator::Options> {
    let mut o = translator::Options::new();
    o.set_unsupported_are_intrinsics(req["intrinsics"].as_bool().unwrap_or(false));
    if let Some(me) = req["manual_edges"].as_array() {
        for e in me {
            let cond = if e[2].is_null() {
                None
            } else {
                Some(ilread::expr(&e[2])?)
            };
            o.add_manual_edge(translator::ManualEdge::new(
                e[0].as_u64().ok_or("manual edge head")?,
                e[1].as_u64().ok_or("manual edge tail")?,
                cond,
            ));
        }
    }
    Ok(o)
}

fn btr_json(r: &translator::BlockTranslationResult) -> Value {
    json!({
        "ok": true,
        "address": r.address(),
        "length": r.length(),
        "instructions": r.instructions().iter().map(|(a, g)| json!([a, emit::cfg(g)])).collect::<Vec<_>>(),
        "successors": r.successors().iter().map(|(a, c)| json!([a, c.as_ref().map(emit::expr)])).collect::<Vec<_>>(),
    })
}

fn lift(req: &Value) -> R<Value> {
    let t = translator_for(req["arch"].as_str().ok_or("arch")?)?;
    let bytes = unhex(req["bytes"].as_str().ok_or("bytes")?)?;
    let address = req["address"].as_u64().unwrap_or(0);
    let o = options(req)?;
    Ok(match t.translate_block(&bytes, address, &o) {
        Ok(r) => {
            let mut v = btr_json(&r);
            if req["blockify"].as_bool().unwrap_or(false) {
                v["blockify"] = match r.blockify() {
                    Ok(g) => emit::cfg(&g),
                    Err(e) => err_json(&e),
                };
            }
            v
        }
        Err(e) => err_json(&e),
    })
}

fn endian_of(s: &str) -> Endian {
    if s == "big" {
        Endian::Big
    } else {
        Endian::Little
    }
}

pub fn backing_from(req: &Value, endian: Endian) -> R<memory::backing::Memory> {
    let mut m = memory::backing::Memory::new(endian);
    if let Some(segs) = req["segments"].as_array() {
        for s in segs {
            let addr = s[0].as_u64().ok_or("segment addr")?;
            let data = unhex(s[1].as_str().ok_or("segment bytes")?)?;
            let perm = s
                .get(2)
                .and_then(|p| p.as_u64())
                .map(|p| MemoryPermissions::from_bits_truncate(p as u32))
                .unwrap_or(MemoryPermissions::ALL);
            m.set_memory(addr, data, perm);
        }
    }
    Ok(m)
}

fn liftfn(req: &Value) -> R<Value> {
    let archname = req["arch"].as_str().ok_or("arch")?;
    let t = translator_for(archname)?;
    let a = arch_for(archname)?;
    let m = backing_from(req, a.endian())?;
    let entry = req["entry"].as_u64().ok_or("entry")?;
    let o = options(req)?;
    Ok(match t.translate_function_extended(&m, entry, &o) {
        Ok(f) => json!({"ok": true, "function": emit::function(&f)}),
        Err(e) => err_json(&e),
    })
}

fn constant_from(v: &Value) -> R<il::Constant> {
    // [value(decimal string or number), bits]
    let bits = v[1].as_u64().ok_or("const bits")? as usize;
    let val = match &v[0] {
        Value::String(s) => BigUint::from_str(s).map_err(|e| e.to_string())?,
        Value::Number(n) => BigUint::from(n.as_u64().ok_or("const val")?),
        _ => return Err("const value".into()),
    };
    Ok(il::Constant::new_big(val, bits))
}

fn loc_json(l: &il::ProgramLocation) -> Value {
    match l.function_location() {
        il::FunctionLocation::Instruction(b, i) => json!(["ins", b, i]),
        il::FunctionLocation::Edge(h, t) => json!(["edge", h, t]),
        il::FunctionLocation::EmptyBlock(b) => json!(["empty", b]),
    }
}

/// exec: run the real executor::Driver.
/// req: function (JSON IL) | (arch, segments, entry -> lifted), arch, endian?,
///      scalars {name: [val,bits]}, mem [[addr, byte]...] (initial stored bytes),
///      steps, watch [addr...] (bytes to report at the end)
fn exec(req: &Value) -> R<Value> {
    let archname = req["arch"].as_str().unwrap_or("amd64");
    let a = arch_for(archname)?;
    let endian = match req["endian"].as_str() {
        Some(s) => endian_of(s),
        None => a.endian(),
    };
    let function = if !req["function"].is_null() {
        ilread::function(&req["function"])?
    } else {
        let t = translator_for(archname)?;
        let m = backing_from(req, a.endian())?;
        let o = options(req)?;
        match t.translate_function_extended(&m, req["entry"].as_u64().ok_or("entry")?, &o) {
            Ok(f) => f,
            Err(e) => return Ok(err_json(&e)),
        }
    };
    let mut program = il::Program::new();
    program.add_function(function);
    if let Some(fs) = req["more_functions"].as_array() {
        for f in fs {
            program.add_function(ilread::function(f)?);
        }
    }
    let mut mem: executor::Memory = if req["segments"].is_array() && req["backed"].as_bool().unwrap_or(false) {
        memory::paged::Memory::new_with_backing(endian.clone(), RC::new(backing_from(req, a.endian())?))
    } else {
        memory::paged::Memory::new(endian.clone())
    };
    if let Some(ms) = req["mem"].as_array() {
        for p in ms {
            let addr = p[0].as_u64().ok_or("mem addr")?;
            let byte = p[1].as_u64().ok_or("mem byte")?;
            mem.store(addr, il::Constant::new(byte, 8))
                .map_err(|e| e.to_string())?;
        }
    }
    let mut state = executor::State::new(mem);
    if let Some(sc) = req["scalars"].as_object() {
        for (k, v) in sc {
            state.set_scalar(k.clone(), constant_from(v)?);
        }
    }
    let steps = req["steps"].as_u64().unwrap_or(100);
    let f0 = program.function(0).ok_or("function 0")?;
    let loc: il::ProgramLocation = match il::RefProgramLocation::from_function(f0) {
        Some(Ok(l)) => l.into(),
        Some(Err(e)) => return Ok(err_json(&e)),
        None => return Ok(json!({"ok": false, "kind": "NoEntry", "error": "no entry"})),
    };
    let mut driver = executor::Driver::new(RC::new(program), loc, state, a.into());
    let mut trace = Vec::new();
    let mut error = Value::Null;
    let mut done = 0u64;
    let mut branch_target = Value::Null;
    let mut final_state: Option<executor::State> = None;
    let follow_branches = req["follow_branches"].as_bool().unwrap_or(false);
    for _ in 0..steps {
        trace.push(loc_json(driver.location()));
        // terminal handling: Driver::step consumes the state and fails at a
        // location without successors, so the last operation is applied with
        // State::execute directly (the same function Driver::step calls).
        let mut terminal_op: Option<il::Operation> = None;
        let mut stop = false;
        {
            let rl = match driver.location().apply(driver.program()) {
                Ok(rl) => rl,
                Err(e) => {
                    error = err_json(&e);
                    break;
                }
            };
            let fwd = match rl.forward() {
                Ok(f) => f,
                Err(e) => {
                    error = err_json(&e);
                    break;
                }
            };
            match rl.instruction() {
                Some(i) => {
                    if (i.is_branch() && !follow_branches) || (fwd.is_empty() && !(i.is_branch() && follow_branches)) {
                        terminal_op = Some(i.operation().clone());
                    }
                }
                None => {
                    if fwd.is_empty() {
                        stop = true;
                    }
                }
            }
        }
        if let Some(op) = terminal_op {
            match driver.state().clone().execute(&op) {
                Ok(succ) => {
                    if let executor::SuccessorType::Branch(t) = succ.type_() {
                        branch_target = json!(t);
                    }
                    final_state = Some(succ.into());
                    done += 1;
                }
                Err(e) => {
                    error = err_json(&e);
                }
            }
            break;
        }
        if stop {
            break;
        }
        match driver.clone().step() {
            Ok(d) => {
                driver = d;
                done += 1;
            }
            Err(e) => {
                error = err_json(&e);
                break;
            }
        }
    }
    let fstate: executor::State = match final_state {
        Some(s) => s,
        None => driver.state().clone(),
    };
    let mut scalars = serde_json::Map::new();
    if let Some(names) = req["report"].as_array() {
        for n in names {
            let n = n.as_str().ok_or("report name")?;
            scalars.insert(
                n.to_string(),
                match fstate.get_scalar(n) {
                    Some(c) => json!([c.value().to_str_radix(10), c.bits()]),
                    None => Value::Null,
                },
            );
        }
    }
    let mut watch = Vec::new();
    if let Some(ws) = req["watch"].as_array() {
        for w in ws {
            let addr = w.as_u64().ok_or("watch")?;
            let v = fstate
                .memory()
                .load(addr, 8)
                .map_err(|e| e.to_string())?;
            watch.push(json!([addr, v.map(|c| c.value_u64())]));
        }
    }
    let (final_address, final_function) = match driver.location().apply(driver.program()) {
        Ok(rl) => (json!(rl.address()), json!(rl.function().index())),
        Err(_) => (Value::Null, Value::Null),
    };
    Ok(json!({
        "ok": true, "trace": trace, "steps_done": done, "error": error, "branch_target": branch_target,
        "final_location": loc_json(driver.location()), "final_address": final_address, "final_function": final_function,
        "scalars": scalars, "watch": watch,
    }))
}

/// roundtrip: read a function / cfg and emit it again (emitter/reader fixpoint check)
fn roundtrip(req: &Value) -> R<Value> {
    if !req["function"].is_null() {
        let f = ilread::function(&req["function"])?;
        return Ok(json!({"ok": true, "function": emit::function(&f)}));
    }
    let g = ilread::cfg(&req["cfg"])?;
    Ok(json!({"ok": true, "cfg": emit::cfg(&g)}))
}

pub fn dispatch(req: &Value) -> R<Value> {
    let cmd = req["cmd"].as_str().ok_or("cmd")?;
    match cmd {
        "ping" => Ok(json!({"ok": true, "pong": hex(b"ok")})),
        "lift" => lift(req),
        "liftfn" => liftfn(req),
        "exec" => exec(req),
        "roundtrip" => roundtrip(req),
        _ => crate::cmds2::dispatch(cmd, req),
    }
}
