//! JSON emitter for falcon IL over the public API.
//!
//! Expression  := ["scalar", name, bits, ssa|null] | ["const", "<decimal>", bits]
//!              | [binop, l, r] | ["zext"|"sext"|"trun", bits, e] | ["ite", c, t, e]
//! Operation   := ["assign", scalar, e] | ["store", idx, src] | ["load", scalar, idx]
//!              | ["branch", e] | ["intrinsic", {..}] | ["nop"]
use falcon::il::*;
use serde_json::{json, Value};

pub fn scalar(s: &Scalar) -> Value {
    json!(["scalar", s.name(), s.bits(), s.ssa()])
}

pub fn constant(c: &Constant) -> Value {
    json!(["const", c.value().to_str_radix(10), c.bits()])
}

pub fn expr(e: &Expression) -> Value {
    use Expression::*;
    let bin = |n: &str, l: &Expression, r: &Expression| json!([n, expr(l), expr(r)]);
    match e {
        Scalar(s) => scalar(s),
        Constant(c) => constant(c),
        Add(l, r) => bin("add", l, r),
        Sub(l, r) => bin("sub", l, r),
        Mul(l, r) => bin("mul", l, r),
        Divu(l, r) => bin("divu", l, r),
        Modu(l, r) => bin("modu", l, r),
        Divs(l, r) => bin("divs", l, r),
        Mods(l, r) => bin("mods", l, r),
        And(l, r) => bin("and", l, r),
        Or(l, r) => bin("or", l, r),
        Xor(l, r) => bin("xor", l, r),
        Shl(l, r) => bin("shl", l, r),
        Shr(l, r) => bin("shr", l, r),
        AShr(l, r) => bin("ashr", l, r),
        Cmpeq(l, r) => bin("cmpeq", l, r),
        Cmpneq(l, r) => bin("cmpneq", l, r),
        Cmplts(l, r) => bin("cmplts", l, r),
        Cmpltu(l, r) => bin("cmpltu", l, r),
        Zext(b, x) => json!(["zext", b, expr(x)]),
        Sext(b, x) => json!(["sext", b, expr(x)]),
        Trun(b, x) => json!(["trun", b, expr(x)]),
        Ite(c, t, f) => json!(["ite", expr(c), expr(t), expr(f)]),
    }
}

pub fn intrinsic(i: &Intrinsic) -> Value {
    json!({
        "mnemonic": i.mnemonic(),
        "str": i.instruction_str(),
        "arguments": i.arguments().iter().map(expr).collect::<Vec<_>>(),
        "written": i.written_expressions().map(|v| v.iter().map(expr).collect::<Vec<_>>()),
        "read": i.read_expressions().map(|v| v.iter().map(expr).collect::<Vec<_>>()),
        "bytes": i.bytes().iter().map(|b| format!("{:02x}", b)).collect::<String>(),
    })
}

pub fn operation(o: &Operation) -> Value {
    match o {
        Operation::Assign { dst, src } => json!(["assign", scalar(dst), expr(src)]),
        Operation::Store { index, src } => json!(["store", expr(index), expr(src)]),
        Operation::Load { dst, index } => json!(["load", scalar(dst), expr(index)]),
        Operation::Branch { target } => json!(["branch", expr(target)]),
        Operation::Intrinsic { intrinsic: i } => json!(["intrinsic", intrinsic(i)]),
        Operation::Nop { placeholder } => match placeholder {
            Some(p) => json!(["nop", operation(p)]),
            None => json!(["nop"]),
        },
    }
}

pub fn instruction(i: &Instruction) -> Value {
    json!({"index": i.index(), "address": i.address(), "op": operation(i.operation())})
}

pub fn phi(p: &PhiNode, preds: &[usize]) -> Value {
    let mut inc = Vec::new();
    for b in preds {
        if let Some(s) = p.incoming_scalar(*b) {
            inc.push(json!([b, scalar(s)]));
        }
    }
    // also probe a generous range of block indices for incoming entries that
    // are not predecessors (they would be a defect worth seeing)
    for b in 0..256usize {
        if !preds.contains(&b) {
            if let Some(s) = p.incoming_scalar(b) {
                inc.push(json!([b, scalar(s)]));
            }
        }
    }
    json!({"out": scalar(p.out()), "incoming": inc, "entry": p.entry_scalar().map(scalar)})
}

pub fn block(b: &Block, preds: &[usize]) -> Value {
    json!({
        "index": b.index(),
        "instructions": b.instructions().iter().map(instruction).collect::<Vec<_>>(),
        "phis": b.phi_nodes().iter().map(|p| phi(p, preds)).collect::<Vec<_>>(),
    })
}

pub fn edge(e: &Edge) -> Value {
    json!({"head": e.head(), "tail": e.tail(), "cond": e.condition().map(expr)})
}

pub fn cfg(g: &ControlFlowGraph) -> Value {
    let blocks: Vec<Value> = g
        .blocks()
        .iter()
        .map(|b| {
            let preds = g.predecessor_indices(b.index()).unwrap_or_default();
            block(b, &preds)
        })
        .collect();
    // adjacency views as reported by the graph itself (C15 ground obligations)
    let mut preds = serde_json::Map::new();
    let mut succs = serde_json::Map::new();
    for b in g.blocks() {
        preds.insert(
            b.index().to_string(),
            match g.predecessor_indices(b.index()) {
                Ok(v) => json!(v),
                Err(e) => json!({"err": e.to_string()}),
            },
        );
        succs.insert(
            b.index().to_string(),
            match g.successor_indices(b.index()) {
                Ok(v) => json!(v),
                Err(e) => json!({"err": e.to_string()}),
            },
        );
    }
    json!({
        "entry": g.entry(),
        "exit": g.exit(),
        "blocks": blocks,
        "edges": g.edges().iter().map(|e| edge(e)).collect::<Vec<_>>(),
        "preds": preds,
        "succs": succs,
    })
}

pub fn function(f: &Function) -> Value {
    json!({"address": f.address(), "cfg": cfg(f.control_flow_graph())})
}
