#!/bin/bash
# usage: tools_sweep.sh "<check ids>" "<seeds>" [tier]   - run checks over several seeds, print one line per run
tier=${3:-quick}
for c in $1; do for s in $2; do
  out=$(VERIF_SEED=$s python3-vt checks/$c.py $tier 2>&1); rc=$?
  echo "$c seed=$s rc=$rc $(echo "$out" | grep -c '^VIOLATION') violations, $(echo "$out" | grep -c 'ENCODER-DEFECT') encoder-defects :: $(echo "$out" | tail -1 | cut -c1-160)"
  if [ $rc -ne 0 ]; then echo "$out" | grep -A2 '^VIOLATION\|ENCODER-DEFECT' | cut -c1-400 | head -12; fi
done; done
