#!/bin/bash
# run every thorough command once, sequentially; log timing and exit codes (development aid, not a registered command)
cd /verif
mkdir -p /tmp/thorough
for id in "$@"; do
  lc=$(echo $id | tr 'A-Z' 'a-z')
  s=$(date +%s)
  timeout ${THOROUGH_TIMEOUT:-14400} python3-vt checks/$lc.py thorough > /tmp/thorough/$id.log 2>&1
  rc=$?
  e=$(date +%s)
  echo "$id rc=$rc secs=$((e-s)) $(grep '^\[C' /tmp/thorough/$id.log | tail -1)" >> /tmp/thorough/summary.txt
done
