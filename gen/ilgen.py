"""Generator of IL functions (JSON syntax of driver/src/emit.rs): CFG skeletons x instruction fillers.

Guards are exclusive and exhaustive by construction (c / cmpeq(c,0), or a 3-way split)."""
import random

S = lambda n, w: ["scalar", n, w, None]
C = lambda v, w: ["const", str(v & ((1 << w) - 1)), w]


def neg(c):
    return ["cmpeq", c, C(0, 1)]


# ---------------------------------------------------------------- skeletons --
# each: (nblocks, [(head, tail, condkind)], entry, exit) condkind: None | ("c", i) | ("n", i) | ("3", i, k)

SKELETONS = {
    "straight": (2, [(0, 1, None)], 0, 1),
    "single": (1, [], 0, 0),
    "diamond": (4, [(0, 1, ("c", 0)), (0, 2, ("n", 0)), (1, 3, None), (2, 3, None)], 0, 3),
    "nested": (7, [(0, 1, ("c", 0)), (0, 2, ("n", 0)), (1, 3, ("c", 1)), (1, 4, ("n", 1)), (3, 5, None), (4, 5, None),
                   (5, 6, None), (2, 6, None)], 0, 6),
    "while": (4, [(0, 1, None), (1, 2, ("c", 0)), (1, 3, ("n", 0)), (2, 1, None)], 0, 3),
    "dowhile": (3, [(0, 1, None), (1, 1, ("c", 0)), (1, 2, ("n", 0))], 0, 2),
    "entryloop": (3, [(0, 1, ("c", 0)), (0, 2, ("n", 0)), (1, 0, None)], 0, 2),
    "twoexits": (3, [(0, 1, ("c", 0)), (0, 2, ("n", 0))], 0, 2),
    "switch3": (5, [(0, 1, ("3", 0, 0)), (0, 2, ("3", 0, 1)), (0, 3, ("3", 0, 2)), (1, 4, None), (2, 4, None), (3, 4, None)], 0, 4),
    "irreducible": (4, [(0, 1, ("c", 0)), (0, 2, ("n", 0)), (1, 2, ("c", 1)), (1, 3, ("n", 1)), (2, 1, ("c", 2)), (2, 3, ("n", 2))], 0, 3),
    "nestedloop": (6, [(0, 1, None), (1, 2, ("c", 0)), (1, 5, ("n", 0)), (2, 3, None), (3, 3, ("c", 1)), (3, 4, ("n", 1)), (4, 1, None)], 0, 5),
    "emptyarms": (4, [(0, 1, ("c", 0)), (0, 2, ("n", 0)), (1, 3, None), (2, 3, None)], 0, 3),
    "unreachable_pred": (5, [(0, 1, ("c", 0)), (0, 2, ("n", 0)), (1, 3, None), (2, 3, None), (4, 3, None)], 0, 3),
    "unreachable_block": (3, [(0, 1, None)], 0, 1),
    "loopexit2": (5, [(0, 1, None), (1, 2, ("c", 0)), (1, 4, ("n", 0)), (2, 1, ("c", 1)), (2, 3, ("n", 1))], 0, 4),
}
SKELETONS["exitloop"] = (2, [(0, 1, None), (1, 1, ("c", 0))], 0, 1)
SKELETONS["longarm_a"] = (6, [(0, 1, ("c", 0)), (0, 4, ("n", 0)), (1, 2, None), (2, 3, None), (3, 5, None), (4, 5, None)], 0, 5)
SKELETONS["longarm_b"] = (6, [(0, 1, ("c", 0)), (0, 2, ("n", 0)), (1, 5, None), (2, 3, None), (3, 4, None), (4, 5, None)], 0, 5)
SKELETONS["loop_or_block"] = (6, [(0, 1, ("c", 0)), (0, 2, ("n", 0)), (1, 5, None), (2, 3, None), (3, 4, ("c", 1)), (3, 5, ("n", 1)), (4, 3, None)], 0, 5)
# dead blocks (unreachable from the entry) that jump into live code, with block indices BELOW those of live predecessors
SKELETONS["unreachable_pred_low"] = (4, [(0, 2, None), (2, 3, None), (1, 3, None)], 0, 3)
SKELETONS["unreachable_pred_mid"] = (6, [(0, 3, ("c", 0)), (0, 4, ("n", 0)), (3, 5, None), (4, 5, None), (1, 5, None), (2, 4, None)], 0, 5)
SKELETONS["unreachable_loop_low"] = (5, [(0, 3, None), (3, 4, ("c", 0)), (3, 3, ("n", 0)), (1, 3, None), (2, 1, None)], 0, 4)
EMPTY_BLOCKS = {"emptyarms": {1, 2}}


def random_skeleton(rnd, n):
    """Random CFG: every block i>0 is reachable (an edge from some j<i), out-degree <= 2 with
    complementary guards, extra forward/backward edges; blocks without out-edges are exits."""
    succ = {i: [] for i in range(n)}
    for i in range(1, n):
        cands = [j for j in range(i) if len(succ[j]) < 2]
        j = rnd.choice(cands) if cands else rnd.randrange(i)
        if len(succ[j]) >= 2:
            continue
        succ[j].append(i)
    for _ in range(rnd.randint(0, n)):
        a, b = rnd.randrange(n - 1), rnd.randrange(n)
        if len(succ[a]) < 2 and b not in succ[a] and b != 0:
            succ[a].append(b)
    edges = []
    nc = 0
    for a in range(n):
        if len(succ[a]) == 1:
            edges.append((a, succ[a][0], None))
        elif len(succ[a]) == 2:
            edges.append((a, succ[a][0], ("c", nc))); edges.append((a, succ[a][1], ("n", nc))); nc += 1
    return (n, edges, 0, n - 1)


class Gen:
    def __init__(self, rnd, profile="mixed", widths=(32,), sp=None):
        self.rnd = rnd
        self.profile = profile
        self.widths = widths
        self.sp = sp      # stack pointer scalar (name, bits) or None
        w = widths[0]
        self.vars = [("a", w), ("b", w), ("c", w), ("x", w)]
        if len(widths) > 1:
            self.vars += [("d", widths[1]), ("e", widths[1])]
        self.flags = [("f", 1), ("g", 1)]
        self.addr_w = 64 if sp is None else sp[1]

    # -- expressions
    def atom(self, w, const_ok=True):
        cands = [v for v in self.vars if v[1] == w]
        if const_ok and (not cands or self.rnd.random() < 0.3):
            return C(self.rnd.choice([0, 1, 2, 3, 7, 0x10, (1 << w) - 1, 1 << (w - 1)]), w)
        n, ww = self.rnd.choice(cands)
        return S(n, ww)

    def expr(self, w, depth=2):
        r = self.rnd
        if depth == 0 or r.random() < 0.25:
            return self.atom(w)
        k = r.random()
        if k < 0.6:
            op = r.choice(["add", "sub", "and", "or", "xor", "mul", "shl", "shr"])
            b = self.expr(w, depth - 1)
            if op in ("shl", "shr"):
                b = C(r.choice([0, 1, 3, w - 1]), w)
            return [op, self.expr(w, depth - 1), b]
        if k < 0.7:
            others = [x for x in self.widths if x > w]
            if others:
                return ["trun", w, self.expr(others[0], depth - 1)]
            return self.atom(w)
        if k < 0.8:
            others = [x for x in self.widths if x < w]
            if others:
                return [r.choice(["zext", "sext"]), w, self.expr(others[0], depth - 1)]
            return self.atom(w)
        if k < 0.9:
            return ["ite", self.cond(), self.expr(w, depth - 1), self.expr(w, depth - 1)]
        return self.atom(w)

    def cond(self):
        r = self.rnd
        k = r.random()
        if k < 0.3:
            n, _ = r.choice(self.flags)
            return S(n, 1)
        w = r.choice(self.widths)
        return [r.choice(["cmpeq", "cmpneq", "cmpltu", "cmplts"]), self.atom(w, False), self.atom(w)]

    # -- instructions
    def instr(self):
        r = self.rnd
        p = self.profile
        k = r.random()
        w = r.choice(self.widths)
        dst = r.choice([v for v in self.vars if v[1] == w])
        if p == "const":
            if k < 0.45:
                return ["assign", S(*dst), C(r.choice([0, 1, 5, 0x100, (1 << w) - 1]), w)]
            if k < 0.75:
                return ["assign", S(*dst), self.expr(w, 1)]
        if p == "sp" and self.sp and k < 0.5:
            n, sw = self.sp
            d = r.choice([4, 8, 16, 0x20, 0x100])
            if k < 0.2:
                return ["assign", S(n, sw), ["sub", S(n, sw), C(d, sw)]]
            if k < 0.4:
                return ["assign", S(n, sw), ["add", S(n, sw), C(d, sw)]]
            if k < 0.45:
                return ["store", S(n, sw), self.atom(w)]
            return ["load", S(*dst), S(n, sw)]
        if k < 0.55:
            return ["assign", S(*dst), self.expr(w)]
        if k < 0.65:
            fl = r.choice(self.flags)
            return ["assign", S(*fl), self.cond()]
        if k < 0.78:
            return ["store", self.address(), self.atom(w)]
        if k < 0.9:
            return ["load", S(*dst), self.address()]
        if k < 0.95:
            return ["nop"]
        return ["assign", S(*dst), ["add", S(*dst), C(1, w)]]

    def address(self):
        aw = self.addr_w
        cands = [v for v in self.vars if v[1] == aw]
        base = S(*self.rnd.choice(cands)) if cands and self.rnd.random() < 0.5 else C(0x1000, aw)
        if self.rnd.random() < 0.5:
            return ["add", base, C(self.rnd.choice([0, 4, 8, 0x10]), aw)]
        return base

    def intrinsic(self, declared, multi=False):
        w = self.widths[0]
        rd = [S("a", w)]
        wr = [S("b", w)] + ([S("x", w), S("d", w)] if multi else [])
        return ["intrinsic", {"mnemonic": "intr", "str": "intr decl" if declared else "intr undeclared", "arguments": [],
                              "written": wr if declared else None, "read": rd if declared else None, "bytes": "0f05"}]

    # -- functions
    def function(self, skel, n_per_block=(1, 4), extra=None, address=0x1000):
        nb, edges, entry, exit_ = SKELETONS[skel] if not skel.startswith("random") else random_skeleton(self.rnd, int(skel.split(":")[1]))
        r = self.rnd
        nconds = 1 + max([e[2][1] for e in edges if e[2]] + [-1])
        conds = []
        for i in range(nconds):
            conds.append(self.cond())
        sw = S("x", self.widths[0])
        blocks = []
        addr = address
        for b in range(nb):
            ins = []
            n = 0 if b in EMPTY_BLOCKS.get(skel, ()) else r.randint(*n_per_block)
            for _ in range(n):
                ins.append({"op": self.instr(), "address": addr})
                addr += 4
            blocks.append({"index": b, "instructions": ins})
        if extra:
            extra(self, blocks)
        for b in blocks:
            for i, ins in enumerate(b["instructions"]):
                ins["index"] = i
        es = []
        for h, t, ck in edges:
            if ck is None:
                c = None
            elif ck[0] == "c":
                c = conds[ck[1]]
            elif ck[0] == "n":
                c = neg(conds[ck[1]])
            else:
                c0 = ["cmpeq", sw, C(0, sw[2])]
                c1 = ["cmpeq", sw, C(1, sw[2])]
                c = [c0, c1, neg(["or", c0, c1])][ck[2]]
            es.append({"head": h, "tail": t, "cond": c})
        return {"address": address, "cfg": {"entry": entry, "exit": exit_, "blocks": blocks, "edges": es}}


def scalars_in_function(f):
    """All (name,bits) scalars occurring in the function."""
    out = {}

    def walk(e):
        if isinstance(e, list):
            if e and e[0] == "scalar":
                out[e[1]] = e[2]
            else:
                for x in e:
                    walk(x)
        elif isinstance(e, dict):
            for x in e.values():
                walk(x)
    walk(f)
    return out


def add_holes(f, rnd):
    """Insert filler nops and schedule their removal (Block::remove_instruction) so that the
    instruction indices of some blocks are not dense and positions differ from indices."""
    rm = []
    for b in f["cfg"]["blocks"]:
        if b["instructions"] and rnd.random() < 0.6:
            pos = rnd.randint(0, len(b["instructions"]) - 1)
            b["instructions"].insert(pos, {"op": ["nop"], "address": 0x3000})
            for i, ins in enumerate(b["instructions"]):
                ins["index"] = i
            rm.append([b["index"], pos])
    if rm:
        f["remove"] = rm
    return f


def corpus(seed, count, profile="mixed", widths=(32, 8), sp=None, skeletons=None, extra=None):
    rnd = random.Random(seed)
    names = skeletons or ([k for k in SKELETONS if not k.startswith("unreachable") and k != "exitloop"] + ["random:5", "random:6", "random:7", "random:8", "random:6", "random:7"])
    out = []
    for i in range(count):
        g = Gen(rnd, profile, widths, sp)
        sk = names[i % len(names)]
        f = g.function(sk, extra=extra)
        f["meta"] = {"skeleton": sk, "profile": profile, "id": i}
        out.append(f)
    return out
