"""Minimal ELF writer (gABI layouts) used to validate the C19 stubs against the real loader."""
import struct, random


def build(cls=64, big=False, machine=62, entry=0, phdrs=(), symbols=(), min_len=0, seed=1, dynsyms=None, pltrels=(), dyn_vaddr=None):
    """phdrs: dicts p_type,p_flags,p_offset,p_vaddr,p_paddr,p_filesz,p_memsz,p_align.
    symbols: dicts st_name(str),st_info,st_other,st_shndx,st_value,st_size (static .symtab).
    dynsyms: the same, written as the dynamic symbol table (entry 0 is NOT added implicitly: the list is the table);
    pltrels: dicts r_offset,r_sym,r_type (DT_JMPREL; RELA for ELF64, REL for ELF32).  When dynsyms is not None a
    PT_DYNAMIC and one extra PT_LOAD (covering only the dynamic tables, at dyn_vaddr) are appended to the program headers.
    Returns the file bytes (length >= min_len)."""
    e = ">" if big else "<"
    is64 = cls == 64
    ehsize = 64 if is64 else 52
    phentsize = 56 if is64 else 32
    shentsize = 64 if is64 else 40
    symentsize = 24 if is64 else 16
    phoff = ehsize
    phdrs = list(phdrs)
    if dyn_vaddr is None: dyn_vaddr = 0x7f0000000000 if is64 else 0x7f000000
    if dynsyms is not None:
        def sympack(no, s_):
            if is64:
                return struct.pack(e + "IBBHQQ", no, s_["st_info"], s_["st_other"], s_["st_shndx"], s_["st_value"], s_["st_size"])
            return struct.pack(e + "IIIBBH", no, s_["st_value"] & 0xffffffff, s_["st_size"] & 0xffffffff, s_["st_info"], s_["st_other"], s_["st_shndx"])
        dynstr = b"\0"; dno = []
        for s_ in dynsyms:
            dno.append(len(dynstr)); dynstr += s_["st_name"].encode() + b"\0"
        dsym = b"".join(sympack(no, s_) for no, s_ in zip(dno, dynsyms))
        hsh = struct.pack(e + "II", 1, len(dynsyms)) + struct.pack(e + "I", 0) * (1 + len(dynsyms))
        rel = b""
        for r in pltrels:
            if is64: rel += struct.pack(e + "QQq", r["r_offset"], (r["r_sym"] << 32) | (r["r_type"] & 0xffffffff), 0)
            else: rel += struct.pack(e + "II", r["r_offset"] & 0xffffffff, (r["r_sym"] << 8) | (r["r_type"] & 0xff))
        tab_off = phoff + phentsize * (len(phdrs) + 2)
        o_str = 0; o_sym = (len(dynstr) + 7) & ~7; o_hash = o_sym + len(dsym); o_rel = (o_hash + len(hsh) + 7) & ~7; o_dyn = (o_rel + len(rel) + 7) & ~7
        tags = [(5, dyn_vaddr + o_str), (10, len(dynstr)), (6, dyn_vaddr + o_sym), (11, symentsize), (4, dyn_vaddr + o_hash)]
        if pltrels:
            tags += [(23, dyn_vaddr + o_rel), (2, len(rel)), (20, 7 if is64 else 17)]
        tags.append((0, 0))
        dyn = b"".join(struct.pack(e + ("qQ" if is64 else "iI"), t, v) for t, v in tags)
        tables = bytearray(o_dyn + len(dyn))
        tables[o_str:o_str + len(dynstr)] = dynstr; tables[o_sym:o_sym + len(dsym)] = dsym
        tables[o_hash:o_hash + len(hsh)] = hsh; tables[o_rel:o_rel + len(rel)] = rel; tables[o_dyn:] = dyn
        phdrs.append(dict(p_type=1, p_flags=4, p_offset=tab_off, p_vaddr=dyn_vaddr, p_paddr=dyn_vaddr, p_filesz=len(tables), p_memsz=len(tables), p_align=8))
        phdrs.append(dict(p_type=2, p_flags=4, p_offset=tab_off + o_dyn, p_vaddr=dyn_vaddr + o_dyn, p_paddr=dyn_vaddr + o_dyn, p_filesz=len(dyn), p_memsz=len(dyn), p_align=8))
        dyn_tables = bytes(tables)
    else:
        dyn_tables = b""
    off = phoff + phentsize * len(phdrs) + len(dyn_tables)
    # string table
    strtab = b"\0"
    name_off = []
    for s in symbols:
        name_off.append(len(strtab)); strtab += s["st_name"].encode() + b"\0"
    shstr = b"\0.symtab\0.strtab\0.shstrtab\0"
    symtab = b""
    for s, no in zip(symbols, name_off):
        if is64:
            symtab += struct.pack(e + "IBBHQQ", no, s["st_info"], s["st_other"], s["st_shndx"], s["st_value"], s["st_size"])
        else:
            symtab += struct.pack(e + "IIIBBH", no, s["st_value"] & 0xffffffff, s["st_size"] & 0xffffffff, s["st_info"], s["st_other"], s["st_shndx"])
    symoff = off; off += len(symtab)
    stroff = off; off += len(strtab)
    shstroff = off; off += len(shstr)
    body_end = off
    rnd = random.Random(seed)
    pad_to = max(min_len, body_end)
    shoff = (pad_to + 7) & ~7
    ident = b"\x7fELF" + bytes([2 if is64 else 1, 2 if big else 1, 1, 0]) + b"\0" * 8
    if is64:
        hdr = ident + struct.pack(e + "HHIQQQIHHHHHH", 2, machine, 1, entry, phoff, shoff, 0, ehsize, phentsize, len(phdrs), shentsize, 4, 3)
    else:
        hdr = ident + struct.pack(e + "HHIIIIIHHHHHH", 2, machine, 1, entry & 0xffffffff, phoff, shoff, 0, ehsize, phentsize, len(phdrs), shentsize, 4, 3)
    ph = b""
    for p in phdrs:
        if is64:
            ph += struct.pack(e + "IIQQQQQQ", p["p_type"], p["p_flags"], p["p_offset"], p["p_vaddr"], p["p_paddr"], p["p_filesz"], p["p_memsz"], p["p_align"])
        else:
            ph += struct.pack(e + "IIIIIIII", p["p_type"], p["p_offset"] & 0xffffffff, p["p_vaddr"] & 0xffffffff, p["p_paddr"] & 0xffffffff, p["p_filesz"] & 0xffffffff, p["p_memsz"] & 0xffffffff, p["p_flags"], p["p_align"] & 0xffffffff)
    data = hdr + ph + dyn_tables + symtab + strtab + shstr
    data += bytes(rnd.randrange(1, 256) for _ in range(shoff - len(data)))

    def sh(name, typ, flags, addr, offset, size, link, info, align, entsize):
        if is64:
            return struct.pack(e + "IIQQQQIIQQ", name, typ, flags, addr, offset, size, link, info, align, entsize)
        return struct.pack(e + "IIIIIIIIII", name, typ, flags, addr, offset, size, link, info, align, entsize)
    sht = sh(0, 0, 0, 0, 0, 0, 0, 0, 0, 0)
    sht += sh(1, 2, 0, 0, symoff, len(symtab), 2, 1, 8, symentsize)          # .symtab -> link .strtab
    sht += sh(9, 3, 0, 0, stroff, len(strtab), 0, 0, 1, 0)                      # .strtab
    sht += sh(17, 3, 0, 0, shstroff, len(shstr), 0, 0, 1, 0)                    # .shstrtab
    return data + sht
