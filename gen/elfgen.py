"""Minimal ELF writer (gABI layouts) used to validate the C19 stubs against the real loader."""
import struct, random


def build(cls=64, big=False, machine=62, entry=0, phdrs=(), symbols=(), min_len=0, seed=1):
    """phdrs: dicts p_type,p_flags,p_offset,p_vaddr,p_paddr,p_filesz,p_memsz,p_align.
    symbols: dicts st_name(str),st_info,st_other,st_shndx,st_value,st_size (static .symtab).
    Returns the file bytes (length >= min_len)."""
    e = ">" if big else "<"
    is64 = cls == 64
    ehsize = 64 if is64 else 52
    phentsize = 56 if is64 else 32
    shentsize = 64 if is64 else 40
    symentsize = 24 if is64 else 16
    phoff = ehsize
    off = phoff + phentsize * len(phdrs)
    # string table
    strtab = b"\0"
    name_off = []
    for s in symbols:
        name_off.append(len(strtab)); strtab += s["st_name"].encode() + b"\0"
    shstr = b"\0.symtab\0.strtab\0.shstrtab\0"
    symtab = b""
    for s, no in zip(symbols, name_off):
        if is64:
            symtab += struct.pack(e + "IBBHQQ", no, s["st_info"], s["st_other"], s["st_shndx"], s["st_value"], s["st_size"])
        else:
            symtab += struct.pack(e + "IIIBBH", no, s["st_value"] & 0xffffffff, s["st_size"] & 0xffffffff, s["st_info"], s["st_other"], s["st_shndx"])
    symoff = off; off += len(symtab)
    stroff = off; off += len(strtab)
    shstroff = off; off += len(shstr)
    body_end = off
    rnd = random.Random(seed)
    pad_to = max(min_len, body_end)
    shoff = (pad_to + 7) & ~7
    ident = b"\x7fELF" + bytes([2 if is64 else 1, 2 if big else 1, 1, 0]) + b"\0" * 8
    if is64:
        hdr = ident + struct.pack(e + "HHIQQQIHHHHHH", 2, machine, 1, entry, phoff, shoff, 0, ehsize, phentsize, len(phdrs), shentsize, 4, 3)
    else:
        hdr = ident + struct.pack(e + "HHIIIIIHHHHHH", 2, machine, 1, entry & 0xffffffff, phoff, shoff, 0, ehsize, phentsize, len(phdrs), shentsize, 4, 3)
    ph = b""
    for p in phdrs:
        if is64:
            ph += struct.pack(e + "IIQQQQQQ", p["p_type"], p["p_flags"], p["p_offset"], p["p_vaddr"], p["p_paddr"], p["p_filesz"], p["p_memsz"], p["p_align"])
        else:
            ph += struct.pack(e + "IIIIIIII", p["p_type"], p["p_offset"] & 0xffffffff, p["p_vaddr"] & 0xffffffff, p["p_paddr"] & 0xffffffff, p["p_filesz"] & 0xffffffff, p["p_memsz"] & 0xffffffff, p["p_flags"], p["p_align"] & 0xffffffff)
    data = hdr + ph + symtab + strtab + shstr
    data += bytes(rnd.randrange(1, 256) for _ in range(shoff - len(data)))

    def sh(name, typ, flags, addr, offset, size, link, info, align, entsize):
        if is64:
            return struct.pack(e + "IIQQQQIIQQ", name, typ, flags, addr, offset, size, link, info, align, entsize)
        return struct.pack(e + "IIIIIIIIII", name, typ, flags, addr, offset, size, link, info, align, entsize)
    sht = sh(0, 0, 0, 0, 0, 0, 0, 0, 0, 0)
    sht += sh(1, 2, 0, 0, symoff, len(symtab), 2, 1, 8, symentsize)          # .symtab -> link .strtab
    sht += sh(9, 3, 0, 0, stroff, len(strtab), 0, 0, 1, 0)                      # .strtab
    sht += sh(17, 3, 0, 0, shstroff, len(shstr), 0, 0, 1, 0)                    # .shstrtab
    return data + sht
