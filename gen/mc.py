"""Machine-code program generator for C06/C17: a tiny two-pass assembler over specs/encgen_x86
descriptions (amd64 / x86) and hand-encoded MIPS words, producing layouts aimed at the function
recovery mechanisms (64-byte windows, branches into the middle of blocks, shared targets, loops)."""
import random
from specs import encgen_x86 as E
from specs.encgen_x86 import reg, mem, imm


def assemble_x86(mode, items, base):
    """items: list of desc dicts | ("label", name) | ("jcc", cc, label) | ("jmp", label) | ("bytes", b).
    All direct jumps use rel32 forms so sizes are fixed. Returns (bytes, labels, instruction_addresses)."""
    sizes = []
    for it in items:
        if isinstance(it, tuple):
            if it[0] == "label": sizes.append(0)
            elif it[0] == "jcc": sizes.append(6)
            elif it[0] == "jmp": sizes.append(5)
            elif it[0] == "jcc8": sizes.append(2)
            elif it[0] == "jmp8": sizes.append(2)
            elif it[0] == "bytes": sizes.append(len(it[1]))
        else:
            sizes.append(len(E.encode(mode, it)))
    addr = base
    labels = {}
    addrs = []
    for it, s in zip(items, sizes):
        if isinstance(it, tuple) and it[0] == "label":
            labels[it[1]] = addr
        addrs.append(addr)
        addr += s
    out = b""
    ins_addrs = []
    for it, s, a in zip(items, sizes, addrs):
        if isinstance(it, tuple):
            if it[0] == "label":
                continue
            if it[0] == "bytes":
                out += it[1]; ins_addrs.append(a); continue
            if it[0] in ("jcc", "jcc8"):
                rel = labels[it[2]] - (a + s)
                d = dict(mn="jcc", cc=it[1], rel=rel, near=(it[0] == "jcc"))
            else:
                rel = labels[it[1]] - (a + s)
                d = dict(mn="jmp", rel=rel, near=(it[0] == "jmp"))
            if not d["near"] and not (-128 <= rel <= 127):
                raise ValueError("rel8 out of range")
            b = E.encode(mode, d)
        else:
            b = E.encode(mode, it)
        assert len(b) == s
        out += b
        ins_addrs.append(a)
    return out, labels, ins_addrs


def x86_programs(mode, rnd, count):
    """Yield (name, items, manual_edge_labels)."""
    R = (lambda n: n) if mode == 64 else (lambda n: {"rax": "eax", "rbx": "ebx", "rcx": "ecx", "rdx": "edx", "rsi": "esi", "rdi": "edi"}[n])
    W = mode
    a, b, c, d = (reg(R(x)) for x in ("rax", "rbx", "rcx", "rdx"))

    def alu():
        k = rnd.random()
        x, y = rnd.choice([a, b, c, d]), rnd.choice([a, b, c, d])
        if k < 0.3: return dict(mn=rnd.choice(["add", "sub", "xor", "and", "or"]), ops=[x, y])
        if k < 0.5: return dict(mn="mov", ops=[x, imm(rnd.choice([0, 1, 5, 0x100]), 32)], form="c7")
        if k < 0.65: return dict(mn=rnd.choice(["inc", "dec", "neg", "not"]), ops=[x])
        if k < 0.8: return dict(mn="lea", ops=[x, mem(8, base=y[1], disp=rnd.choice([1, 8, -4]))])
        if k < 0.9: return dict(mn="mov", ops=[x, y])
        return dict(mn="nop")

    def pad_to(items, target, base=0x1000):
        """Append nops until the next instruction starts at offset `target` from base."""
        cur = len(assemble_x86(mode, items, base)[0])
        while cur < target:
            items.append(dict(mn="nop")); cur += 1
    progs = []
    cmpi = lambda r_, v: dict(mn="cmp", ops=[r_, imm(v, 8)])
    ret = dict(mn="ret")
    # 1. straight line longer than one 64-byte window
    it = [alu() for _ in range(30)] + [ret]
    progs.append(("straight>64", it, []))
    # 2. an instruction straddling the 64-byte window end (10-byte movabs at offsets 56..63)
    for off in (55, 58, 61, 63):
        it = []
        pad_to(it, off)
        it += [dict(mn="mov", ops=[reg("rax"), imm(0x1122334455667788, 64)])] if mode == 64 else [dict(mn="add", ops=[reg("eax"), imm(0x12345678, 32)])]
        it += [alu(), alu(), ret]
        progs.append((f"straddle@{off}", it, []))
    # 3. dec/jnz loop
    it = [dict(mn="mov", ops=[c, imm(3, 32)], form="c7"), ("label", "L"), alu(), dict(mn="dec", ops=[c]), ("jcc", "ne", "L"), alu(), ret]
    progs.append(("loop", it, []))
    # 4. backward branch into the middle of an already lifted block
    it = [alu(), alu(), ("label", "M"), alu(), alu(), cmpi(a, 7), ("jcc", "e", "OUT"), alu(), ("jmp", "M"), ("label", "OUT"), ret]
    progs.append(("into-middle", it, []))
    # 5. two branches to the same target, diamond
    it = [cmpi(a, 1), ("jcc", "e", "T"), cmpi(b, 2), ("jcc", "b", "T"), alu(), ("jmp", "E"), ("label", "T"), alu(), ("label", "E"), alu(), ret]
    progs.append(("shared-target", it, []))
    # 6. loop through the entry
    it = [("label", "TOP"), alu(), dict(mn="dec", ops=[c]), ("jcc", "e", "DONE"), alu(), ("jmp", "TOP"), ("label", "DONE"), ret]
    progs.append(("entry-loop", it, []))
    # 7. long block with a loop whose head is 64+ bytes away from the entry
    it = [alu() for _ in range(24)] + [("label", "L")] + [alu() for _ in range(3)] + [dict(mn="dec", ops=[d]), ("jcc", "ne", "L"), ret]
    progs.append(("far-loop", it, []))
    # 8. branch target exactly at a window boundary and into the middle of a >64 byte block
    it = [cmpi(a, 0), ("jcc", "ne", "MID")] + [alu() for _ in range(20)] + [("label", "MID")] + [alu() for _ in range(12)] + [ret]
    progs.append(("jump-into-long-block", it, []))
    # 9. manual edges (a block that is only reachable through a manual edge, and a duplicate of a real edge)
    it = [alu(), cmpi(a, 3), ("jcc", "e", "A"), alu(), ret, ("label", "A"), alu(), ret, ("label", "ISLAND"), alu(), alu(), ret]
    progs.append(("manual-edge", it, [("A", "ISLAND", None), (None, "A", None)]))
    # random structured programs
    for i in range(count):
        n = rnd.randint(2, 4)
        it = []
        labels = [f"L{j}" for j in range(n)]
        for j in range(n):
            it.append(("label", labels[j]))
            for _ in range(rnd.randint(1, 9)):
                it.append(alu())
            k = rnd.random()
            if k < 0.5:
                it += [cmpi(rnd.choice([a, b, c]), rnd.choice([0, 1, 5])), ("jcc", rnd.choice(["e", "ne", "b", "ge", "s"]), rnd.choice(labels + ["END"]))]
            elif k < 0.65:
                it += [dict(mn="dec", ops=[c]), ("jcc", "ne", rnd.choice(labels[: j + 1]))]
            elif k < 0.75 and j + 1 < n:
                it += [("jmp", rnd.choice(labels[j + 1:] + ["END"]))]
        it += [("label", "END"), alu(), ret]
        progs.append((f"random{i}", it, []))
    return progs


# ------------------------------------------------------------------ MIPS --

def mips_word(w, little):
    b = w.to_bytes(4, "big")
    return b[::-1] if little else b


def mips_programs(rnd):
    """Hand-assembled MIPS32 programs as lists of words (delay slots included)."""
    def addiu(rt, rs, im): return (0x09 << 26) | (rs << 21) | (rt << 16) | (im & 0xffff)
    def addu(rd, rs, rt): return (rs << 21) | (rt << 16) | (rd << 11) | 0x21
    def beq(rs, rt, off): return (0x04 << 26) | (rs << 21) | (rt << 16) | (off & 0xffff)
    def bne(rs, rt, off): return (0x05 << 26) | (rs << 21) | (rt << 16) | (off & 0xffff)
    def j(addr): return (0x02 << 26) | ((addr >> 2) & 0x3ffffff)
    jr_ra = 0x03e00008
    nop = 0
    progs = []
    body = [addiu(2, 2, 1), addu(3, 3, 2), addiu(4, 4, -1)]
    # loop: counter in $4
    progs.append(("loop", [addiu(4, 0, 3), addiu(2, 2, 1), addiu(4, 4, -1), bne(4, 0, -3), addu(3, 3, 2), jr_ra, nop]))
    # diamond with a delay slot that writes a compared register
    progs.append(("diamond", [beq(4, 5, 3), addiu(4, 4, 1), addiu(2, 0, 7), addiu(3, 0, 9), addu(2, 2, 3), jr_ra, nop]))
    # straight line > 64 bytes
    progs.append(("straight>64", [rnd.choice(body) for _ in range(20)] + [jr_ra, nop]))
    # a branch in the last word of a 64-byte window (offset 60): its delay slot is in the next window
    for off in (56, 60):
        ws = [rnd.choice(body) for _ in range(off // 4)] + [beq(4, 0, 2), addiu(2, 2, 5), addiu(3, 3, 1), addiu(3, 3, 2), jr_ra, nop]
        progs.append((f"branch@{off}", ws))
    # every conditional branch kind in the last word of the window (the window check lists them one by one)
    kinds = {"bne": bne(4, 0, 2), "blez": (0x06 << 26) | (4 << 21) | 2, "bgtz": (0x07 << 26) | (4 << 21) | 2, "bltz": (0x01 << 26) | (4 << 21) | 2,
             "bgez": (0x01 << 26) | (4 << 21) | (1 << 16) | 2, "bal": (0x01 << 26) | (0x11 << 16) | 2, "jal": (0x03 << 26) | ((0x1000 + 18 * 4) >> 2)}
    for name, w in kinds.items():
        ws = [rnd.choice(body) for _ in range(15)] + [w, addiu(2, 2, 5), addiu(3, 3, 1), addiu(3, 3, 2), jr_ra, nop]
        progs.append((f"{name}@60", ws))
    # jump into the middle of an already-lifted block
    progs.append(("into-middle", [addiu(2, 0, 1), addiu(3, 0, 2), addu(2, 2, 3), addiu(4, 4, -1), bne(4, 0, -3), nop, jr_ra, nop]))
    # absolute jump forward over an island
    progs.append(("jump", [addiu(2, 0, 1), j(0x1000 + 5 * 4), addiu(3, 0, 2), addiu(2, 0, 99), addiu(2, 0, 98), addu(2, 2, 3), jr_ra, nop]))
    return progs
