"""MIPS32 word generator: builds instruction words from fields (the reference decodes the word itself)."""
import random


def R(fn, rs=0, rt=0, rd=0, sa=0): return (rs << 21) | (rt << 16) | (rd << 11) | (sa << 6) | fn
def I(op, rs=0, rt=0, imm=0): return (op << 26) | (rs << 21) | (rt << 16) | (imm & 0xffff)
def S2(fn, rs=0, rt=0, rd=0): return (0x1c << 26) | (rs << 21) | (rt << 16) | (rd << 11) | fn
def J(op, tgt): return (op << 26) | (tgt & 0x3ffffff)


REGSETS = [(2, 4, 5), (8, 8, 9), (4, 4, 4), (0, 4, 5), (2, 0, 5), (2, 4, 0), (31, 29, 28), (29, 29, 2), (1, 31, 31)]     # (rd, rs, rt)
IMMS = [0, 1, 0xf, 0x7fff, 0x8000, 0xffff, 0xfffc, 4]
SAS = [0, 1, 15, 31]

RTYPE = {"add": 0x20, "addu": 0x21, "sub": 0x22, "subu": 0x23, "and": 0x24, "or": 0x25, "xor": 0x26, "nor": 0x27, "slt": 0x2a, "sltu": 0x2b,
         "sllv": 0x04, "srlv": 0x06, "srav": 0x07, "movz": 0x0a, "movn": 0x0b}
SHIFT = {"sll": 0x00, "srl": 0x02, "sra": 0x03}
ITYPE = {"addi": 0x08, "addiu": 0x09, "slti": 0x0a, "sltiu": 0x0b, "andi": 0x0c, "ori": 0x0d, "xori": 0x0e}
LOADS = {"lb": 0x20, "lbu": 0x24, "lh": 0x21, "lhu": 0x25, "lw": 0x23, "ll": 0x30, "lwl": 0x22, "lwr": 0x26}
STORES = {"sb": 0x28, "sh": 0x29, "sw": 0x2b, "sc": 0x38, "swl": 0x2a, "swr": 0x2e}


def plain_words(rnd, thorough=False):
    """[(label, word)] for non-branch instructions."""
    out = []
    regs = REGSETS if thorough else REGSETS[:6]
    for name, fn in RTYPE.items():
        for rd, rs, rt in regs:
            out.append((f"{name} ${rd},${rs},${rt}", R(fn, rs, rt, rd)))
    for name, fn in SHIFT.items():
        for rd, _, rt in regs[:4]:
            for sa in SAS:
                out.append((f"{name} ${rd},${rt},{sa}", R(fn, 0, rt, rd, sa)))
    for name, op in ITYPE.items():
        for rd, rs, _ in regs[:5]:
            for imm in (IMMS if thorough else IMMS[:6]):
                out.append((f"{name} ${rd},${rs},{imm:#x}", I(op, rs, rd, imm)))
    for imm in IMMS:
        out.append((f"lui $2,{imm:#x}", I(0x0f, 0, 2, imm)))
    out.append(("lui $0,1", I(0x0f, 0, 0, 1)))
    for name, op in list(LOADS.items()) + list(STORES.items()):
        unaligned = name in ("lwl", "lwr", "swl", "swr")
        pairs = [(2, 4), (4, 4), (0, 5), (8, 29), (31, 29)]
        imms = [0, 4, 0x7ffc, 0x8000, 0xffff, 1, 2, 3]
        if unaligned and not thorough:
            pairs, imms = [(2, 4), (4, 4)], [0, 0xffff]
        for rt, base in pairs:
            for imm in imms:
                out.append((f"{name} ${rt},{imm:#x}(${base})", I(op, base, rt, imm)))
    for name, fn in {"mult": 0x18, "multu": 0x19, "div": 0x1a, "divu": 0x1b}.items():
        for _, rs, rt in regs[:5]:
            out.append((f"{name} ${rs},${rt}", R(fn, rs, rt)))
    for name, fn in {"mul": 0x02, "madd": 0x00, "maddu": 0x01, "msub": 0x04, "msubu": 0x05}.items():
        for rd, rs, rt in regs[:5]:
            out.append((f"{name} ${rd if name == 'mul' else 0},${rs},${rt}", S2(fn, rs, rt, rd if name == "mul" else 0)))
    for name, fn in {"clz": 0x20, "clo": 0x21}.items():
        for rd, rs, _ in regs[:4]:
            out.append((f"{name} ${rd},${rs}", S2(fn, rs, rd, rd)))
    for rd in (2, 0, 31):
        out.append((f"mfhi ${rd}", R(0x10, 0, 0, rd))); out.append((f"mflo ${rd}", R(0x12, 0, 0, rd)))
    for rs in (4, 0):
        out.append((f"mthi ${rs}", R(0x11, rs))); out.append((f"mtlo ${rs}", R(0x13, rs)))
    out += [("nop", 0), ("sync", R(0x0f)), ("syscall", R(0x0c)), ("break", R(0x0d)), ("teq $4,$5", R(0x34, 4, 5)), ("teq $4,$4", R(0x34, 4, 4)),
            ("pref 0,0($4)", I(0x33, 4, 0, 0)), ("rdhwr $3,$29", (0x1f << 26) | (3 << 16) | (29 << 11) | 0x3b)]
    return out


def branch_words(address):
    """[(label, word)] for branches / jumps placed at `address`."""
    out = []
    for off in (3, -2 & 0xffff, 0x7fff, 0x8000):
        out.append((f"beq $4,$5,{off:#x}", I(4, 4, 5, off))); out.append((f"bne $4,$5,{off:#x}", I(5, 4, 5, off)))
        out.append((f"beq $4,$4,{off:#x}", I(4, 4, 4, off)))
        out.append((f"b {off:#x}", I(4, 0, 0, off))); out.append((f"beqz $4,{off:#x}", I(4, 4, 0, off))); out.append((f"bnez $4,{off:#x}", I(5, 4, 0, off)))
        out.append((f"blez $4,{off:#x}", I(6, 4, 0, off))); out.append((f"bgtz $4,{off:#x}", I(7, 4, 0, off)))
        out.append((f"bltz $4,{off:#x}", I(1, 4, 0, off))); out.append((f"bgez $4,{off:#x}", I(1, 4, 1, off)))
        out.append((f"bltzal $4,{off:#x}", I(1, 4, 0x10, off))); out.append((f"bgezal $4,{off:#x}", I(1, 4, 0x11, off)))
        out.append((f"bal {off:#x}", I(1, 0, 0x11, off)))
        out.append((f"bgezal $31,{off:#x}", I(1, 31, 0x11, off)))
    for tgt in (0x100, 0x3ffffff, 0):
        out.append((f"j {tgt:#x}", J(2, tgt))); out.append((f"jal {tgt:#x}", J(3, tgt)))
    out += [("jr $31", R(8, 31)), ("jr $4", R(8, 4)), ("jalr $4", R(9, 4, 0, 31)), ("jalr $5,$4", R(9, 4, 0, 5)), ("jalr $31", R(9, 31, 0, 31)), ("jalr $4,$4", R(9, 4, 0, 4))]
    return out


def slot_words():
    """Delay-slot instructions chosen to interfere with the branch."""
    return [("nop", 0), ("addiu $4,$4,1", I(9, 4, 4, 1)), ("addiu $5,$0,7", I(9, 0, 5, 7)), ("addu $2,$31,$0", R(0x21, 31, 0, 2)), ("addiu $31,$0,0x1234", I(9, 0, 31, 0x1234)),
            ("lw $4,0($29)", I(0x23, 29, 4, 0)), ("sw $31,4($29)", I(0x2b, 29, 31, 4)), ("or $4,$5,$6", R(0x25, 5, 6, 4))]


def random_plain(rnd, n):
    """n words per class with random register numbers / immediates (seeded)."""
    out = []
    r = lambda: rnd.choice([rnd.randrange(32), 0, 31, 29])
    for _ in range(n):
        name, fn = rnd.choice(list(RTYPE.items()))
        rd, rs, rt = r(), r(), r()
        out.append((f"{name} ${rd},${rs},${rt}", R(fn, rs, rt, rd)))
        name, fn = rnd.choice(list(SHIFT.items()))
        out.append((f"{name} ${rd},${rt},{rs}", R(fn, 0, rt, rd, rs)))
        name, op = rnd.choice(list(ITYPE.items()))
        imm = rnd.choice([rnd.randrange(65536), 0x8000, 0x7fff, 0xffff])
        out.append((f"{name} ${rt},${rs},{imm:#x}", I(op, rs, rt, imm)))
        name, op = rnd.choice([(k, v) for k, v in list(LOADS.items()) + list(STORES.items()) if k not in ("lwl", "lwr", "swl", "swr")])
        out.append((f"{name} ${rt},{imm:#x}(${rs})", I(op, rs, rt, imm)))
        out.append((f"lui ${rt},{imm:#x}", I(0x0f, 0, rt, imm)))
    return out


def random_branches(rnd, n):
    out = []
    r = lambda: rnd.choice([rnd.randrange(32), 0, 31])
    for _ in range(n):
        rs, rt = r(), r()
        off = rnd.choice([rnd.randrange(65536), 0xffff, 0x8000, 1])
        op = rnd.choice([4, 5, 6, 7])
        nm = {4: "beq", 5: "bne", 6: "blez", 7: "bgtz"}[op]
        out.append((f"{nm} ${rs},${rt if op < 6 else 0},{off:#x}", I(op, rs, rt if op < 6 else 0, off)))
        k = rnd.choice([0, 1])
        out.append((f"{'bgez' if k else 'bltz'} ${rs},{off:#x}", I(1, rs, k, off)))
    return out


def random_slots(rnd, n):
    out = []
    for _ in range(n):
        rt, rs = rnd.randrange(32), rnd.randrange(32)
        out.append((f"addiu ${rt},${rs},{n}", I(9, rs, rt, rnd.randrange(65536))))
    return out
