"""Reference MIPS32 interpreter written from the MIPS32 Architecture manual (vol. II), over z3
terms.  It decodes the RAW 32-bit word(s) itself (it never sees capstone's output).  A unit is
one instruction, or a branch/jump together with its delay-slot instruction."""
import z3

REG = ["$zero", "$at", "$v0", "$v1", "$a0", "$a1", "$a2", "$a3", "$t0", "$t1", "$t2", "$t3", "$t4", "$t5", "$t6", "$t7",
       "$s0", "$s1", "$s2", "$s3", "$s4", "$s5", "$s6", "$s7", "$t8", "$t9", "$k0", "$k1", "$gp", "$sp", "$fp", "$ra"]


def bv(v, w=32): return z3.BitVecVal(v, w)


class Unsupported(Exception):
    pass


class MState:
    def __init__(self, getvar, mem, endian):
        self.getvar = getvar; self.regs = {}; self.mem = mem; self.endian = endian
        self.accessed = []
        self.nowrap = []      # accessed ranges are assumed not to wrap around 2^32 (the IL memory is 64-bit)

    def r(self, n):
        if n == 0: return bv(0)
        nm = REG[n]
        if nm not in self.regs:
            self.regs[nm] = self.getvar(nm, 32)
        return self.regs[nm]

    def w(self, n, v):
        if n == 0: return          # writes to $zero are discarded
        self.regs[REG[n]] = v

    def hi(self):
        if "$hi" not in self.regs: self.regs["$hi"] = self.getvar("$hi", 32)
        return self.regs["$hi"]

    def lo(self):
        if "$lo" not in self.regs: self.regs["$lo"] = self.getvar("$lo", 32)
        return self.regs["$lo"]

    def a64(self, a):
        self.nowrap.append(z3.ULE(a, bv(0xfffffff0)))
        return z3.ZeroExt(32, a)

    def load(self, a, n):
        a6 = self.a64(a); self.accessed.append((a6, n, True))
        bs = [z3.Select(self.mem, a6 + i) for i in range(n)]
        if self.endian == "little": bs = list(reversed(bs))
        return bs[0] if n == 1 else z3.Concat(*bs)

    def store(self, a, v):
        n = v.size() // 8
        a6 = self.a64(a); self.accessed.append((a6, n, True))
        for i in range(n):
            lane = i if self.endian == "little" else n - 1 - i
            self.mem = z3.Store(self.mem, a6 + i, z3.Extract(8 * lane + 7, 8 * lane, v))

    def byte(self, a):
        a6 = self.a64(a); self.accessed.append((a6, 1, True))
        return z3.Select(self.mem, a6)

    def setbyte(self, a, v):
        a6 = self.a64(a); self.accessed.append((a6, 1, True))
        self.mem = z3.Store(self.mem, a6, v)


def fields(w):
    return dict(op=w >> 26, rs=(w >> 21) & 31, rt=(w >> 16) & 31, rd=(w >> 11) & 31, sa=(w >> 6) & 31, fn=w & 63, imm=w & 0xffff, tgt=w & 0x3ffffff)


def sx16(i): return bv(i - 0x10000 if i & 0x8000 else i)


def has_delay_slot(w):
    f = fields(w)
    return f["op"] in (2, 3, 4, 5, 6, 7) or f["op"] == 1 or (f["op"] == 0 and f["fn"] in (8, 9))


class Out:
    def __init__(self):
        self.assume = []; self.undef = {}; self.trap = z3.BoolVal(False); self.next_pc = None; self.intrinsic = False; self.classes = None


def exec_plain(st, w, out, pc):
    """Non-branch instruction semantics. Returns False if not supported."""
    f = fields(w); op, rs, rt, rd, sa, fn, imm = f["op"], f["rs"], f["rt"], f["rd"], f["sa"], f["fn"], f["imm"]
    R = st.r
    if w == 0:
        return True
    if op == 0:
        a, b = R(rs), R(rt)
        if fn == 0x20 or fn == 0x22:          # ADD / SUB with overflow trap
            wide = (z3.SignExt(1, a) + z3.SignExt(1, b)) if fn == 0x20 else (z3.SignExt(1, a) - z3.SignExt(1, b))
            ovf = z3.Extract(32, 32, wide) != z3.Extract(31, 31, wide)
            out.trap = z3.Or(out.trap, ovf)
            st.w(rd, z3.Extract(31, 0, wide))
        elif fn == 0x21: st.w(rd, a + b)
        elif fn == 0x23: st.w(rd, a - b)
        elif fn == 0x24: st.w(rd, a & b)
        elif fn == 0x25: st.w(rd, a | b)
        elif fn == 0x26: st.w(rd, a ^ b)
        elif fn == 0x27: st.w(rd, ~(a | b))
        elif fn == 0x2a: st.w(rd, z3.If(a < b, bv(1), bv(0)))
        elif fn == 0x2b: st.w(rd, z3.If(z3.ULT(a, b), bv(1), bv(0)))
        elif fn == 0x00: st.w(rd, b << bv(sa))
        elif fn == 0x02 and rs == 0: st.w(rd, z3.LShR(b, bv(sa)))
        elif fn == 0x03: st.w(rd, b >> bv(sa))
        elif fn in (0x04, 0x06, 0x07) and (fn == 0x04 or sa == 0 or fn == 0x07):
            out.classes = {"amount<32": z3.ULT(a, bv(32)), "amount>=32": z3.UGE(a, bv(32))}
            st.w(rd, (b << (a & bv(31))) if fn == 0x04 else (z3.LShR(b, a & bv(31)) if fn == 0x06 else (b >> (a & bv(31)))))
        elif fn == 0x04: st.w(rd, b << (a & bv(31)))
        elif fn == 0x06 and sa == 0: st.w(rd, z3.LShR(b, a & bv(31)))
        elif fn == 0x07: st.w(rd, b >> (a & bv(31)))
        elif fn == 0x0a: st.w(rd, z3.If(b == 0, a, R(rd)))          # MOVZ
        elif fn == 0x0b: st.w(rd, z3.If(b != 0, a, R(rd)))          # MOVN
        elif fn == 0x10: st.w(rd, st.hi())
        elif fn == 0x12: st.w(rd, st.lo())
        elif fn == 0x11: st.regs["$hi"] = a
        elif fn == 0x13: st.regs["$lo"] = a
        elif fn in (0x18, 0x19):                                     # MULT / MULTU
            p = (z3.SignExt(32, a) * z3.SignExt(32, b)) if fn == 0x18 else (z3.ZeroExt(32, a) * z3.ZeroExt(32, b))
            st.regs["$hi"] = z3.Extract(63, 32, p); st.regs["$lo"] = z3.Extract(31, 0, p)
        elif fn in (0x1a, 0x1b):                                     # DIV / DIVU
            out.assume.append(b != 0)                                # result UNPREDICTABLE for a zero divisor
            if fn == 0x1a:
                st.regs["$lo"] = a / b; st.regs["$hi"] = z3.SRem(a, b)
            else:
                st.regs["$lo"] = z3.UDiv(a, b); st.regs["$hi"] = z3.URem(a, b)
        elif fn == 0x0c or fn == 0x0d:                               # SYSCALL / BREAK
            out.intrinsic = True
        elif fn == 0x0f:                                             # SYNC
            pass
        elif fn == 0x34:                                             # TEQ
            out.trap = z3.Or(out.trap, a == b)
        else:
            return False
        return True
    if op == 0x1c:                                                    # SPECIAL2
        a, b = R(rs), R(rt)
        if fn == 0x02:
            st.w(rd, z3.Extract(31, 0, z3.SignExt(32, a) * z3.SignExt(32, b)))
            out.undef["$hi"] = True; out.undef["$lo"] = True         # HI/LO UNPREDICTABLE after MUL
        elif fn in (0x00, 0x01, 0x04, 0x05):                         # MADD MADDU MSUB MSUBU
            acc = z3.Concat(st.hi(), st.lo())
            p = (z3.SignExt(32, a) * z3.SignExt(32, b)) if fn in (0x00, 0x04) else (z3.ZeroExt(32, a) * z3.ZeroExt(32, b))
            res = acc + p if fn in (0x00, 0x01) else acc - p
            st.regs["$hi"] = z3.Extract(63, 32, res); st.regs["$lo"] = z3.Extract(31, 0, res)
        elif fn in (0x20, 0x21):                                      # CLZ / CLO
            x = a if fn == 0x20 else ~a
            cnt = bv(32)
            for i in range(32):
                cnt = z3.If(z3.Extract(i, i, x) == 1, bv(31 - i), cnt)
            st.w(rd, cnt)
        else:
            return False
        return True
    a = R(rs)
    if op == 0x08:                                                    # ADDI
        wide = z3.SignExt(1, a) + z3.SignExt(1, sx16(imm))
        out.trap = z3.Or(out.trap, z3.Extract(32, 32, wide) != z3.Extract(31, 31, wide))
        st.w(rt, z3.Extract(31, 0, wide))
    elif op == 0x09: st.w(rt, a + sx16(imm))
    elif op == 0x0a: st.w(rt, z3.If(a < sx16(imm), bv(1), bv(0)))
    elif op == 0x0b: st.w(rt, z3.If(z3.ULT(a, sx16(imm)), bv(1), bv(0)))
    elif op == 0x0c: st.w(rt, a & bv(imm))
    elif op == 0x0d: st.w(rt, a | bv(imm))
    elif op == 0x0e: st.w(rt, a ^ bv(imm))
    elif op == 0x0f and rs == 0: st.w(rt, bv(imm << 16))
    elif op in (0x20, 0x24):                                          # LB / LBU
        v = st.load(a + sx16(imm), 1)
        st.w(rt, z3.SignExt(24, v) if op == 0x20 else z3.ZeroExt(24, v))
    elif op in (0x21, 0x25):                                          # LH / LHU
        v = st.load(a + sx16(imm), 2)
        st.w(rt, z3.SignExt(16, v) if op == 0x21 else z3.ZeroExt(16, v))
    elif op in (0x23, 0x30):                                          # LW / LL
        st.w(rt, st.load(a + sx16(imm), 4))
    elif op == 0x28: st.store(a + sx16(imm), z3.Extract(7, 0, R(rt)))
    elif op == 0x29: st.store(a + sx16(imm), z3.Extract(15, 0, R(rt)))
    elif op == 0x2b: st.store(a + sx16(imm), R(rt))
    elif op == 0x38:                                                  # SC: modelled as always succeeding
        st.store(a + sx16(imm), R(rt)); st.w(rt, bv(1))
    elif op in (0x22, 0x26, 0x2a, 0x2e):                             # LWL LWR SWL SWR
        ea = a + sx16(imm)
        al = ea & bv(3)
        out.classes = {f"align={i}": al == i for i in range(4)}
        base = ea & bv(0xfffffffc)
        big = st.endian == "big"
        reg = R(rt)
        # memory word bytes m[0..3] at base+0..3; register bytes r3 (most significant) .. r0
        m = [st.byte(base + i) for i in range(4)]
        rb = [z3.Extract(8 * i + 7, 8 * i, reg) for i in range(4)]          # rb[0] = least significant
        def sel(k, opts):      # choose by alignment
            e = opts[3]
            for i in (2, 1, 0):
                e = z3.If(al == i, opts[i], e)
            return e
        if op == 0x22:      # LWL: loads the most-significant part of the register from ea down to the word boundary
            res = []
            for j in range(4):      # j = byte position in register, 3 = most significant
                opts = []
                for vaddr in range(4):
                    if big:
                        # bytes from vaddr..3 of the word go to register bytes 3..; count = 4 - vaddr
                        cnt = 4 - vaddr
                        opts.append(m[vaddr + (3 - j)] if (3 - j) < cnt else rb[j])
                    else:
                        cnt = vaddr + 1
                        opts.append(m[vaddr - (3 - j)] if (3 - j) < cnt else rb[j])
                res.append(sel(j, opts))
            st.w(rt, z3.Concat(res[3], res[2], res[1], res[0]))
        elif op == 0x26:    # LWR: loads the least-significant part
            res = []
            for j in range(4):
                opts = []
                for vaddr in range(4):
                    if big:
                        cnt = vaddr + 1
                        opts.append(m[vaddr - j] if j < cnt else rb[j])
                    else:
                        cnt = 4 - vaddr
                        opts.append(m[vaddr + j] if j < cnt else rb[j])
                res.append(sel(j, opts))
            st.w(rt, z3.Concat(res[3], res[2], res[1], res[0]))
        elif op == 0x2a:    # SWL: stores the most-significant register bytes to ea.. toward the word boundary
            for i in range(4):      # memory byte index in the word
                opts = []
                for vaddr in range(4):
                    if big:
                        opts.append(rb[3 - (i - vaddr)] if i >= vaddr else m[i])
                    else:
                        opts.append(rb[3 - (vaddr - i)] if i <= vaddr else m[i])
                st.setbyte(base + i, sel(i, opts))
        else:               # SWR
            for i in range(4):
                opts = []
                for vaddr in range(4):
                    if big:
                        opts.append(rb[vaddr - i] if i <= vaddr else m[i])
                    else:
                        opts.append(rb[i - vaddr] if i >= vaddr else m[i])
                st.setbyte(base + i, sel(i, opts))
    elif op == 0x33:                                                  # PREF
        pass
    elif op == 0x1f and fn == 0x3b:                                   # RDHWR
        out.intrinsic = True
    else:
        return False
    return True


def spec(words, address, getvar, mem, endian):
    """words: [w] or [branch_word, slot_word]. Returns (MState, Out)."""
    st = MState(getvar, mem, endian)
    out = Out()
    w = words[0]
    if not has_delay_slot(w):
        if not exec_plain(st, w, out, address):
            raise Unsupported(f"word {w:#010x}")
        out.next_pc = bv(address + 4, 64)
        out.assume += st.nowrap
        return st, out
    if len(words) < 2:
        raise Unsupported("branch without a delay slot")
    f = fields(w); op, rs, rt, rd, fn, imm = f["op"], f["rs"], f["rt"], f["rd"], f["fn"], f["imm"]
    pc4 = (address + 4) & 0xffffffff
    off = ((imm - 0x10000 if imm & 0x8000 else imm) << 2)
    btarget = bv((pc4 + off) & 0xffffffff)
    fall = bv((address + 8) & 0xffffffff)
    a, b = st.r(rs), st.r(rt)
    # condition, target and link value are determined by the branch itself (pre-slot state)
    link = None
    if op == 2: cond, tgt = z3.BoolVal(True), bv((pc4 & 0xf0000000) | (f["tgt"] << 2))
    elif op == 3: cond, tgt, link = z3.BoolVal(True), bv((pc4 & 0xf0000000) | (f["tgt"] << 2)), 31
    elif op == 4: cond, tgt = a == b, btarget
    elif op == 5: cond, tgt = a != b, btarget
    elif op == 6 and rt == 0: cond, tgt = a <= 0, btarget
    elif op == 7 and rt == 0: cond, tgt = a > 0, btarget
    elif op == 1 and rt == 0: cond, tgt = a < 0, btarget
    elif op == 1 and rt == 1: cond, tgt = a >= 0, btarget
    elif op == 1 and rt in (0x10, 0x11) and rs == 31:
        raise Unsupported("BLTZAL/BGEZAL with rs = 31 is UNPREDICTABLE")
    elif op == 1 and rt == 0x10: cond, tgt, link = a < 0, btarget, 31
    elif op == 1 and rt == 0x11: cond, tgt, link = a >= 0, btarget, 31
    elif op == 0 and fn == 8: cond, tgt = z3.BoolVal(True), a
    elif op == 0 and fn == 9:
        if rd == rs: raise Unsupported("JALR with rd = rs is UNPREDICTABLE")
        cond, tgt, link = z3.BoolVal(True), a, rd
    else:
        raise Unsupported(f"branch word {w:#010x}")
    if link is not None:
        st.w(link, fall)                      # the delay slot sees the link value
    sw = words[1]
    if has_delay_slot(sw):
        raise Unsupported("branch in a delay slot (UNPREDICTABLE)")
    if not exec_plain(st, sw, out, address + 4):
        raise Unsupported(f"delay-slot word {sw:#010x}")
    out.next_pc = z3.ZeroExt(32, z3.If(cond, tgt, fall))
    out.assume += st.nowrap
    return st, out
