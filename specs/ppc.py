"""Reference 32-bit PowerPC interpreter (Power ISA v2.x, Book I subset that falcon lifts), over z3.
Decodes the raw big-endian word itself."""
import z3


def bv(v, w=32): return z3.BitVecVal(v, w)


class Unsupported(Exception):
    pass


class PState:
    def __init__(self, getvar, mem):
        self.getvar = getvar; self.regs = {}; self.mem = mem; self.accessed = []; self.nowrap = []

    def g(self, name, w=32):
        if name not in self.regs: self.regs[name] = self.getvar(name, w)
        return self.regs[name]

    def r(self, n): return self.g(f"r{n}")
    def r0(self, n): return bv(0) if n == 0 else self.r(n)        # (rA|0)
    def w(self, n, v): self.regs[f"r{n}"] = v

    def load(self, a, n):
        self.nowrap.append(z3.ULE(a, bv(0xffffff00)))
        a6 = z3.ZeroExt(32, a); self.accessed.append((a6, n, True))
        bs = [z3.Select(self.mem, a6 + i) for i in range(n)]
        return bs[0] if n == 1 else z3.Concat(*bs)

    def store(self, a, v):
        n = v.size() // 8
        self.nowrap.append(z3.ULE(a, bv(0xffffff00)))
        a6 = z3.ZeroExt(32, a); self.accessed.append((a6, n, True))
        for i in range(n):
            self.mem = z3.Store(self.mem, a6 + i, z3.Extract(8 * (n - 1 - i) + 7, 8 * (n - 1 - i), v))


class Out:
    def __init__(self):
        self.assume = []; self.undef = {}; self.trap = None; self.next_pc = None; self.intrinsic = False


def sx(v, bits):
    return v - (1 << bits) if v & (1 << (bits - 1)) else v


def mask(mb, me):
    m = 0
    i = mb
    while True:
        m |= 1 << (31 - i)
        if i == me: break
        i = (i + 1) & 31
    return m


def crbit(st, bi):
    f = ["lt", "gt", "eq", "so"][bi & 3]
    return st.g(f"cr{bi >> 2}-{f}", 1)


def spec(word, address, getvar, mem):
    st = PState(getvar, mem); out = Out()
    w = word
    op = w >> 26
    rD = (w >> 21) & 31; rA = (w >> 16) & 31; rB = (w >> 11) & 31
    imm = w & 0xffff; simm = sx(imm, 16)
    nia = bv((address + 4) & 0xffffffff)
    out.next_pc = z3.ZeroExt(32, nia)
    if op == 14: st.w(rD, st.r0(rA) + bv(simm))
    elif op == 15: st.w(rD, st.r0(rA) + bv((imm << 16)))
    elif op == 24 and w == 0x60000000: pass
    elif op in (10, 11):
        if (w >> 21) & 1: raise Unsupported("L=1 compare")
        crf = (w >> 23) & 7
        a = st.r(rA)
        if op == 11: lt, gt = a < bv(simm), a > bv(simm); eq = a == bv(simm)
        else: lt, gt = z3.ULT(a, bv(imm)), z3.UGT(a, bv(imm)); eq = a == bv(imm)
        b1 = lambda c: z3.If(c, bv(1, 1), bv(0, 1))
        st.regs[f"cr{crf}-lt"] = b1(lt); st.regs[f"cr{crf}-gt"] = b1(gt); st.regs[f"cr{crf}-eq"] = b1(eq)
        out.undef[f"cr{crf}-so"] = True            # copy of XER[SO], which falcon does not model
    elif op == 34: st.w(rD, z3.ZeroExt(24, st.load(st.r0(rA) + bv(simm), 1)))
    elif op == 32: st.w(rD, st.load(st.r0(rA) + bv(simm), 4))
    elif op == 33:
        if rA == 0 or rA == rD: raise Unsupported("lwzu invalid form")
        ea = st.r(rA) + bv(simm)
        v = st.load(ea, 4); st.w(rD, v); st.w(rA, ea)
    elif op == 36: st.store(st.r0(rA) + bv(simm), st.r(rD))
    elif op == 37:
        if rA == 0: raise Unsupported("stwu invalid form")
        ea = st.r(rA) + bv(simm)
        st.store(ea, st.r(rD)); st.w(rA, ea)
    elif op == 47:
        ea = st.r0(rA) + bv(simm)
        for k, r in enumerate(range(rD, 32)):
            st.store(ea + bv(4 * k), st.r(r))
    elif op == 21:
        if w & 1: raise Unsupported("Rc=1")
        sh = (w >> 11) & 31; mb = (w >> 6) & 31; me = (w >> 1) & 31
        st.w(rA, z3.RotateLeft(st.r(rD), sh) & bv(mask(mb, me)))
    elif op == 31:
        xo = (w >> 1) & 0x3ff
        if w & 1: raise Unsupported("Rc=1")
        if xo == 266 and not (w >> 10) & 1: st.w(rD, st.r(rA) + st.r(rB))
        elif xo == 40 and not (w >> 10) & 1: st.w(rD, st.r(rB) - st.r(rA))
        elif xo == 202 and not (w >> 10) & 1:
            ca = st.g("carry", 1)
            wide = z3.ZeroExt(1, st.r(rA)) + z3.ZeroExt(32, ca)
            st.w(rD, z3.Extract(31, 0, wide)); st.regs["carry"] = z3.Extract(32, 32, wide)
        elif xo == 444 and rD == rB: st.w(rA, st.r(rD))              # mr rA,rS
        elif xo == 339 and ((w >> 11) & 0x3ff) == 0x100: st.w(rD, st.g("lr"))      # mflr
        elif xo == 467 and ((w >> 11) & 0x3ff) == 0x100: st.regs["lr"] = st.r(rD)  # mtlr
        elif xo == 467 and ((w >> 11) & 0x3ff) == 0x120: st.regs["ctr"] = st.r(rD)  # mtctr
        elif xo == 824:
            sh = (w >> 11) & 31
            s = st.r(rD)
            st.w(rA, s >> bv(sh))
            lost = (s & bv((1 << sh) - 1)) != 0
            st.regs["carry"] = z3.If(z3.And(s < 0, lost), bv(1, 1), bv(0, 1))
        else:
            raise Unsupported(f"op31 xo {xo}")
    elif op == 18:
        li = sx(w & 0x03fffffc, 26)
        aa, lk = (w >> 1) & 1, w & 1
        tgt = (li if aa else address + li) & 0xffffffff
        if lk: st.regs["lr"] = nia
        out.next_pc = bv(tgt, 64)
    elif op == 16 or (op == 19 and ((w >> 1) & 0x3ff) in (16, 528)):
        bo, bi = rD, rA
        aa, lk = (w >> 1) & 1, w & 1
        ctr_ok = z3.BoolVal(True)
        if op == 19 and ((w >> 1) & 0x3ff) == 528 and not (bo & 4):
            raise Unsupported("bcctr with CTR decrement is invalid")
        if not (bo & 4):
            c = st.g("ctr") - bv(1); st.regs["ctr"] = c
            ctr_ok = (c != 0) if not (bo & 2) else (c == 0)
        cond_ok = z3.BoolVal(True)
        if not (bo & 16):
            cond_ok = crbit(st, bi) == (bv(1, 1) if (bo & 8) else bv(0, 1))
        taken = z3.And(ctr_ok, cond_ok)
        if op == 16:
            bd = sx(w & 0xfffc, 16)
            tgt = bv((bd if aa else address + bd) & 0xffffffff)
        elif ((w >> 1) & 0x3ff) == 16:
            tgt = st.g("lr") & bv(0xfffffffc)
        else:
            tgt = st.g("ctr") & bv(0xfffffffc)
        if lk: st.regs["lr"] = nia
        out.next_pc = z3.ZeroExt(32, z3.If(taken, tgt, nia))
    else:
        raise Unsupported(f"opcode {op}")
    out.assume += st.nowrap
    return st, out


# ------------------------------------------------------------------ generator --

def D(op, rt, ra, imm): return (op << 26) | (rt << 21) | (ra << 16) | (imm & 0xffff)
def X(rt, ra, rb, xo, rc=0): return (31 << 26) | (rt << 21) | (ra << 16) | (rb << 11) | (xo << 1) | rc


def words(thorough=False):
    out = []
    regs = [(3, 4, 5), (1, 1, 1), (0, 0, 3), (31, 1, 0), (3, 0, 4), (9, 9, 10)]
    imms = [0, 1, 0x7fff, 0x8000, 0xffff, 0xfff0, 16]
    for rt, ra, rb in regs:
        out += [(f"add r{rt},r{ra},r{rb}", X(rt, ra, rb, 266)), (f"subf r{rt},r{ra},r{rb}", X(rt, ra, rb, 40)), (f"addze r{rt},r{ra}", X(rt, ra, 0, 202)),
                (f"mr r{ra},r{rt}", X(rt, ra, rt, 444))]
        for im in (imms if thorough else imms[:5]):
            out += [(f"addi r{rt},r{ra},{im:#x}", D(14, rt, ra, im)), (f"addis r{rt},r{ra},{im:#x}", D(15, rt, ra, im)),
                    (f"lwz r{rt},{im:#x}(r{ra})", D(32, rt, ra, im)), (f"lbz r{rt},{im:#x}(r{ra})", D(34, rt, ra, im)),
                    (f"stw r{rt},{im:#x}(r{ra})", D(36, rt, ra, im))]
            if ra != 0:
                out.append((f"stwu r{rt},{im:#x}(r{ra})", D(37, rt, ra, im)))
                if ra != rt: out.append((f"lwzu r{rt},{im:#x}(r{ra})", D(33, rt, ra, im)))
    for crf in (0, 1, 7):
        for ra in (3, 0, 1):
            for im in imms[:6]:
                out += [(f"cmpwi cr{crf},r{ra},{im:#x}", D(11, crf << 2, ra, im)), (f"cmplwi cr{crf},r{ra},{im:#x}", D(10, crf << 2, ra, im))]
    for rs in (3, 0, 31):
        out += [(f"mflr r{rs}", X(rs, 8, 0, 339)), (f"mtlr r{rs}", X(rs, 8, 0, 467)), (f"mtctr r{rs}", X(rs, 9, 0, 467))]
    out.append(("nop", 0x60000000))
    for rs, ra in ((3, 4), (5, 5), (0, 31)):
        for sh, mb, me in ((0, 0, 31), (1, 0, 30), (31, 0, 0), (4, 28, 3), (8, 8, 15), (16, 31, 0), (0, 16, 31), (29, 3, 31)):
            out.append((f"rlwinm r{ra},r{rs},{sh},{mb},{me}", (21 << 26) | (rs << 21) | (ra << 16) | (sh << 11) | (mb << 6) | (me << 1)))
        for sh in (0, 1, 15, 31):
            out.append((f"srawi r{ra},r{rs},{sh}", (31 << 26) | (rs << 21) | (ra << 16) | (sh << 11) | (824 << 1)))
    for rs in (29, 31, 30):
        out.append((f"stmw r{rs},-12(r1)", D(47, rs, 1, -12 & 0xffff))); out.append((f"stmw r{rs},8(r0)", D(47, rs, 0, 8)))
    for li in (0x100, -0x100 & 0x03fffffc, 0x01fffffc, 4):
        out += [(f"b {li:#x}", (18 << 26) | li), (f"bl {li:#x}", (18 << 26) | li | 1)]
    for bo, bi in ((12, 0), (4, 0), (12, 2), (4, 2), (12, 1), (4, 30), (12, 31), (20, 0), (16, 0), (18, 0), (8, 2), (0, 2)):
        for bd in (0x10, -0x10 & 0xfffc):
            out.append((f"bc {bo},{bi},{bd:#x}", (16 << 26) | (bo << 21) | (bi << 16) | bd))
        out.append((f"bclr {bo},{bi}", (19 << 26) | (bo << 21) | (bi << 16) | (16 << 1)))
        if bo & 4:
            out.append((f"bcctr {bo},{bi}", (19 << 26) | (bo << 21) | (bi << 16) | (528 << 1)))
    out.append(("blr", 0x4e800020)); out.append(("bctr", 0x4e800420)); out.append(("bdnzl 0x20", (16 << 26) | (16 << 21) | 0x20 | 1)); out.append(("blrl", 0x4e800021))
    return out


def random_words(rnd, n):
    """n words per class with random register numbers and immediates (seeded)."""
    out = []
    r = lambda: rnd.choice([rnd.randrange(32), 0, 1, 31])
    for _ in range(n):
        rt, ra, rb = r(), r(), r()
        im = rnd.choice([rnd.randrange(65536), 0x8000, 0x7fff, 0xffff, 0])
        out += [(f"add r{rt},r{ra},r{rb}", X(rt, ra, rb, 266)), (f"subf r{rt},r{ra},r{rb}", X(rt, ra, rb, 40)), (f"addze r{rt},r{ra}", X(rt, ra, 0, 202)), (f"mr r{ra},r{rt}", X(rt, ra, rt, 444)),
                (f"addi r{rt},r{ra},{im:#x}", D(14, rt, ra, im)), (f"addis r{rt},r{ra},{im:#x}", D(15, rt, ra, im)),
                (f"lwz r{rt},{im:#x}(r{ra})", D(32, rt, ra, im)), (f"lbz r{rt},{im:#x}(r{ra})", D(34, rt, ra, im)), (f"stw r{rt},{im:#x}(r{ra})", D(36, rt, ra, im))]
        if ra != 0:
            out.append((f"stwu r{rt},{im:#x}(r{ra})", D(37, rt, ra, im)))
            if ra != rt: out.append((f"lwzu r{rt},{im:#x}(r{ra})", D(33, rt, ra, im)))
        crf = rnd.randrange(8)
        out += [(f"cmpwi cr{crf},r{ra},{im:#x}", D(11, crf << 2, ra, im)), (f"cmplwi cr{crf},r{ra},{im:#x}", D(10, crf << 2, ra, im))]
        sh, mb, me = rnd.randrange(32), rnd.randrange(32), rnd.randrange(32)
        out.append((f"rlwinm r{ra},r{rt},{sh},{mb},{me}", (21 << 26) | (rt << 21) | (ra << 16) | (sh << 11) | (mb << 6) | (me << 1)))
        out.append((f"srawi r{ra},r{rt},{sh}", (31 << 26) | (rt << 21) | (ra << 16) | (sh << 11) | (824 << 1)))
        bo, bi = rnd.choice([12, 4, 20, 16, 18, 8, 0, 13, 5]), rnd.randrange(32)
        bd = rnd.randrange(1 << 14) << 2
        out.append((f"bc {bo},{bi},{bd:#x}", (16 << 26) | (bo << 21) | (bi << 16) | bd))
        out.append((f"bclr {bo},{bi}", (19 << 26) | (bo << 21) | (bi << 16) | (16 << 1)))
    return out
