"""Reference A64 interpreter for the instruction classes falcon lifts, written from the Arm ARM
pseudocode (C6), over z3.  Decodes the raw 32-bit word itself.  Also generates the corpus."""
import z3


def bv(v, w=64): return z3.BitVecVal(v, w)


class Unsupported(Exception):
    pass


class AState:
    def __init__(self, getvar, mem, endian):
        self.getvar = getvar; self.regs = {}; self.mem = mem; self.endian = endian; self.accessed = []

    def g(self, name, w=64):
        if name not in self.regs: self.regs[name] = self.getvar(name, w)
        return self.regs[name]

    def X(self, n, sp=False):
        if n == 31: return self.g("sp") if sp else bv(0)
        return self.g(f"x{n}")

    def W(self, n, sp=False): return z3.Extract(31, 0, self.X(n, sp))

    def R(self, n, sf, sp=False): return self.X(n, sp) if sf else self.W(n, sp)

    def setR(self, n, sf, v, sp=False):
        if n == 31 and not sp: return                       # XZR/WZR discards writes
        if not sf: v = z3.ZeroExt(32, v)                    # W writes clear the upper half
        self.regs["sp" if n == 31 else f"x{n}"] = v

    def load(self, a, n):
        self.accessed.append((a, n, True))
        bs = [z3.Select(self.mem, a + i) for i in range(n)]
        if self.endian == "little": bs = list(reversed(bs))
        return bs[0] if n == 1 else z3.Concat(*bs)

    def store(self, a, v):
        n = v.size() // 8
        self.accessed.append((a, n, True))
        for i in range(n):
            lane = i if self.endian == "little" else n - 1 - i
            self.mem = z3.Store(self.mem, a + i, z3.Extract(8 * lane + 7, 8 * lane, v))


class Out:
    def __init__(self):
        self.assume = []; self.undef = {}; self.next_pc = None; self.intrinsic = False; self.classes = None


def sx(v, bits): return v - (1 << bits) if v & (1 << (bits - 1)) else v


def add_with_carry(x, y, cin):
    w = x.size()
    us = z3.ZeroExt(1, x) + z3.ZeroExt(1, y) + z3.ZeroExt(w, cin)
    ss = z3.SignExt(1, x) + z3.SignExt(1, y) + z3.ZeroExt(w, cin)
    r = z3.Extract(w - 1, 0, us)
    n = z3.Extract(w - 1, w - 1, r)
    zf = z3.If(r == 0, bv(1, 1), bv(0, 1))
    c = z3.Extract(w, w, us)
    v = z3.If(z3.SignExt(1, r) != ss, bv(1, 1), bv(0, 1))
    return r, (n, zf, c, v)


def cond_holds(st, cond):
    n, zf, c, v = (st.g(x, 1) == 1 for x in "nzcv")
    base = [zf, c, n, v, z3.And(c, z3.Not(zf)), n == v, z3.And(n == v, z3.Not(zf)), z3.BoolVal(True)][cond >> 1]
    if cond & 1 and cond != 0b1111: base = z3.Not(base)
    return base


def extend_reg(st, m, option, shift, sf):
    val = st.X(m)
    lens = {0: 8, 1: 16, 2: 32, 3: 64, 4: 8, 5: 16, 6: 32, 7: 64}[option]
    part = z3.Extract(lens - 1, 0, val)
    N = 64 if sf else 32
    if lens > N: part = z3.Extract(N - 1, 0, part); lens = N
    ext = (z3.ZeroExt if option < 4 else z3.SignExt)(N - lens, part) if lens < N else part
    return ext << bv(shift, N)


def decode_bit_masks(N, imms, immr, M):
    x = (N << 6) | ((~imms) & 0x3f)
    if x == 0: raise Unsupported("reserved bitmask")
    length = x.bit_length() - 1
    if length < 1: raise Unsupported("reserved bitmask")
    levels = (1 << length) - 1
    S = imms & levels; Rr = immr & levels
    if S == levels: raise Unsupported("reserved bitmask")
    esize = 1 << length
    welem = (1 << (S + 1)) - 1
    welem = ((welem >> Rr) | (welem << (esize - Rr))) & ((1 << esize) - 1)
    out = 0
    for i in range(M // esize):
        out |= welem << (i * esize)
    return out


def spec(w, address, getvar, mem, endian):
    st = AState(getvar, mem, endian); out = Out()
    out.next_pc = bv(address + 4)
    sf = w >> 31
    rd = w & 31; rn = (w >> 5) & 31; rm = (w >> 16) & 31
    N = 64 if sf else 32
    # ---- add/sub immediate
    if (w >> 23) & 0x3f == 0b100010:
        op, S = (w >> 30) & 1, (w >> 29) & 1
        sh = (w >> 22) & 1; imm = (w >> 10) & 0xfff
        if sh: imm <<= 12
        a = st.R(rn, sf, sp=True); b = bv(imm, N)
        r, fl = add_with_carry(a, ~b if op else b, bv(1, 1) if op else bv(0, 1))
        if S:
            for nme, f in zip("nzcv", fl): st.regs[nme] = f
        st.setR(rd, sf, r, sp=not S)
        return st, out
    # ---- add/sub shifted / extended register
    if (w >> 24) & 0x1f == 0b01011:
        op, S = (w >> 30) & 1, (w >> 29) & 1
        if (w >> 21) & 1 == 0:
            shift = (w >> 22) & 3; imm6 = (w >> 10) & 0x3f
            if shift == 3 or (not sf and imm6 >= 32): raise Unsupported("reserved")
            m = st.R(rm, sf)
            b = [m << bv(imm6, N), z3.LShR(m, bv(imm6, N)), m >> bv(imm6, N)][shift]
            a = st.R(rn, sf)
            spd = False
        else:
            if (w >> 22) & 3: raise Unsupported("reserved")
            option = (w >> 13) & 7; imm3 = (w >> 10) & 7
            if imm3 > 4: raise Unsupported("reserved")
            b = extend_reg(st, rm, option, imm3, sf)
            a = st.R(rn, sf, sp=True)
            spd = not S
        r, fl = add_with_carry(a, ~b if op else b, bv(1, 1) if op else bv(0, 1))
        if S:
            for nme, f in zip("nzcv", fl): st.regs[nme] = f
        st.setR(rd, sf, r, sp=spd)
        return st, out
    # ---- move wide
    if (w >> 23) & 0x3f == 0b100101:
        opc = (w >> 29) & 3; hw = (w >> 21) & 3; imm16 = (w >> 5) & 0xffff
        if not sf and hw > 1: raise Unsupported("reserved")
        if opc == 2: st.setR(rd, sf, bv(imm16 << (16 * hw), N))
        elif opc == 0: st.setR(rd, sf, ~bv(imm16 << (16 * hw), N))
        else: raise Unsupported("movk")
        return st, out
    # ---- logical (shifted register): ORR only (MOV alias)
    if (w >> 24) & 0x1f == 0b01010 and (w >> 29) & 3 == 1 and (w >> 21) & 1 == 0:
        shift = (w >> 22) & 3; imm6 = (w >> 10) & 0x3f
        if not sf and imm6 >= 32: raise Unsupported("reserved")
        m = st.R(rm, sf)
        b = [m << bv(imm6, N), z3.LShR(m, bv(imm6, N)), m >> bv(imm6, N), z3.RotateRight(m, imm6)][shift]
        st.setR(rd, sf, st.R(rn, sf) | b)
        return st, out
    # ---- logical (immediate): ORR only
    if (w >> 23) & 0x3f == 0b100100 and (w >> 29) & 3 == 1:
        Nb = (w >> 22) & 1
        if not sf and Nb: raise Unsupported("reserved")
        imm = decode_bit_masks(Nb, (w >> 10) & 0x3f, (w >> 16) & 0x3f, N)
        st.setR(rd, sf, st.R(rn, sf) | bv(imm, N), sp=True)
        return st, out
    # ---- branches
    if (w >> 26) & 0x1f == 0b00101:
        off = sx(w & 0x3ffffff, 26) * 4
        if w >> 31: st.regs["x30"] = bv(address + 4)
        out.next_pc = bv((address + off) & (2**64 - 1)); return st, out
    if (w >> 24) == 0b01010100 and not (w >> 4) & 1:
        off = sx((w >> 5) & 0x7ffff, 19) * 4
        out.next_pc = z3.If(cond_holds(st, w & 15), bv((address + off) & (2**64 - 1)), bv(address + 4)); return st, out
    if (w >> 25) & 0x3f == 0b011010:
        off = sx((w >> 5) & 0x7ffff, 19) * 4
        v = st.R(rd, sf)
        zero = v == 0
        out.next_pc = z3.If(zero if not (w >> 24) & 1 else z3.Not(zero), bv((address + off) & (2**64 - 1)), bv(address + 4)); return st, out
    if (w >> 25) & 0x3f == 0b011011:
        bit = ((w >> 31) << 5) | ((w >> 19) & 31)
        off = sx((w >> 5) & 0x3fff, 14) * 4
        b = z3.Extract(bit, bit, st.X(rd)) == 1
        out.next_pc = z3.If(b if (w >> 24) & 1 else z3.Not(b), bv((address + off) & (2**64 - 1)), bv(address + 4)); return st, out
    if (w & 0xfffffc1f) in (0xd61f0000, 0xd63f0000, 0xd65f0000):
        tgt = st.X(rn)
        if (w & 0xfffffc1f) == 0xd63f0000: st.regs["x30"] = bv(address + 4)
        out.next_pc = tgt; return st, out
    if w == 0xd503201f: return st, out
    # ---- load/store register
    if (w >> 27) & 7 == 0b111 and (w >> 24) & 3 in (0, 1) and not (w >> 26) & 1:
        size = w >> 30; opc = (w >> 22) & 3
        rt = rd
        nbytes = 1 << size
        wback = False; post = False
        if (w >> 24) & 1:          # unsigned offset
            off = bv(((w >> 10) & 0xfff) << size)
        elif (w >> 21) & 1 and (w >> 10) & 3 == 2:     # register offset
            option = (w >> 13) & 7; Sbit = (w >> 12) & 1
            if option & 2 == 0: raise Unsupported("reserved option")
            off = extend_reg(st, rm, option, size if Sbit else 0, 1)
        elif not (w >> 21) & 1:
            imm9 = sx((w >> 12) & 0x1ff, 9); kind = (w >> 10) & 3
            off = bv(imm9 & (2**64 - 1))
            if kind == 1: wback = True; post = True
            elif kind == 3: wback = True
            elif kind == 2: raise Unsupported("unprivileged")
        else:
            raise Unsupported("ldst form")
        if size == 3 and opc == 2: return st, out      # PRFM
        if opc == 0: is_load = False
        elif opc == 1: is_load = True; signed = False; regsize = 64 if size == 3 else 32
        else:
            if size == 3 or (size == 2 and opc == 3): raise Unsupported("reserved")
            is_load = True; signed = True; regsize = 32 if opc == 3 else 64
        if wback and rn == rt and rn != 31: raise Unsupported("writeback with Rn == Rt is CONSTRAINED UNPREDICTABLE")
        base = st.X(rn, sp=True)
        addr = base if post else base + off
        if is_load:
            v = st.load(addr, nbytes)
            v = (z3.SignExt if signed else z3.ZeroExt)(regsize - 8 * nbytes, v) if regsize > 8 * nbytes else v
            st.setR(rt, regsize == 64, v)
        else:
            st.store(addr, z3.Extract(8 * nbytes - 1, 0, st.X(rt)))
        if wback:
            st.regs["sp" if rn == 31 else f"x{rn}"] = base + off
        return st, out
    # ---- load/store pair
    if (w >> 27) & 7 == 0b101 and not (w >> 26) & 1:
        opc = w >> 30; typ = (w >> 23) & 7; L = (w >> 22) & 1
        rt, rt2 = rd, (w >> 10) & 31
        if opc == 3 or (opc == 1 and not L): raise Unsupported("reserved")
        scale = 3 if opc == 2 else 2
        imm = sx((w >> 15) & 0x7f, 7) << scale
        wback = typ in (1, 3); post = typ == 1
        if typ not in (0, 1, 2, 3): raise Unsupported("pair type")
        if L and rt == rt2: raise Unsupported("LDP with Rt == Rt2 is CONSTRAINED UNPREDICTABLE")
        if wback and (rn == rt or rn == rt2) and rn != 31: raise Unsupported("writeback with base in the transfer list is CONSTRAINED UNPREDICTABLE")
        base = st.X(rn, sp=True)
        addr = base if post else base + bv(imm & (2**64 - 1))
        nb = 1 << scale
        if L:
            v1 = st.load(addr, nb); v2 = st.load(addr + nb, nb)
            if opc == 1: v1, v2 = z3.SignExt(32, v1), z3.SignExt(32, v2)
            st.setR(rt, opc != 0, v1); st.setR(rt2, opc != 0, v2)
        else:
            st.store(addr, z3.Extract(8 * nb - 1, 0, st.X(rt))); st.store(addr + nb, z3.Extract(8 * nb - 1, 0, st.X(rt2)))
        if wback:
            st.regs["sp" if rn == 31 else f"x{rn}"] = base + bv(imm & (2**64 - 1))
        return st, out
    # ---- load-acquire / store-release (LDAR/STLR/LDLAR/STLLR) and LDAPUR/STLUR
    if (w >> 24) & 0x3f == 0b001000 and (w >> 23) & 1 and ((w >> 16) & 31) == 31 and ((w >> 10) & 31) == 31 and not (w >> 21) & 1:
        size = w >> 30; L = (w >> 22) & 1; nb = 1 << size
        addr = st.X(rn, sp=True)
        if L: st.setR(rd, size == 3, z3.ZeroExt((64 if size == 3 else 32) - 8 * nb, st.load(addr, nb)) if nb < 4 else st.load(addr, nb))
        else: st.store(addr, z3.Extract(8 * nb - 1, 0, st.X(rd)))
        return st, out
    if (w >> 24) & 0x3f == 0b011001 and not (w >> 21) & 1 and (w >> 10) & 3 == 0 and (w >> 22) & 3 == 0:
        size = w >> 30; nb = 1 << size
        addr = st.X(rn, sp=True) + bv(sx((w >> 12) & 0x1ff, 9) & (2**64 - 1))
        st.store(addr, z3.Extract(8 * nb - 1, 0, st.X(rd)))
        return st, out
    raise Unsupported(f"word {w:#010x}")


# ---------------------------------------------------------------- generator --

def words(thorough=False, rnd=None, nrand=0):
    out = []
    if rnd is not None and nrand:
        out += random_words(rnd, nrand)
    regs = [(0, 1, 2), (3, 3, 3), (31, 31, 5), (5, 31, 31), (0, 0, 1), (30, 29, 28)]
    if thorough: regs += [(1, 0, 0), (31, 0, 31), (17, 16, 15)]
    for sf in (1, 0):
        for op, S, nm in ((0, 0, "add"), (0, 1, "adds"), (1, 0, "sub"), (1, 1, "subs")):
            for rd, rn, rm in regs:
                for sh, imm in ((0, 0), (0, 1), (0, 0xfff), (1, 1), (1, 0xfff)):
                    out.append((f"{nm} {'x' if sf else 'w'}{rd},{rn},#{imm:#x}<<{12 * sh}", (sf << 31) | (op << 30) | (S << 29) | (0b100010 << 23) | (sh << 22) | (imm << 10) | (rn << 5) | rd))
                for shift in (0, 1, 2):
                    for imm6 in ((0, 1, 31, 63) if sf else (0, 1, 31)):
                        out.append((f"{nm} {'x' if sf else 'w'}{rd},{rn},{rm},sh{shift}#{imm6}", (sf << 31) | (op << 30) | (S << 29) | (0b01011 << 24) | (shift << 22) | (rm << 16) | (imm6 << 10) | (rn << 5) | rd))
                for option in range(8):
                    for imm3 in ((0, 4) if not thorough else (0, 1, 2, 3, 4)):
                        out.append((f"{nm} {'x' if sf else 'w'}{rd},{rn},{rm},ext{option}#{imm3}", (sf << 31) | (op << 30) | (S << 29) | (0b01011 << 24) | (1 << 21) | (rm << 16) | (option << 13) | (imm3 << 10) | (rn << 5) | rd))
        for rd in (0, 30, 31):
            for hw in ((0, 1, 3) if sf else (0, 1)):
                for imm in (0, 1, 0xffff, 0x8000):
                    out.append((f"movz r{rd},#{imm:#x},lsl {16 * hw}", (sf << 31) | (2 << 29) | (0b100101 << 23) | (hw << 21) | (imm << 5) | rd))
                    out.append((f"movn r{rd},#{imm:#x},lsl {16 * hw}", (sf << 31) | (0 << 29) | (0b100101 << 23) | (hw << 21) | (imm << 5) | rd))
            for rm in (1, 31, rd):
                out.append((f"mov r{rd},r{rm}", (sf << 31) | (1 << 29) | (0b01010 << 24) | (rm << 16) | (31 << 5) | rd))
            for (Nb, immr, imms) in ((1 if sf else 0, 0, 0), (0, 0, 0b111100), (0, 1, 0b011110), (1 if sf else 0, 3, 7)):
                out.append((f"mov r{rd},#bitmask({Nb},{immr},{imms})", (sf << 31) | (1 << 29) | (0b100100 << 23) | (Nb << 22) | (immr << 16) | (imms << 10) | (31 << 5) | rd))
    # loads / stores
    pairs = [(0, 1), (2, 31), (31, 3), (5, 5), (30, 31)]
    for size in range(4):
        for opc in range(4):
            for rt, rn in pairs:
                for imm12 in (0, 1, 0xfff):
                    out.append((f"ldst{size}.{opc} r{rt},[r{rn},#{imm12}]", (size << 30) | (0b111 << 27) | (1 << 24) | (opc << 22) | (imm12 << 10) | (rn << 5) | rt))
                for imm9 in (0, 8, -8 & 0x1ff, 0xff, 0x100):
                    for kind in (0, 1, 3):
                        out.append((f"ldst{size}.{opc} r{rt},[r{rn}],#{imm9:#x} k{kind}", (size << 30) | (0b111 << 27) | (opc << 22) | (imm9 << 12) | (kind << 10) | (rn << 5) | rt))
                for option in (2, 3, 6, 7):
                    for Sb in (0, 1):
                        out.append((f"ldst{size}.{opc} r{rt},[r{rn},r9,ext{option},{Sb}]", (size << 30) | (0b111 << 27) | (opc << 22) | (1 << 21) | (9 << 16) | (option << 13) | (Sb << 12) | (2 << 10) | (rn << 5) | rt))
    for opc in (0, 1, 2):
        for L in (0, 1):
            for typ in (0, 1, 2, 3):
                for rt, rt2, rn in ((0, 1, 2), (29, 30, 31), (3, 3, 4), (5, 6, 5), (31, 7, 8), (9, 10, 10)):
                    for imm7 in (0, 1, 0x7f, 0x40):
                        out.append((f"pair{opc}.{L}.{typ} r{rt},r{rt2},[r{rn},#{imm7:#x}]", (opc << 30) | (0b101 << 27) | (typ << 23) | (L << 22) | (imm7 << 15) | (rt2 << 10) | (rn << 5) | rt))
    for size in range(4):
        for L in (0, 1):
            for o0 in (0, 1):
                for rt, rn in ((0, 1), (31, 31), (2, 31), (3, 3)):
                    out.append((f"ldar/stlr{size}.{L}.{o0} r{rt},[r{rn}]", (size << 30) | (0b001000 << 24) | (1 << 23) | (L << 22) | (31 << 16) | (o0 << 15) | (31 << 10) | (rn << 5) | rt))
        for rt, rn in ((0, 1), (2, 31)):
            for imm9 in (0, 0xff, 0x100):
                out.append((f"stlur{size} r{rt},[r{rn},#{imm9:#x}]", (size << 30) | (0b011001 << 24) | (imm9 << 12) | (rn << 5) | rt))
    # branches
    for imm in (0x10, 0x3ffffff, 0x2000000, 1):
        out.append((f"b {imm:#x}", (0b000101 << 26) | imm)); out.append((f"bl {imm:#x}", (0b100101 << 26) | imm))
    for cond in range(16):
        for imm in (2, 0x7ffff, 0x40000):
            out.append((f"b.{cond} {imm:#x}", (0b01010100 << 24) | (imm << 5) | cond))
    for sf in (0, 1):
        for op in (0, 1):
            for rt in (0, 31, 30):
                out.append((f"cb{'n' if op else ''}z {'x' if sf else 'w'}{rt}", (sf << 31) | (0b011010 << 25) | (op << 24) | (4 << 5) | rt))
    for bit in (0, 1, 31, 32, 63):
        for op in (0, 1):
            for rt in (0, 31, 17):
                out.append((f"tb{'n' if op else ''}z r{rt},#{bit}", ((bit >> 5) << 31) | (0b011011 << 25) | (op << 24) | ((bit & 31) << 19) | (3 << 5) | rt))
    for rn in (0, 30, 31, 17):
        out += [(f"br x{rn}", 0xd61f0000 | (rn << 5)), (f"blr x{rn}", 0xd63f0000 | (rn << 5)), (f"ret x{rn}", 0xd65f0000 | (rn << 5))]
    out.append(("nop", 0xd503201f))
    out.append(("prfm", 0xf9800020))
    return out


def random_words(rnd, n):
    """n words per class with every field drawn at random (seeded): register numbers incl. 31, immediates, shift/extend
    options, addressing modes.  Words the reference does not model raise Unsupported and are counted as such."""
    out = []
    R = lambda: rnd.choice([rnd.randrange(32), 31, 30, 0])
    for _ in range(n):
        sf, op, S = rnd.randrange(2), rnd.randrange(2), rnd.randrange(2)
        nm = ("sub" if op else "add") + ("s" if S else "")
        rd, rn, rm = R(), R(), R()
        if S and rd == 31: rd = rnd.randrange(31)        # cmp/cmn aliases are rejected by the lifter
        w = (sf << 31) | (op << 30) | (S << 29) | (0b100010 << 23) | (rnd.randrange(2) << 22) | (rnd.randrange(4096) << 10) | (rn << 5) | rd
        out.append((f"{nm} rnd-imm", w))
        w = (sf << 31) | (op << 30) | (S << 29) | (0b01011 << 24) | (rnd.randrange(3) << 22) | (rm << 16) | (rnd.randrange(64 if sf else 32) << 10) | (rn << 5) | rd
        out.append((f"{nm} rnd-shift", w))
        w = (sf << 31) | (op << 30) | (S << 29) | (0b01011 << 24) | (1 << 21) | (rm << 16) | (rnd.randrange(8) << 13) | (rnd.randrange(5) << 10) | (rn << 5) | rd
        out.append((f"{nm} rnd-ext", w))
        size, opc = rnd.randrange(4), rnd.randrange(4)
        rt = R()
        form = rnd.randrange(4)
        if form == 0: w = (size << 30) | (0b111 << 27) | (1 << 24) | (opc << 22) | (rnd.randrange(4096) << 10) | (rn << 5) | rt
        elif form == 1: w = (size << 30) | (0b111 << 27) | (opc << 22) | (rnd.randrange(512) << 12) | (rnd.choice([0, 1, 3]) << 10) | (rn << 5) | rt
        else: w = (size << 30) | (0b111 << 27) | (opc << 22) | (1 << 21) | (rm << 16) | (rnd.choice([2, 3, 6, 7]) << 13) | (rnd.randrange(2) << 12) | (2 << 10) | (rn << 5) | rt
        out.append((f"ldst{size}.{opc} rnd", w))
        opc2, L, typ = rnd.randrange(3), rnd.randrange(2), rnd.randrange(4)
        out.append((f"pair{opc2}.{L}.{typ} rnd", (opc2 << 30) | (0b101 << 27) | (typ << 23) | (L << 22) | (rnd.randrange(128) << 15) | (R() << 10) | (rn << 5) | rt))
        out.append((f"b.{rnd.randrange(16)} rnd", (0b01010100 << 24) | (rnd.randrange(1 << 19) << 5) | rnd.randrange(16)))
        out.append(("cbz/cbnz rnd", (sf << 31) | (0b011010 << 25) | (rnd.randrange(2) << 24) | (rnd.randrange(1 << 19) << 5) | rt))
        bit = rnd.randrange(64)
        out.append(("tbz/tbnz rnd", ((bit >> 5) << 31) | (0b011011 << 25) | (rnd.randrange(2) << 24) | ((bit & 31) << 19) | (rnd.randrange(1 << 14) << 5) | rt))
        out.append((rnd.choice(["b", "bl"]) + " rnd", (rnd.randrange(2) << 31) | (0b00101 << 26) | rnd.randrange(1 << 26)))
        hw = rnd.randrange(4 if sf else 2)
        out.append(("movz rnd", (sf << 31) | (2 << 29) | (0b100101 << 23) | (hw << 21) | (rnd.randrange(65536) << 5) | rd))
        out.append(("mov rnd", (sf << 31) | (1 << 29) | (0b01010 << 24) | (rm << 16) | (31 << 5) | rd))
    return out
