"""Reference semantics of the x86 / amd64 subset falcon lifts, written from the Intel SDM
(vol. 2 instruction pages) over z3 terms.  Input: the abstract description that
encgen_x86 turned into bytes.  Output: post-state terms, next instruction address,
which flags are architecturally undefined, and assumptions (states excluded because
the architecture faults or leaves the result undefined).
"""
import z3
from .encgen_x86 import REGINFO, full_reg, opsize, R64, R32, CC

FLAGS = ["CF", "ZF", "SF", "OF", "DF"]


def bv(v, w): return z3.BitVecVal(v, w)
def b1(c): return z3.If(c, bv(1, 1), bv(0, 1))
def bit(x, i): return z3.Extract(i, i, x)
def msb(x): return bit(x, x.size() - 1)


class XState:
    def __init__(self, mode, getvar, mem, endian="little"):
        """getvar(name, bits) -> z3 variable of the IL pre-state scalar of that name."""
        self.mode = mode
        self.getvar = getvar
        self.regs = {}
        self.flags = {}
        self.mem = mem
        self.stores = 0

    # --- registers ---
    def full(self, fname):
        v = self.regs.get(fname)
        if v is None:
            v = self.getvar(fname, 128 if fname.startswith("xmm") else self.mode)
            self.regs[fname] = v
        return v

    def get_reg(self, name):
        size, num, kind = REGINFO[name]
        f = self.full(full_reg(name, self.mode))
        if size == f.size():
            return f
        if kind == 'h':
            return z3.Extract(15, 8, f)
        return z3.Extract(size - 1, 0, f)

    def set_reg(self, name, val):
        size, num, kind = REGINFO[name]
        assert val.size() == size, (name, val.size())
        fn = full_reg(name, self.mode)
        f = self.full(fn)
        W = f.size()
        if size == W:
            new = val
        elif kind == 'h':
            new = z3.Concat(z3.Extract(W - 1, 16, f), val, z3.Extract(7, 0, f))
        elif size == 32:           # 64-bit mode: 32-bit writes zero the upper half
            new = z3.ZeroExt(W - 32, val)
        else:
            new = z3.Concat(z3.Extract(W - 1, size, f), val)
        self.regs[fn] = new

    def flag(self, n):
        v = self.flags.get(n)
        if v is None:
            v = self.getvar(n, 1)
            self.flags[n] = v
        return v

    # --- memory ---
    def ea(self, m, next_ip):
        """Effective address (mode-width), including segment base, zero-extended to 64."""
        W = self.mode
        if m["base"] == "rip":
            a = bv((next_ip + m["disp"]) & ((1 << 64) - 1), 64)
        else:
            a = bv(m["disp"] & ((1 << W) - 1), W)
            if m["base"]:
                a = a + self.full(m["base"])
            if m["index"]:
                a = a + self.full(m["index"]) * bv(m["scale"], W)
        if m["seg"]:
            a = a + self.getvar(m["seg"] + "_base", W)
        return z3.ZeroExt(64 - W, a) if W < 64 else a

    def load(self, addr64, size):
        n = size // 8
        bs = [z3.Select(self.mem, addr64 + i) for i in range(n)]
        return bs[0] if n == 1 else z3.Concat(*reversed(bs))

    def store(self, addr64, val):
        n = val.size() // 8
        for i in range(n):
            self.mem = z3.Store(self.mem, addr64 + i, z3.Extract(8 * i + 7, 8 * i, val))


class Result:
    def __init__(self):
        self.undef_flags = {}     # flag -> z3 Bool condition under which it is undefined (True = always)
        self.assume = []          # z3 Bools: states in which the outcome is defined / no fault
        self.next_pc = None       # z3 BV64
        self.undef_regs = {}      # full reg name -> z3 Bool (undefined when)
        self.intrinsic = False
        self.accessed = []        # (addr64, nbytes, guard) for replay window constraints
        self.classes = None       # partition of pre-states used to identify findings


class Unsupported(Exception):
    pass


def cond_of(st, cc):
    cf, zf, sf, of = (st.flag(x) == 1 for x in ("CF", "ZF", "SF", "OF"))
    base = {"o": of, "b": cf, "e": zf, "be": z3.Or(cf, zf), "s": sf, "l": sf != of,
            "le": z3.Or(zf, sf != of)}
    if cc in base: return base[cc]
    neg = {"no": "o", "ae": "b", "ne": "e", "a": "be", "ns": "s", "ge": "l", "g": "le"}
    if cc in neg: return z3.Not(base[neg[cc]])
    raise Unsupported(f"condition {cc} needs PF")   # p / np: parity flag is not modelled


def spec(mode, d, getvar, mem, address, length):
    """Run the reference semantics. Returns (XState post, Result)."""
    st = XState(mode, getvar, mem)
    r = Result()
    W = mode
    next_ip = (address + length) & ((1 << W) - 1)
    r.next_pc = bv(next_ip, 64)
    mn = d["mn"]
    ops = d.get("ops", [])

    ea_cache = {}

    def ea_of(op):
        # the effective address is computed once, from the pre-instruction register values
        k = id(op)
        if k not in ea_cache:
            ea_cache[k] = st.ea(op[1], next_ip)
        return ea_cache[k]

    def rd(op, size=None):
        if op[0] == "reg": return st.get_reg(op[1])
        if op[0] == "imm": return bv(op[1], op[2])
        a = ea_of(op)
        r.accessed.append((a, op[1]["size"] // 8, True))
        return st.load(a, op[1]["size"])

    def wr(op, val, late_ea=False):
        if op[0] == "reg": st.set_reg(op[1], val); return
        a = st.ea(op[1], next_ip) if late_ea else ea_of(op)
        r.accessed.append((a, val.size() // 8, True))
        st.store(a, val)

    def sx(v, size):
        return z3.SignExt(size - v.size(), v) if v.size() < size else v

    def set_zs(res):
        st.flags["ZF"] = b1(res == 0)
        st.flags["SF"] = msb(res)

    def add_flags(a, b, cin, res):
        w = a.size()
        wide = z3.ZeroExt(1, a) + z3.ZeroExt(1, b) + z3.ZeroExt(w, cin)
        st.flags["CF"] = bit(wide, w)
        st.flags["OF"] = b1(z3.And(msb(a) == msb(b), msb(res) != msb(a)))
        set_zs(res)

    def sub_flags(a, b, cin, res):
        w = a.size()
        st.flags["CF"] = b1(z3.ULT(z3.ZeroExt(1, a), z3.ZeroExt(1, b) + z3.ZeroExt(w, cin)))
        st.flags["OF"] = b1(z3.And(msb(a) != msb(b), msb(res) != msb(a)))
        set_zs(res)

    def logic_flags(res):
        st.flags["CF"] = bv(0, 1); st.flags["OF"] = bv(0, 1); set_zs(res)

    def sp_name(): return "rsp" if W == 64 else "esp"

    def push(val):
        sp = st.full(sp_name()) - bv(val.size() // 8, W)
        st.regs[sp_name()] = sp
        a = z3.ZeroExt(64 - W, sp) if W < 64 else sp
        r.accessed.append((a, val.size() // 8, True))
        st.store(a, val)

    def pop(size):
        sp = st.full(sp_name())
        a = z3.ZeroExt(64 - W, sp) if W < 64 else sp
        r.accessed.append((a, size // 8, True))
        v = st.load(a, size)
        st.regs[sp_name()] = sp + bv(size // 8, W)
        return v

    def to_pc(v):   # value of mode width -> 64
        return z3.ZeroExt(64 - v.size(), v) if v.size() < 64 else v

    # ------------------------------------------------------------ ALU --
    if mn in ("add", "adc", "sub", "sbb", "cmp", "and", "or", "xor", "test"):
        a_op, b_op = ops
        a = rd(a_op); b = sx(rd(b_op), a.size())
        if mn in ("adc", "sbb"):
            r.classes = {"cf_in=0": st.flag("CF") == 0, "cf_in=1": st.flag("CF") == 1}
        if mn in ("add", "adc"):
            cin = st.flag("CF") if mn == "adc" else bv(0, 1)
            res = a + b + z3.ZeroExt(a.size() - 1, cin)
            add_flags(a, b, cin, res); wr(a_op, res)
        elif mn in ("sub", "sbb", "cmp"):
            cin = st.flag("CF") if mn == "sbb" else bv(0, 1)
            res = a - b - z3.ZeroExt(a.size() - 1, cin)
            sub_flags(a, b, cin, res)
            if mn != "cmp": wr(a_op, res)
        else:
            res = {"and": a & b, "test": a & b, "or": a | b, "xor": a ^ b}[mn]
            logic_flags(res)
            if mn != "test": wr(a_op, res)
    elif mn == "mov":
        a_op, b_op = ops
        v = rd(b_op)
        wr(a_op, sx(v, opsize(a_op)))
    elif mn == "movnti":
        wr(ops[0], rd(ops[1]))
    elif mn == "lea":
        a_op, b_op = ops
        a = st.ea(b_op[1], next_ip)
        s = opsize(a_op)
        wr(a_op, z3.Extract(s - 1, 0, a))
    elif mn in ("inc", "dec"):
        a = rd(ops[0]); one = bv(1, a.size())
        cf = st.flag("CF")
        if mn == "inc":
            res = a + one; add_flags(a, one, bv(0, 1), res)
        else:
            res = a - one; sub_flags(a, one, bv(0, 1), res)
        st.flags["CF"] = cf
        wr(ops[0], res)
    elif mn == "not":
        wr(ops[0], ~rd(ops[0]))
    elif mn == "neg":
        a = rd(ops[0]); res = -a
        sub_flags(bv(0, a.size()), a, bv(0, 1), res)
        wr(ops[0], res)
    elif mn in ("mul", "imul1"):
        a = rd(ops[0]); s = a.size()
        acc = st.get_reg({8: "al", 16: "ax", 32: "eax", 64: "rax"}[s])
        if mn == "mul":
            p = z3.ZeroExt(s, acc) * z3.ZeroExt(s, a)
            hi = z3.Extract(2 * s - 1, s, p)
            cf = b1(hi != 0)
        else:
            p = z3.SignExt(s, acc) * z3.SignExt(s, a)
            cf = b1(p != z3.SignExt(s, z3.Extract(s - 1, 0, p)))
        lo = z3.Extract(s - 1, 0, p); hi = z3.Extract(2 * s - 1, s, p)
        if s == 8:
            st.set_reg("ax", p)
        else:
            st.set_reg({16: "ax", 32: "eax", 64: "rax"}[s], lo)
            st.set_reg({16: "dx", 32: "edx", 64: "rdx"}[s], hi)
        st.flags["CF"] = cf; st.flags["OF"] = cf
        r.undef_flags["ZF"] = True; r.undef_flags["SF"] = True
    elif mn in ("imul2", "imul3"):
        a = rd(ops[1]); s = a.size()
        b = rd(ops[0]) if mn == "imul2" else sx(rd(ops[2]), s)
        p = z3.SignExt(s, a) * z3.SignExt(s, b)
        lo = z3.Extract(s - 1, 0, p)
        cf = b1(p != z3.SignExt(s, lo))
        wr(ops[0], lo)
        st.flags["CF"] = cf; st.flags["OF"] = cf
        r.undef_flags["ZF"] = True; r.undef_flags["SF"] = True
    elif mn in ("div", "idiv"):
        dv = rd(ops[0]); s = dv.size()
        if s == 8:
            dividend = st.get_reg("ax")
        else:
            dividend = z3.Concat(st.get_reg({16: "dx", 32: "edx", 64: "rdx"}[s]),
                                 st.get_reg({16: "ax", 32: "eax", 64: "rax"}[s]))
        r.assume.append(dv != 0)
        if mn == "div":
            d2 = z3.ZeroExt(s, dv)
            q = z3.UDiv(dividend, d2); rem = z3.URem(dividend, d2)
            r.assume.append(z3.Extract(2 * s - 1, s, q) == 0)
        else:
            d2 = z3.SignExt(s, dv)
            q = dividend / d2; rem = z3.SRem(dividend, d2)
            r.assume.append(q == z3.SignExt(s, z3.Extract(s - 1, 0, q)))
        ql = z3.Extract(s - 1, 0, q); rl = z3.Extract(s - 1, 0, rem)
        if s == 8:
            st.set_reg("ax", z3.Concat(rl, ql))
        else:
            st.set_reg({16: "ax", 32: "eax", 64: "rax"}[s], ql)
            st.set_reg({16: "dx", 32: "edx", 64: "rdx"}[s], rl)
        for f in ("CF", "ZF", "SF", "OF"): r.undef_flags[f] = True
    # --------------------------------------------------------- shifts --
    elif mn in ("shl", "shr", "sar", "rol", "ror"):
        a = rd(ops[0]); s = a.size()
        cnt8 = rd(ops[1])
        cnt8 = z3.Extract(7, 0, cnt8) if cnt8.size() > 8 else cnt8
        m = cnt8 & bv(0x3f if s == 64 else 0x1f, 8)
        c = z3.ZeroExt(s - 8, m) if s > 8 else m
        zero = (m == 0)
        mk = 0x3f if s == 64 else 0x1f
        r.classes = {"count=0": cnt8 == 0, "count=1": cnt8 == 1, "1<count<width": z3.And(z3.UGT(cnt8, 1), z3.ULT(cnt8, s)),
                     "width<=count<=mask": z3.And(z3.UGE(cnt8, s), z3.ULE(cnt8, mk)), "count>mask": z3.UGT(cnt8, mk)}
        if mn in ("shl", "shr", "sar"):
            if mn == "shl":
                res = z3.If(z3.UGE(c, s), bv(0, s), a << c)
                cf_new = bit(z3.ZeroExt(1, a) << z3.ZeroExt(1, c), s)
                r.undef_flags["CF"] = z3.UGE(c, s)
                of1 = msb(res) ^ cf_new
            elif mn == "shr":
                res = z3.If(z3.UGE(c, s), bv(0, s), z3.LShR(a, c))
                cf_new = bit(z3.LShR(z3.Concat(a, bv(0, 1)), z3.ZeroExt(1, c)), 0)
                r.undef_flags["CF"] = z3.UGE(c, s)
                of1 = msb(a)
            else:
                cc_ = z3.If(z3.UGE(c, s), bv(s - 1, s), c)
                res = a >> cc_
                cf_new = bit(z3.Concat(a, bv(0, 1)) >> z3.ZeroExt(1, z3.If(z3.UGE(c, s), bv(s, s), c)), 0)
                r.undef_flags["CF"] = False
                of1 = bv(0, 1)
            st.flags["CF"] = z3.If(zero, st.flag("CF"), cf_new)
            st.flags["ZF"] = z3.If(zero, st.flag("ZF"), b1(res == 0))
            st.flags["SF"] = z3.If(zero, st.flag("SF"), msb(res))
            st.flags["OF"] = z3.If(zero, st.flag("OF"), of1)
            r.undef_flags["OF"] = z3.And(z3.Not(zero), m != 1)
            wr(ops[0], z3.If(zero, a, res))
        else:
            k = z3.URem(c, bv(s, s))
            if mn == "rol":
                res = z3.RotateLeft(a, k)
                cf_new = bit(res, 0)
                of1 = msb(res) ^ cf_new
            else:
                res = z3.RotateRight(a, k)
                cf_new = msb(res)
                of1 = msb(res) ^ bit(res, s - 2)
            st.flags["CF"] = z3.If(zero, st.flag("CF"), cf_new)
            st.flags["OF"] = z3.If(zero, st.flag("OF"), of1)
            r.undef_flags["OF"] = z3.And(z3.Not(zero), m != 1)
            wr(ops[0], res)
    elif mn in ("shld", "shrd"):
        a = rd(ops[0]); b = rd(ops[1]); s = a.size()
        cnt = rd(ops[2]); cnt = z3.Extract(7, 0, cnt) if cnt.size() > 8 else cnt
        cnt8 = cnt
        m = cnt & bv(0x3f if s == 64 else 0x1f, 8)
        c = z3.ZeroExt(2 * s - 8, m)
        zero = (m == 0)
        mk = 0x3f if s == 64 else 0x1f
        r.classes = {"count=0": cnt8 == 0, "count=1": cnt8 == 1, "1<count<width": z3.And(z3.UGT(cnt8, 1), z3.ULT(cnt8, s)),
                     "width<=count<=mask": z3.And(z3.UGE(cnt8, s), z3.ULE(cnt8, mk)), "count>mask": z3.UGT(cnt8, mk)}
        r.assume.append(z3.ULE(m, s))   # count > operand size: result undefined (16-bit forms)
        if mn == "shld":
            wide = z3.Concat(a, b) << c
            res = z3.Extract(2 * s - 1, s, wide)
            cf_new = bit(z3.LShR(z3.ZeroExt(s, a), bv(s, 2 * s) - c), 0)
        else:
            wide = z3.LShR(z3.Concat(b, a), c)
            res = z3.Extract(s - 1, 0, wide)
            cf_new = bit(z3.LShR(z3.Concat(a, bv(0, s)), c), s - 1)
        st.flags["CF"] = z3.If(zero, st.flag("CF"), cf_new)
        st.flags["ZF"] = z3.If(zero, st.flag("ZF"), b1(res == 0))
        st.flags["SF"] = z3.If(zero, st.flag("SF"), msb(res))
        st.flags["OF"] = z3.If(zero, st.flag("OF"), msb(res) ^ msb(a))
        r.undef_flags["OF"] = z3.And(z3.Not(zero), m != 1)
        wr(ops[0], z3.If(zero, a, res))
    # ------------------------------------------------------ bit tests --
    elif mn in ("bt", "bts", "btr", "btc"):
        s = opsize(ops[0])
        off = rd(ops[1])
        r.classes = {"offset<width": z3.ULT(off, s) if s < (1 << off.size()) else z3.BoolVal(True),
                     "offset>=width": z3.UGE(off, s) if s < (1 << off.size()) else z3.BoolVal(False)}
        if ops[0][0] == "mem" and ops[1][0] == "reg":
            # bit string addressing: byte address = ea + (offset >> 3) signed; use operand-size chunks
            o = off
            base = st.ea(ops[0][1], next_ip)
            chunk = z3.SignExt(64 - s, o >> bv({16: 4, 32: 5, 64: 6}[s], s)) * bv(s // 8, 64)
            addr = base + chunk
            if W == 32:
                addr = addr & bv(0xffffffff, 64)
            r.accessed.append((addr, s // 8, True))
            a = st.load(addr, s)
            idx = o & bv(s - 1, s)
            mask = bv(1, s) << idx
            st.flags["CF"] = bit(z3.LShR(a, idx), 0)
            if mn != "bt":
                new = {"bts": a | mask, "btr": a & ~mask, "btc": a ^ mask}[mn]
                st.store(addr, new)
        else:
            a = rd(ops[0])
            o = z3.ZeroExt(s - off.size(), off) if off.size() < s else off
            idx = o & bv(s - 1, s)
            mask = bv(1, s) << idx
            st.flags["CF"] = bit(z3.LShR(a, idx), 0)
            if mn != "bt":
                wr(ops[0], {"bts": a | mask, "btr": a & ~mask, "btc": a ^ mask}[mn])
        for f in ("OF", "SF"): r.undef_flags[f] = True
        # ZF unchanged
    elif mn in ("bsf", "bsr"):
        src = rd(ops[1]); s = src.size()
        st.flags["ZF"] = b1(src == 0)
        res = bv(0, s)
        rng = range(s - 1, -1, -1) if mn == "bsf" else range(s)
        for i in rng:
            res = z3.If(bit(src, i) == 1, bv(i, s), res)
        r.assume.append(src != 0)            # destination undefined when source is zero
        wr(ops[0], res)
        for f in ("CF", "OF", "SF"): r.undef_flags[f] = True
    elif mn == "bswap":
        a = rd(ops[0]); s = a.size()
        if s == 16: raise Unsupported("bswap r16 undefined")
        wr(ops[0], z3.Concat(*[z3.Extract(8 * i + 7, 8 * i, a) for i in range(s // 8)]))
    elif mn in ("movzx", "movsx", "movsxd"):
        v = rd(ops[1]); s = opsize(ops[0])
        wr(ops[0], z3.ZeroExt(s - v.size(), v) if mn == "movzx" else z3.SignExt(s - v.size(), v) if v.size() < s else v)
    elif mn == "xchg":
        a = rd(ops[0]); b = rd(ops[1])
        wr(ops[0], b); wr(ops[1], a)
    elif mn == "xadd":
        a = rd(ops[0]); b = rd(ops[1]); res = a + b
        add_flags(a, b, bv(0, 1), res)
        wr(ops[1], a); wr(ops[0], res)
    elif mn == "cmpxchg":
        a = rd(ops[0]); s = a.size()
        accn = {8: "al", 16: "ax", 32: "eax", 64: "rax"}[s]
        acc = st.get_reg(accn); src = rd(ops[1])
        res = acc - a
        sub_flags(acc, a, bv(0, 1), res)
        eq = acc == a
        r.classes = {"equal": eq, "not-equal": z3.Not(eq)}
        # destination: written with src when equal; otherwise left alone (a 32-bit register
        # destination is not zero-extended then - confirmed on the host CPU)
        if ops[0][0] == "reg":
            fn = full_reg(ops[0][1], W)
            before = st.full(fn)
            st.set_reg(ops[0][1], src)
            st.regs[fn] = z3.If(eq, st.regs[fn], before)
        else:
            wr(ops[0], z3.If(eq, src, a))
        fa = full_reg(accn, W)
        before = st.full(fa)
        st.set_reg(accn, a)
        st.regs[fa] = z3.If(eq, before, st.regs[fa])
    elif mn == "setcc":
        wr(ops[0], z3.ZeroExt(7, b1(cond_of(st, d["cc"]))))
    elif mn == "cmovcc":
        c = cond_of(st, d["cc"])
        r.classes = {"taken": c, "not-taken": z3.Not(c)}
        a = rd(ops[0]); b = rd(ops[1])
        wr(ops[0], z3.If(c, b, a))        # 32-bit form zero-extends even when not moved
    elif mn == "jcc":
        tgt = (next_ip + d["rel"]) & ((1 << W) - 1)
        r.next_pc = z3.If(cond_of(st, d["cc"]), bv(tgt, 64), bv(next_ip, 64))
    elif mn in ("loop", "loope", "loopne"):
        cn = "rcx" if W == 64 else "ecx"
        c = st.full(cn) - bv(1, W)
        st.regs[cn] = c
        cond = c != 0
        if mn == "loope": cond = z3.And(cond, st.flag("ZF") == 1)
        if mn == "loopne": cond = z3.And(cond, st.flag("ZF") == 0)
        tgt = (next_ip + d["rel"]) & ((1 << W) - 1)
        r.next_pc = z3.If(cond, bv(tgt, 64), bv(next_ip, 64))
    elif mn == "jcxz":
        cn = "rcx" if W == 64 else "ecx"
        tgt = (next_ip + d["rel"]) & ((1 << W) - 1)
        r.next_pc = z3.If(st.full(cn) == 0, bv(tgt, 64), bv(next_ip, 64))
    elif mn == "jmp":
        if ops:
            r.next_pc = to_pc(rd(ops[0]))
        else:
            r.next_pc = bv((next_ip + d["rel"]) & ((1 << W) - 1), 64)
    elif mn == "call":
        if ops and ops[0][0] == "reg" and full_reg(ops[0][1], W) == sp_name():
            r.classes = {"target=stack-pointer": z3.BoolVal(True)}
        if ops:
            t = rd(ops[0])
            push(bv(next_ip, W))
            r.next_pc = to_pc(t)
        else:
            push(bv(next_ip, W))
            r.next_pc = bv((next_ip + d["rel"]) & ((1 << W) - 1), 64)
    elif mn == "ret":
        t = pop(W)
        if ops:
            st.regs[sp_name()] = st.full(sp_name()) + bv(ops[0][1], W)
        r.next_pc = to_pc(t)
    elif mn == "push":
        if ops[0][0] == "reg" and full_reg(ops[0][1], W) == sp_name():
            r.classes = {"operand=stack-pointer": z3.BoolVal(True)}
        elif opsize(ops[0]) == 16:
            r.classes = {"16-bit operand": z3.BoolVal(True)}
        v = rd(ops[0])
        s = v.size()
        if ops[0][0] == "imm":
            v = sx(v, W)
        elif s == 16:
            pass
        elif s != W:
            raise Unsupported("push size")
        push(v)
    elif mn == "pop":
        s = opsize(ops[0])
        if s not in (16, W): raise Unsupported("pop size")
        v = pop(s)
        wr(ops[0], v, late_ea=True)       # memory destination address is computed after rsp is incremented
    elif mn == "leave":
        bp = "rbp" if W == 64 else "ebp"
        st.regs[sp_name()] = st.full(bp)
        st.regs[bp] = pop(W)
    elif mn in ("cbw", "cwde", "cdqe"):
        srcn, dstn = {"cbw": ("al", "ax"), "cwde": ("ax", "eax"), "cdqe": ("eax", "rax")}[mn]
        st.set_reg(dstn, z3.SignExt(REGINFO[dstn][0] - REGINFO[srcn][0], st.get_reg(srcn)))
    elif mn in ("cwd", "cdq", "cqo"):
        srcn, dstn = {"cwd": ("ax", "dx"), "cdq": ("eax", "edx"), "cqo": ("rax", "rdx")}[mn]
        a = st.get_reg(srcn); s = a.size()
        st.set_reg(dstn, z3.If(msb(a) == 1, bv(-1, s), bv(0, s)))
    elif mn in ("clc", "stc", "cmc", "cld", "std"):
        if mn == "clc": st.flags["CF"] = bv(0, 1)
        if mn == "stc": st.flags["CF"] = bv(1, 1)
        if mn == "cmc": st.flags["CF"] = ~st.flag("CF")
        if mn == "cld": st.flags["DF"] = bv(0, 1)
        if mn == "std": st.flags["DF"] = bv(1, 1)
    elif mn in ("cli", "sti"):
        pass                                    # IF is not an observable of C01
    elif mn == "sahf":
        ah = st.get_reg("ah")
        st.flags["SF"] = bit(ah, 7); st.flags["ZF"] = bit(ah, 6); st.flags["CF"] = bit(ah, 0)
    elif mn in ("nop", "pause", "wait") or mn.startswith("prefetch"):
        pass
    elif mn == "hlt":
        r.next_pc = None
    elif mn in ("int", "syscall", "sysenter", "ud2"):
        r.intrinsic = True
    # ---------------------------------------------------------- string --
    elif mn in ("movs", "cmps", "stos", "lods", "scas"):
        s = d["size"]; n = s // 8
        si, di, cx = ("rsi", "rdi", "rcx") if W == 64 else ("esi", "edi", "ecx")
        accn = {8: "al", 16: "ax", 32: "eax", 64: "rax"}[s]
        rep = d.get("rep")
        K = d.get("max_count", 0)

        def a64(v): return z3.ZeroExt(64 - W, v) if W < 64 else v
        delta = z3.If(st.flag("DF") == 1, bv(-n, W), bv(n, W))

        def one():
            if mn == "movs":
                a = a64(st.full(si)); b_ = a64(st.full(di))
                r.accessed.append((a, n, True)); r.accessed.append((b_, n, True))
                st.store(b_, st.load(a, s))
                st.regs[si] = st.full(si) + delta; st.regs[di] = st.full(di) + delta
            elif mn == "stos":
                b_ = a64(st.full(di)); r.accessed.append((b_, n, True))
                st.store(b_, st.get_reg(accn))
                st.regs[di] = st.full(di) + delta
            elif mn == "lods":
                a = a64(st.full(si)); r.accessed.append((a, n, True))
                st.set_reg(accn, st.load(a, s))
                st.regs[si] = st.full(si) + delta
            elif mn == "scas":
                b_ = a64(st.full(di)); r.accessed.append((b_, n, True))
                x = st.get_reg(accn); y = st.load(b_, s)
                sub_flags(x, y, bv(0, 1), x - y)
                st.regs[di] = st.full(di) + delta
            elif mn == "cmps":
                a = a64(st.full(si)); b_ = a64(st.full(di))
                r.accessed.append((a, n, True)); r.accessed.append((b_, n, True))
                x = st.load(a, s); y = st.load(b_, s)
                sub_flags(x, y, bv(0, 1), x - y)
                st.regs[si] = st.full(si) + delta; st.regs[di] = st.full(di) + delta
        if not rep:
            one()
        else:
            # bounded unrolling: count register assumed <= K
            r.assume.append(z3.ULE(st.full(cx), bv(K, W)))
            r.classes = {"count=0": st.full(cx) == 0, "count>0": st.full(cx) != 0}
            active = z3.BoolVal(True)
            for i in range(K):
                going = z3.And(active, st.full(cx) != 0)
                snap_regs = dict(st.regs); snap_flags = dict(st.flags); snap_mem = st.mem
                # make sure registers touched are materialised before snapshot comparison
                for nme in (si, di, cx, full_reg(accn, W)): st.full(nme)
                for f in FLAGS: st.flag(f)
                snap_regs = dict(st.regs); snap_flags = dict(st.flags); snap_mem = st.mem
                nacc = len(r.accessed)
                one()
                st.regs[cx] = st.full(cx) - bv(1, W)
                # guard accessed ranges: only matter when the iteration runs
                r.accessed[nacc:] = [(a, nb, going) for (a, nb, _) in r.accessed[nacc:]]
                for k2 in list(st.regs):
                    st.regs[k2] = z3.If(going, st.regs[k2], snap_regs[k2]) if k2 in snap_regs and st.regs[k2] is not snap_regs[k2] else st.regs[k2]
                for k2 in list(st.flags):
                    st.flags[k2] = z3.If(going, st.flags[k2], snap_flags[k2]) if st.flags[k2] is not snap_flags[k2] else st.flags[k2]
                st.mem = z3.If(going, st.mem, snap_mem)
                cont = going
                if mn in ("scas", "cmps"):
                    zf = st.flag("ZF") == 1
                    cont = z3.And(going, zf if rep == "rep" else z3.Not(zf))
                active = cont
    # ------------------------------------------------------------- SSE --
    elif mn in ("movdqa", "movdqu", "movaps", "movapd", "movups"):
        if d.get("form") == "store": wr(ops[0], rd(ops[1]))
        else: wr(ops[0], rd(ops[1]))
    elif mn == "movq":          # movq xmm, xmm/m64: zero-extends to 128
        v = rd(ops[1]); v = z3.Extract(63, 0, v) if v.size() == 128 else v
        wr(ops[0], z3.ZeroExt(64, v))
    elif mn == "movq_store":    # movq xmm/m64, xmm
        v = z3.Extract(63, 0, rd(ops[1]))
        wr(ops[0], z3.ZeroExt(64, v) if opsize(ops[0]) == 128 else v)
    elif mn in ("movq_gpr", "movd"):
        s = 64 if mn == "movq_gpr" else 32
        if d.get("form") == "store":
            wr(ops[0], z3.Extract(s - 1, 0, rd(ops[1])))
        else:
            wr(ops[0], z3.ZeroExt(128 - s, rd(ops[1])))
    elif mn in ("paddq", "psubq", "psubb", "pxor", "por", "pcmpeqb", "pcmpeqd", "pminub", "punpcklbw", "punpcklwd"):
        a = rd(ops[0]); b = rd(ops[1])

        def lanes(x, w): return [z3.Extract(w * i + w - 1, w * i, x) for i in range(128 // w)]

        def join(ls): return z3.Concat(*reversed(ls))
        if mn == "pxor": res = a ^ b
        elif mn == "por": res = a | b
        elif mn == "paddq": res = join([x + y for x, y in zip(lanes(a, 64), lanes(b, 64))])
        elif mn == "psubq": res = join([x - y for x, y in zip(lanes(a, 64), lanes(b, 64))])
        elif mn == "psubb": res = join([x - y for x, y in zip(lanes(a, 8), lanes(b, 8))])
        elif mn == "pcmpeqb": res = join([z3.If(x == y, bv(0xff, 8), bv(0, 8)) for x, y in zip(lanes(a, 8), lanes(b, 8))])
        elif mn == "pcmpeqd": res = join([z3.If(x == y, bv(0xffffffff, 32), bv(0, 32)) for x, y in zip(lanes(a, 32), lanes(b, 32))])
        elif mn == "pminub": res = join([z3.If(z3.ULT(x, y), x, y) for x, y in zip(lanes(a, 8), lanes(b, 8))])
        elif mn == "punpcklbw":
            la, lb = lanes(a, 8), lanes(b, 8); out = []
            for i in range(8): out += [la[i], lb[i]]
            res = join(out)
        else:
            la, lb = lanes(a, 16), lanes(b, 16); out = []
            for i in range(4): out += [la[i], lb[i]]
            res = join(out)
        wr(ops[0], res)
    elif mn == "pshufd":
        b = rd(ops[1]); order = ops[2][1]
        l = [z3.Extract(32 * i + 31, 32 * i, b) for i in range(4)]
        wr(ops[0], z3.Concat(*reversed([l[(order >> (2 * i)) & 3] for i in range(4)])))
    elif mn in ("pslldq", "psrldq"):
        a = rd(ops[0]); n = min(ops[1][1], 16)
        wr(ops[0], (a << bv(8 * n, 128)) if mn == "pslldq" else z3.LShR(a, bv(8 * n, 128)) if n < 16 else bv(0, 128))
    elif mn == "pmovmskb":
        b = rd(ops[1])
        msk = z3.Concat(*[bit(b, 8 * i + 7) for i in range(15, -1, -1)])
        wr(ops[0], z3.ZeroExt(opsize(ops[0]) - 16, msk))
    elif mn in ("movhpd", "movlpd"):
        if d.get("form") == "store":
            x = rd(ops[1])
            wr(ops[0], z3.Extract(127, 64, x) if mn == "movhpd" else z3.Extract(63, 0, x))
        else:
            x = rd(ops[0]); m64 = rd(ops[1])
            wr(ops[0], z3.Concat(m64, z3.Extract(63, 0, x)) if mn == "movhpd" else z3.Concat(z3.Extract(127, 64, x), m64))
    else:
        raise Unsupported(mn)
    return st, r
