"""x86 / amd64 encoder: abstract instruction description -> bytes.

The description (not capstone) is what the reference semantics in specs/x86.py read,
so a capstone mis-decode or a wrong operand-size guess in the lifter shows up as a
semantic difference.

Operands:  ("reg", name) | ("mem", dict(base, index, scale, disp, seg, size)) | ("imm", value, size)
"""

R64 = ["rax", "rcx", "rdx", "rbx", "rsp", "rbp", "rsi", "rdi"] + [f"r{i}" for i in range(8, 16)]
R32 = ["eax", "ecx", "edx", "ebx", "esp", "ebp", "esi", "edi"] + [f"r{i}d" for i in range(8, 16)]
R16 = ["ax", "cx", "dx", "bx", "sp", "bp", "si", "di"] + [f"r{i}w" for i in range(8, 16)]
R8 = ["al", "cl", "dl", "bl", "spl", "bpl", "sil", "dil"] + [f"r{i}b" for i in range(8, 16)]
R8H = {"ah": 4, "ch": 5, "dh": 6, "bh": 7}
XMM = [f"xmm{i}" for i in range(16)]

REGINFO = {}  # name -> (size, number, kind)   kind: 'n' normal, 'h' high byte, 'r' needs-REX 8-bit low (spl..dil)
for i, n in enumerate(R64): REGINFO[n] = (64, i, 'n')
for i, n in enumerate(R32): REGINFO[n] = (32, i, 'n')
for i, n in enumerate(R16): REGINFO[n] = (16, i, 'n')
for i, n in enumerate(R8): REGINFO[n] = (8, i, 'r' if 4 <= i <= 7 else 'n')
for n, i in R8H.items(): REGINFO[n] = (8, i, 'h')
for i, n in enumerate(XMM): REGINFO[n] = (128, i, 'n')


def full_reg(name, mode):
    """Name of the full-width register containing `name` in the given mode."""
    size, num, kind = REGINFO[name]
    if size == 128:
        return name
    if kind == 'h':
        num -= 4
    return (R64 if mode == 64 else R32)[num]


class EncErr(Exception):
    pass


def reg(name): return ("reg", name)


def mem(size, base=None, index=None, scale=1, disp=0, seg=None):
    return ("mem", dict(base=base, index=index, scale=scale, disp=disp, seg=seg, size=size))


def imm(value, size): return ("imm", value & ((1 << size) - 1), size)


def opsize(op):
    if op[0] == "reg": return REGINFO[op[1]][0]
    if op[0] == "mem": return op[1]["size"]
    return op[2]


def le(v, nbytes):
    return bytes((v >> (8 * i)) & 0xff for i in range(nbytes))


class Enc:
    """Accumulates the parts of one instruction."""

    def __init__(self, mode):
        self.mode = mode
        self.prefix = b""
        self.rex_w = self.rex_r = self.rex_x = self.rex_b = 0
        self.need_rex = False
        self.no_rex = False
        self.opcode = b""
        self.modrm = b""
        self.tail = b""
        self.rip_fixup = None   # (offset in modrm bytes of disp32, target)

    def use_reg_field(self, name):
        size, num, kind = REGINFO[name]
        if kind == 'h': self.no_rex = True
        if kind == 'r': self.need_rex = True
        if num >= 8:
            self.rex_r = 1
        return num & 7

    def use_rm_reg(self, name):
        size, num, kind = REGINFO[name]
        if kind == 'h': self.no_rex = True
        if kind == 'r': self.need_rex = True
        if num >= 8:
            self.rex_b = 1
        return num & 7

    def set_modrm(self, regfield, rm):
        if rm[0] == "reg":
            self.modrm = bytes([0xC0 | (regfield << 3) | self.use_rm_reg(rm[1])])
            return
        m = rm[1]
        if m["seg"] == "fs": self.prefix += b"\x64"
        elif m["seg"] == "gs": self.prefix += b"\x65"
        base, index, scale, disp = m["base"], m["index"], m["scale"], m["disp"]
        aw = self.mode
        regs = R64 if aw == 64 else R32

        def num(r):
            if r not in regs:
                raise EncErr(f"address register {r} not valid in {aw}-bit addressing")
            return regs.index(r)
        ss = {1: 0, 2: 1, 4: 2, 8: 3}[scale]
        if base == "rip":
            if aw != 64 or index: raise EncErr("rip-relative")
            self.modrm = bytes([(regfield << 3) | 5]) + le(disp & 0xffffffff, 4)
            return
        if base is None and index is None:
            if aw == 64:
                self.modrm = bytes([(regfield << 3) | 4, 0x25]) + le(disp & 0xffffffff, 4)
            else:
                self.modrm = bytes([(regfield << 3) | 5]) + le(disp & 0xffffffff, 4)
            return
        if index is not None:
            xi = num(index)
            if xi == 4: raise EncErr("rsp/esp cannot be an index")
            if xi >= 8: self.rex_x = 1
            xi &= 7
        else:
            xi = 4
        if base is None:
            # [index*scale + disp32]
            self.modrm = bytes([(regfield << 3) | 4, (ss << 6) | (xi << 3) | 5]) + le(disp & 0xffffffff, 4)
            return
        bn = num(base)
        if bn >= 8: self.rex_b = 1
        bl = bn & 7
        if disp == 0 and bl != 5:
            mod, d = 0, b""
        elif -128 <= disp <= 127:
            mod, d = 1, le(disp & 0xff, 1)
        else:
            mod, d = 2, le(disp & 0xffffffff, 4)
        if index is not None or bl == 4:
            self.modrm = bytes([(mod << 6) | (regfield << 3) | 4, (ss << 6) | (xi << 3) | bl]) + d
        else:
            self.modrm = bytes([(mod << 6) | (regfield << 3) | bl]) + d

    def bytes(self):
        rex = b""
        if self.rex_w or self.rex_r or self.rex_x or self.rex_b or self.need_rex:
            if self.mode != 64:
                raise EncErr("REX needed in 32-bit mode")
            if self.no_rex:
                raise EncErr("high-byte register with REX")
            rex = bytes([0x40 | (self.rex_w << 3) | (self.rex_r << 2) | (self.rex_x << 1) | self.rex_b])
        return self.prefix + rex + self.opcode + self.modrm + self.tail


def _osize_prefix(e, size, allow8=False):
    """Operand-size handling for general instructions. size in {8,16,32,64}."""
    if size == 16:
        e.prefix += b"\x66"
    elif size == 64:
        if e.mode != 64: raise EncErr("64-bit operand in 32-bit mode")
        e.rex_w = 1
    elif size == 8 and not allow8:
        raise EncErr("8-bit not allowed")


def imm_bytes(size, v):
    return le(v & ((1 << size) - 1), size // 8)


ALU = {"add": 0, "or": 1, "adc": 2, "sbb": 3, "and": 4, "sub": 5, "xor": 6, "cmp": 7}
SHIFT = {"rol": 0, "ror": 1, "rcl": 2, "rcr": 3, "shl": 4, "shr": 5, "sar": 7}
UNARY = {"not": 2, "neg": 3, "mul": 4, "imul1": 5, "div": 6, "idiv": 7}
CC = ["o", "no", "b", "ae", "e", "ne", "be", "a", "s", "ns", "p", "np", "l", "ge", "le", "g"]


def encode(mode, d):
    """d: dict with 'mn' and operands 'ops' (list) plus optional keys. Returns bytes."""
    e = Enc(mode)
    mn = d["mn"]
    ops = d.get("ops", [])
    form = d.get("form")
    if d.get("rep") == "rep": e.prefix += b"\xf3"
    if d.get("rep") == "repne": e.prefix += b"\xf2"

    def rm_r(op8, opw, rm, r, size=None):
        size = size or opsize(r)
        _osize_prefix(e, size, True)
        e.opcode = bytes([op8 if size == 8 else opw])
        e.set_modrm(e.use_reg_field(r[1]), rm)

    if mn in ALU or mn == "test":
        n = ALU.get(mn)
        a, b = ops
        size = opsize(a)
        if b[0] == "imm":
            _osize_prefix(e, size, True)
            if form == "acc":      # op al/ax/eax/rax, imm
                if mn == "test": e.opcode = bytes([0xA8 if size == 8 else 0xA9])
                else: e.opcode = bytes([8 * n + (4 if size == 8 else 5)])
                e.tail = imm_bytes(min(size, 32), b[1])
            elif mn == "test":
                e.opcode = bytes([0xF6 if size == 8 else 0xF7]); e.set_modrm(0, a)
                e.tail = imm_bytes(min(size, 32), b[1])
            elif size == 8:
                e.opcode = b"\x80"; e.set_modrm(n, a); e.tail = imm_bytes(8, b[1])
            elif b[2] == 8:        # sign-extended imm8
                e.opcode = b"\x83"; e.set_modrm(n, a); e.tail = imm_bytes(8, b[1])
            else:
                e.opcode = b"\x81"; e.set_modrm(n, a); e.tail = imm_bytes(min(size, 32), b[1])
        elif mn == "test":
            rm_r(0x84, 0x85, a, b)
        elif b[0] == "reg" and form != "load":
            rm_r(8 * n + 0, 8 * n + 1, a, b)
        else:
            rm_r(8 * n + 2, 8 * n + 3, b, a)
    elif mn == "mov":
        a, b = ops
        size = opsize(a)
        if b[0] == "imm":
            if a[0] == "reg" and form != "c7" and not (size == 64 and b[2] == 32):
                _osize_prefix(e, size, True)
                e.opcode = bytes([(0xB0 if size == 8 else 0xB8) + e.use_rm_reg(a[1])])
                e.tail = imm_bytes(size, b[1])          # 64-bit: movabs imm64
            else:
                _osize_prefix(e, size, True)
                e.opcode = bytes([0xC6 if size == 8 else 0xC7]); e.set_modrm(0, a)
                e.tail = imm_bytes(min(size, 32), b[1])
        elif b[0] == "reg" and form != "load":
            rm_r(0x88, 0x89, a, b)
        else:
            rm_r(0x8A, 0x8B, b, a)
    elif mn == "lea":
        a, b = ops
        _osize_prefix(e, opsize(a)); e.opcode = b"\x8d"; e.set_modrm(e.use_reg_field(a[1]), b)
    elif mn in ("inc", "dec"):
        a, = ops; size = opsize(a)
        _osize_prefix(e, size, True)
        e.opcode = bytes([0xFE if size == 8 else 0xFF]); e.set_modrm(0 if mn == "inc" else 1, a)
    elif mn in UNARY:
        a, = ops; size = opsize(a)
        _osize_prefix(e, size, True)
        e.opcode = bytes([0xF6 if size == 8 else 0xF7]); e.set_modrm(UNARY[mn], a)
    elif mn == "imul2":
        a, b = ops
        _osize_prefix(e, opsize(a)); e.opcode = b"\x0f\xaf"; e.set_modrm(e.use_reg_field(a[1]), b)
    elif mn == "imul3":
        a, b, c = ops
        size = opsize(a)
        _osize_prefix(e, size)
        if c[2] == 8:
            e.opcode = b"\x6b"; e.set_modrm(e.use_reg_field(a[1]), b); e.tail = imm_bytes(8, c[1])
        else:
            e.opcode = b"\x69"; e.set_modrm(e.use_reg_field(a[1]), b); e.tail = imm_bytes(min(size, 32), c[1])
    elif mn in SHIFT:
        a, b = ops; size = opsize(a)
        _osize_prefix(e, size, True)
        if b[0] == "imm" and form == "one":
            e.opcode = bytes([0xD0 if size == 8 else 0xD1]); e.set_modrm(SHIFT[mn], a)
        elif b[0] == "imm":
            e.opcode = bytes([0xC0 if size == 8 else 0xC1]); e.set_modrm(SHIFT[mn], a); e.tail = imm_bytes(8, b[1])
        else:
            e.opcode = bytes([0xD2 if size == 8 else 0xD3]); e.set_modrm(SHIFT[mn], a)
    elif mn in ("shld", "shrd"):
        a, b, c = ops; size = opsize(a)
        _osize_prefix(e, size)
        base = 0xA4 if mn == "shld" else 0xAC
        if c[0] == "imm":
            e.opcode = bytes([0x0f, base]); e.set_modrm(e.use_reg_field(b[1]), a); e.tail = imm_bytes(8, c[1])
        else:
            e.opcode = bytes([0x0f, base + 1]); e.set_modrm(e.use_reg_field(b[1]), a)
    elif mn in ("bt", "bts", "btr", "btc"):
        a, b = ops; size = opsize(a)
        _osize_prefix(e, size)
        if b[0] == "imm":
            e.opcode = b"\x0f\xba"; e.set_modrm({"bt": 4, "bts": 5, "btr": 6, "btc": 7}[mn], a); e.tail = imm_bytes(8, b[1])
        else:
            e.opcode = bytes([0x0f, {"bt": 0xA3, "bts": 0xAB, "btr": 0xB3, "btc": 0xBB}[mn]])
            e.set_modrm(e.use_reg_field(b[1]), a)
    elif mn in ("bsf", "bsr"):
        a, b = ops
        _osize_prefix(e, opsize(a)); e.opcode = bytes([0x0f, 0xBC if mn == "bsf" else 0xBD])
        e.set_modrm(e.use_reg_field(a[1]), b)
    elif mn == "bswap":
        a, = ops
        _osize_prefix(e, opsize(a)); e.opcode = bytes([0x0f, 0xC8 + e.use_rm_reg(a[1])])
    elif mn in ("movzx", "movsx"):
        a, b = ops
        _osize_prefix(e, opsize(a))
        o = (0xB6 if mn == "movzx" else 0xBE) + (1 if opsize(b) == 16 else 0)
        e.opcode = bytes([0x0f, o]); e.set_modrm(e.use_reg_field(a[1]), b)
    elif mn == "movsxd":
        a, b = ops
        _osize_prefix(e, opsize(a)); e.opcode = b"\x63"; e.set_modrm(e.use_reg_field(a[1]), b)
    elif mn == "xchg":
        a, b = ops; size = opsize(a)
        if form == "acc":
            _osize_prefix(e, size); e.opcode = bytes([0x90 + e.use_rm_reg(b[1])])
        else:
            rm_r(0x86, 0x87, a, b)
    elif mn == "xadd":
        a, b = ops
        size = opsize(a); _osize_prefix(e, size, True)
        e.opcode = bytes([0x0f, 0xC0 if size == 8 else 0xC1]); e.set_modrm(e.use_reg_field(b[1]), a)
    elif mn == "cmpxchg":
        a, b = ops
        size = opsize(a); _osize_prefix(e, size, True)
        e.opcode = bytes([0x0f, 0xB0 if size == 8 else 0xB1]); e.set_modrm(e.use_reg_field(b[1]), a)
    elif mn == "setcc":
        a, = ops
        e.opcode = bytes([0x0f, 0x90 + CC.index(d["cc"])]); e.set_modrm(0, a)
    elif mn == "cmovcc":
        a, b = ops
        _osize_prefix(e, opsize(a)); e.opcode = bytes([0x0f, 0x40 + CC.index(d["cc"])])
        e.set_modrm(e.use_reg_field(a[1]), b)
    elif mn == "jcc":
        rel = d["rel"]
        if d.get("near"):
            e.opcode = bytes([0x0f, 0x80 + CC.index(d["cc"])]); e.tail = le(rel & 0xffffffff, 4)
        else:
            e.opcode = bytes([0x70 + CC.index(d["cc"])]); e.tail = le(rel & 0xff, 1)
    elif mn in ("loop", "loope", "loopne", "jcxz"):
        e.opcode = bytes([{"loopne": 0xE0, "loope": 0xE1, "loop": 0xE2, "jcxz": 0xE3}[mn]]); e.tail = le(d["rel"] & 0xff, 1)
    elif mn == "jmp":
        if ops:
            e.opcode = b"\xff"; e.set_modrm(4, ops[0])
        elif d.get("near"):
            e.opcode = b"\xe9"; e.tail = le(d["rel"] & 0xffffffff, 4)
        else:
            e.opcode = b"\xeb"; e.tail = le(d["rel"] & 0xff, 1)
    elif mn == "call":
        if ops:
            e.opcode = b"\xff"; e.set_modrm(2, ops[0])
        else:
            e.opcode = b"\xe8"; e.tail = le(d["rel"] & 0xffffffff, 4)
    elif mn == "ret":
        if ops:
            e.opcode = b"\xc2"; e.tail = imm_bytes(16, ops[0][1])
        else:
            e.opcode = b"\xc3"
    elif mn == "push":
        a, = ops
        if a[0] == "imm":
            if a[2] == 8: e.opcode = b"\x6a"; e.tail = imm_bytes(8, a[1])
            else: e.opcode = b"\x68"; e.tail = imm_bytes(32, a[1])
        elif a[0] == "reg" and form != "ff":
            if opsize(a) == 16: e.prefix += b"\x66"
            e.opcode = bytes([0x50 + e.use_rm_reg(a[1])])
        else:
            if opsize(a) == 16: e.prefix += b"\x66"
            e.opcode = b"\xff"; e.set_modrm(6, a)
    elif mn == "pop":
        a, = ops
        if a[0] == "reg" and form != "8f":
            if opsize(a) == 16: e.prefix += b"\x66"
            e.opcode = bytes([0x58 + e.use_rm_reg(a[1])])
        else:
            if opsize(a) == 16: e.prefix += b"\x66"
            e.opcode = b"\x8f"; e.set_modrm(0, a)
    elif mn in ("movs", "cmps", "stos", "lods", "scas"):
        size = d["size"]
        _osize_prefix(e, size, True)
        base = {"movs": 0xA4, "cmps": 0xA6, "stos": 0xAA, "lods": 0xAC, "scas": 0xAE}[mn]
        e.opcode = bytes([base + (0 if size == 8 else 1)])
    elif mn in ("cbw", "cwde", "cdqe", "cwd", "cdq", "cqo"):
        if mn in ("cbw", "cwd"): e.prefix += b"\x66"
        if mn in ("cdqe", "cqo"): e.rex_w = 1
        e.opcode = b"\x98" if mn in ("cbw", "cwde", "cdqe") else b"\x99"
    elif mn in ("clc", "stc", "cmc", "cld", "std", "cli", "sti", "sahf", "nop", "hlt", "leave", "pause", "wait"):
        e.opcode = {"clc": b"\xf8", "stc": b"\xf9", "cmc": b"\xf5", "cld": b"\xfc", "std": b"\xfd", "cli": b"\xfa",
                    "sti": b"\xfb", "sahf": b"\x9e", "nop": b"\x90", "hlt": b"\xf4", "leave": b"\xc9",
                    "pause": b"\xf3\x90", "wait": b"\x9b"}[mn]
    elif mn == "int":
        e.opcode = b"\xcd"; e.tail = imm_bytes(8, ops[0][1])
    elif mn == "syscall": e.opcode = b"\x0f\x05"
    elif mn == "sysenter": e.opcode = b"\x0f\x34"
    elif mn == "ud2": e.opcode = b"\x0f\x0b"
    elif mn in SSE_RM:
        # xmm, xmm/m128 forms (load direction) and store direction with form="store"
        pfx, opc_load, opc_store = SSE_RM[mn]
        a, b = ops[0], ops[1]
        e.prefix += pfx
        if form == "store":
            if opc_store is None: raise EncErr("no store form")
            e.opcode = opc_store; e.set_modrm(e.use_reg_field(b[1]), a)
        else:
            e.opcode = opc_load; e.set_modrm(e.use_reg_field(a[1]), b)
        if len(ops) > 2:
            e.tail = imm_bytes(8, ops[2][1])
    elif mn in ("pslldq", "psrldq"):
        a, b = ops
        e.prefix += b"\x66"; e.opcode = b"\x0f\x73"; e.set_modrm(7 if mn == "pslldq" else 3, a); e.tail = imm_bytes(8, b[1])
    elif mn == "movq_gpr":      # movq xmm, r/m64  /  movq r/m64, xmm
        a, b = ops
        e.prefix += b"\x66"; e.rex_w = 1
        if form == "store":
            e.opcode = b"\x0f\x7e"; e.set_modrm(e.use_reg_field(b[1]), a)
        else:
            e.opcode = b"\x0f\x6e"; e.set_modrm(e.use_reg_field(a[1]), b)
    elif mn == "movd":
        a, b = ops
        e.prefix += b"\x66"
        if form == "store":
            e.opcode = b"\x0f\x7e"; e.set_modrm(e.use_reg_field(b[1]), a)
        else:
            e.opcode = b"\x0f\x6e"; e.set_modrm(e.use_reg_field(a[1]), b)
    elif mn == "pmovmskb":
        a, b = ops
        e.prefix += b"\x66"; e.opcode = b"\x0f\xd7"; e.set_modrm(e.use_reg_field(a[1]), b)
    elif mn == "movnti":
        a, b = ops
        if opsize(b) == 64: e.rex_w = 1
        e.opcode = b"\x0f\xc3"; e.set_modrm(e.use_reg_field(b[1]), a)
    elif mn.startswith("prefetch"):
        e.opcode = b"\x0f\x18"; e.set_modrm({"prefetchnta": 0, "prefetcht0": 1, "prefetcht1": 2, "prefetcht2": 3}[mn], ops[0])
    else:
        raise EncErr(f"no encoder for {mn}")
    return e.bytes()


# mnemonic -> (mandatory prefix, load opcode, store opcode)
SSE_RM = {
    "movdqa": (b"\x66", b"\x0f\x6f", b"\x0f\x7f"),
    "movdqu": (b"\xf3", b"\x0f\x6f", b"\x0f\x7f"),
    "movaps": (b"", b"\x0f\x28", b"\x0f\x29"),
    "movapd": (b"\x66", b"\x0f\x28", b"\x0f\x29"),
    "movups": (b"", b"\x0f\x10", b"\x0f\x11"),
    "movq": (b"\xf3", b"\x0f\x7e", None),         # movq xmm, xmm/m64
    "movq_store": (b"\x66", None, b"\x0f\xd6"),   # movq xmm/m64, xmm
    "paddq": (b"\x66", b"\x0f\xd4", None),
    "pxor": (b"\x66", b"\x0f\xef", None),
    "por": (b"\x66", b"\x0f\xeb", None),
    "pcmpeqb": (b"\x66", b"\x0f\x74", None),
    "pcmpeqd": (b"\x66", b"\x0f\x76", None),
    "pminub": (b"\x66", b"\x0f\xda", None),
    "pshufd": (b"\x66", b"\x0f\x70", None),
    "psubb": (b"\x66", b"\x0f\xf8", None),
    "psubq": (b"\x66", b"\x0f\xfb", None),
    "punpcklbw": (b"\x66", b"\x0f\x60", None),
    "punpcklwd": (b"\x66", b"\x0f\x61", None),
    "movhpd": (b"\x66", b"\x0f\x16", b"\x0f\x17"),
    "movlpd": (b"\x66", b"\x0f\x12", b"\x0f\x13"),
}
