CHECKS = {
 "C01": dict(engine="il2smt", level="translation_validation", ref="DESIGN.md §3 C01",
   technique="SMT equivalence (z3 bit-vectors+arrays) of lifted IL vs SDM-derived reference, per generated encoding, all states symbolic; CPU replay of counterexamples",
   text="For each generated x86/amd64 encoding the IL returned by the real translate_block is encoded in SMT and compared with a reference written from the Intel SDM; unsat means the instruction is lifted correctly for every register/flag/memory state. Encodings are enumerated (bounded corpus), states are not.",
   note="Trusts z3, smt/ilsem.py (tied to the code by C04), specs/x86.py (my SDM reading; amd64 counterexamples are executed on the host CPU and only reported if the CPU agrees with the reference). Undefined flags masked; #DE states assumed away; REP count bounded."),
 "C10": dict(engine="il2smt", level="translation_validation", ref="DESIGN.md §5 C10",
   technique="SMT product-program equivalence (bounded, guarded-merge BMC) of f and ssa_transformation(f), all initial states symbolic",
   text="The real ssa_transformation output is executed in lock-step with its input (phi nodes select by incoming edge); z3 decides whether any initial state makes a path, store, branch target or assigned value differ within k block-steps. SSA validity (single assignment, one phi input per predecessor, same shape) is checked on the artefact.",
   note="Functions are a generated/lifted family (enumerated); states are symbolic. Bound: k = 3x/6x longest acyclic path. Trusts z3 and smt/ilsem.py."),
 "C12": dict(engine="il2smt", level="model_checking", ref="DESIGN.md §5 C12",
   technique="bounded model checking with a ghost last-writer per scalar (z3); path search over falcon's own location relation for precision",
   text="Real reaching_definitions/use_def/def_use tables are checked against all executions <= k block-steps of each function: the solver looks for an execution whose last writer of a scalar is not listed. Precision and the def-use inverse are ground checks on the tables.",
   note="Functions enumerated, executions/states symbolic; bound k. Paths end at indirect branches/intrinsics as in the executor."),
 "C13": dict(engine="il2smt", level="model_checking", ref="DESIGN.md §5 C13",
   technique="bounded model checking with ghost assigned-bits (z3): reported constant vs. value on every execution",
   text="Real constants() tables and Constants::eval results are checked against all executions <= k block-steps: the solver looks for an execution reaching a location with an assigned scalar (or probe expression) different from the reported constant. Completion is required on functions that initialise every scalar.",
   note="Functions enumerated, executions symbolic; bound k."),
 "C14": dict(engine="il2smt", level="translation_validation", ref="DESIGN.md §5 C14",
   technique="SMT product-program equivalence (bounded BMC) of f and dead_code_elimination(f) with attribution of removals",
   text="Input and output of the real dead_code_elimination are run in lock-step from a common symbolic state; z3 decides whether edges taken, stores, state presented to branches/intrinsics or final scalars can differ. Removals not explained by a listed defect role are re-checked in isolation so that a new cause is not masked.",
   note="Functions enumerated (including blocks with non-dense instruction indices); states symbolic; bound k; input assumed fault-free within k."),
 "C17": dict(engine="il2smt", level="model_checking", ref="DESIGN.md §5 C17",
   technique="bounded model checking (z3): sp after each location == entry sp + reported offset, for 7 architectures",
   text="Real stack_pointer_offsets() results for the seven Architecture objects are checked against all executions <= k of lifted prologue/epilogue code and generated functions; arithmetic modulo 2^width of the stack pointer.",
   note="Functions enumerated, executions symbolic; bound k. Completion required only when the entry block has no incoming edge."),
}
_UC = "check under construction in this round; not claimed yet"
NA = {p: _UC for p in ["C02","C03","C04","C05","C06","C07","C08","C09","C15","C16","C19","C20"]}
NA["C11"] = "pure graph-shape property over BTreeMap/hash-map container code: no value dimension to make symbolic; Kani cannot leave symex on 3 vertices (DESIGN.md §0, §6); enumerating graphs would be a different technique"
NA["C18"] = "purely structural property of container-walking code; nothing for a solver to quantify over once the shape is concrete (DESIGN.md §6)"
