CHECKS = {
 "C01": dict(engine="il2smt", level="translation_validation", ref="DESIGN.md §3 C01",
   technique="SMT equivalence (z3 bit-vectors+arrays) of lifted IL vs SDM-derived reference, per generated encoding, all states symbolic; CPU replay of counterexamples",
   text="For each generated x86/amd64 encoding the IL returned by the real translate_block is encoded in SMT and compared with a reference written from the Intel SDM; unsat means the instruction is lifted correctly for every register/flag/memory state. Encodings are enumerated (bounded corpus), states are not.",
   note="Trusts z3, smt/ilsem.py (tied to the code by C04), specs/x86.py (my SDM reading; amd64 counterexamples are executed on the host CPU and only reported if the CPU agrees with the reference). Undefined flags masked; #DE states assumed away; REP count bounded."),
}
_UC = "check under construction in this round; not claimed yet"
NA = {p: _UC for p in ["C02","C03","C04","C05","C06","C07","C08","C09","C10","C12","C13","C14","C15","C16","C17","C19","C20"]}
NA["C11"] = "pure graph-shape property over BTreeMap/hash-map container code: no value dimension to make symbolic; Kani cannot leave symex on 3 vertices (DESIGN.md §0, §6); enumerating graphs would be a different technique"
NA["C18"] = "purely structural property of container-walking code; nothing for a solver to quantify over once the shape is concrete (DESIGN.md §6)"
