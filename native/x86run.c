// x86run: execute one amd64 instruction on the host CPU from a given register/flag/memory
// state and dump the resulting state.  Used to confirm C01 counterexamples.
//
// stdin (text):   code <hex> | reg <idx> <hex64> | rflags <hex> | xmm <idx> <hex32 little-endian bytes>
//                 mem <hexaddr> <hexbyte> | stub <hexaddr> <k> | watch <hexaddr> | go
// Region [0x1fff0000, 0x20030000) is mapped RWX; code is placed at 0x20000000.
#define _GNU_SOURCE
#include <signal.h>
#include <stdint.h>
#include <stdio.h>
#include <stdlib.h>
#include <string.h>
#include <sys/mman.h>
#include <unistd.h>

#define REGION_LO 0x1fff0000UL
#define REGION_HI 0x20030000UL
#define CODE 0x20000000UL

uint64_t in_regs[16], out_regs[16], in_rflags, out_rflags, host_rsp, code_ptr = CODE;
uint8_t in_xmm[16 * 16] __attribute__((aligned(16))), out_xmm[16 * 16] __attribute__((aligned(16)));
volatile uint8_t which;
void run_test(void);
extern char epilogue0[], epilogue1[], epilogue2[], epilogue3[];

__asm__(
    ".text\n.globl run_test\nrun_test:\n"
    "push %rbx\npush %rbp\npush %r12\npush %r13\npush %r14\npush %r15\n"
    "mov %rsp, host_rsp(%rip)\n"
    "movdqu in_xmm+0(%rip), %xmm0\nmovdqu in_xmm+16(%rip), %xmm1\nmovdqu in_xmm+32(%rip), %xmm2\nmovdqu in_xmm+48(%rip), %xmm3\n"
    "movdqu in_xmm+64(%rip), %xmm4\nmovdqu in_xmm+80(%rip), %xmm5\nmovdqu in_xmm+96(%rip), %xmm6\nmovdqu in_xmm+112(%rip), %xmm7\n"
    "movdqu in_xmm+128(%rip), %xmm8\nmovdqu in_xmm+144(%rip), %xmm9\nmovdqu in_xmm+160(%rip), %xmm10\nmovdqu in_xmm+176(%rip), %xmm11\n"
    "movdqu in_xmm+192(%rip), %xmm12\nmovdqu in_xmm+208(%rip), %xmm13\nmovdqu in_xmm+224(%rip), %xmm14\nmovdqu in_xmm+240(%rip), %xmm15\n"
    "pushq in_rflags(%rip)\npopfq\n"
    "mov in_regs+0(%rip), %rax\nmov in_regs+8(%rip), %rcx\nmov in_regs+16(%rip), %rdx\nmov in_regs+24(%rip), %rbx\n"
    "mov in_regs+40(%rip), %rbp\nmov in_regs+48(%rip), %rsi\nmov in_regs+56(%rip), %rdi\n"
    "mov in_regs+64(%rip), %r8\nmov in_regs+72(%rip), %r9\nmov in_regs+80(%rip), %r10\nmov in_regs+88(%rip), %r11\n"
    "mov in_regs+96(%rip), %r12\nmov in_regs+104(%rip), %r13\nmov in_regs+112(%rip), %r14\nmov in_regs+120(%rip), %r15\n"
    "mov in_regs+32(%rip), %rsp\n"
    "jmp *code_ptr(%rip)\n"
    ".globl epilogue0\nepilogue0:\nmovb $0, which(%rip)\njmp 9f\n"
    ".globl epilogue1\nepilogue1:\nmovb $1, which(%rip)\njmp 9f\n"
    ".globl epilogue2\nepilogue2:\nmovb $2, which(%rip)\njmp 9f\n"
    ".globl epilogue3\nepilogue3:\nmovb $3, which(%rip)\njmp 9f\n"
    "9:\n"
    "mov %rax, out_regs+0(%rip)\nmov %rcx, out_regs+8(%rip)\nmov %rdx, out_regs+16(%rip)\nmov %rbx, out_regs+24(%rip)\n"
    "mov %rsp, out_regs+32(%rip)\nmov %rbp, out_regs+40(%rip)\nmov %rsi, out_regs+48(%rip)\nmov %rdi, out_regs+56(%rip)\n"
    "mov %r8, out_regs+64(%rip)\nmov %r9, out_regs+72(%rip)\nmov %r10, out_regs+80(%rip)\nmov %r11, out_regs+88(%rip)\n"
    "mov %r12, out_regs+96(%rip)\nmov %r13, out_regs+104(%rip)\nmov %r14, out_regs+112(%rip)\nmov %r15, out_regs+120(%rip)\n"
    "mov host_rsp(%rip), %rsp\n"
    "pushfq\npopq out_rflags(%rip)\ncld\n"
    "movdqu %xmm0, out_xmm+0(%rip)\nmovdqu %xmm1, out_xmm+16(%rip)\nmovdqu %xmm2, out_xmm+32(%rip)\nmovdqu %xmm3, out_xmm+48(%rip)\n"
    "movdqu %xmm4, out_xmm+64(%rip)\nmovdqu %xmm5, out_xmm+80(%rip)\nmovdqu %xmm6, out_xmm+96(%rip)\nmovdqu %xmm7, out_xmm+112(%rip)\n"
    "movdqu %xmm8, out_xmm+128(%rip)\nmovdqu %xmm9, out_xmm+144(%rip)\nmovdqu %xmm10, out_xmm+160(%rip)\nmovdqu %xmm11, out_xmm+176(%rip)\n"
    "movdqu %xmm12, out_xmm+192(%rip)\nmovdqu %xmm13, out_xmm+208(%rip)\nmovdqu %xmm14, out_xmm+224(%rip)\nmovdqu %xmm15, out_xmm+240(%rip)\n"
    "pop %r15\npop %r14\npop %r13\npop %r12\npop %rbp\npop %rbx\nret\n");

static void on_fault(int sig, siginfo_t *si, void *uc) {
  char buf[64];
  int n = snprintf(buf, sizeof buf, "fault %d %lx\n", sig, (unsigned long)si->si_addr);
  if (write(1, buf, n) < 0) {}
  _exit(0);
}

static int hexval(int c) { return c <= '9' ? c - '0' : (c | 32) - 'a' + 10; }

static void put_stub(uint64_t addr, int k) {
  uint8_t *p = (uint8_t *)addr;
  uint64_t tgt = (uint64_t)(k == 0 ? epilogue0 : k == 1 ? epilogue1 : k == 2 ? epilogue2 : epilogue3);
  p[0] = 0xff; p[1] = 0x25; p[2] = p[3] = p[4] = p[5] = 0;
  memcpy(p + 6, &tgt, 8);
}

int main(void) {
  void *r = mmap((void *)REGION_LO, REGION_HI - REGION_LO, PROT_READ | PROT_WRITE | PROT_EXEC,
                 MAP_PRIVATE | MAP_ANONYMOUS | MAP_FIXED_NOREPLACE, -1, 0);
  if (r != (void *)REGION_LO) { printf("error mmap\n"); return 2; }
  static uint8_t altstack[65536];
  stack_t ss = {.ss_sp = altstack, .ss_size = sizeof altstack, .ss_flags = 0};
  sigaltstack(&ss, 0);
  struct sigaction sa; memset(&sa, 0, sizeof sa);
  sa.sa_sigaction = on_fault; sa.sa_flags = SA_SIGINFO | SA_ONSTACK;
  int sigs[] = {SIGSEGV, SIGILL, SIGFPE, SIGBUS, SIGTRAP};
  for (unsigned i = 0; i < 5; i++) sigaction(sigs[i], &sa, 0);
  in_rflags = 0x202;
  char line[4096];
  uint64_t watch[4096]; int nwatch = 0;
  size_t codelen = 0;
  while (fgets(line, sizeof line, stdin)) {
    char cmd[32]; char a[2100]; char b[2100];
    int n = sscanf(line, "%31s %2099s %2099s", cmd, a, b);
    if (n < 1) continue;
    if (!strcmp(cmd, "code")) {
      size_t l = strlen(a) / 2;
      for (size_t i = 0; i < l; i++) ((uint8_t *)CODE)[i] = hexval(a[2 * i]) * 16 + hexval(a[2 * i + 1]);
      codelen = l;
    } else if (!strcmp(cmd, "reg")) in_regs[atoi(a)] = strtoull(b, 0, 16);
    else if (!strcmp(cmd, "rflags")) in_rflags = strtoull(a, 0, 16);
    else if (!strcmp(cmd, "xmm")) {
      int idx = atoi(a);
      for (int i = 0; i < 16; i++) in_xmm[idx * 16 + i] = hexval(b[2 * i]) * 16 + hexval(b[2 * i + 1]);
    } else if (!strcmp(cmd, "mem")) {
      uint64_t ad = strtoull(a, 0, 16);
      if (ad < REGION_LO || ad >= REGION_HI) { printf("error mem-out-of-window %lx\n", ad); return 2; }
      *(uint8_t *)ad = strtoul(b, 0, 16);
    } else if (!strcmp(cmd, "stub")) put_stub(strtoull(a, 0, 16), atoi(b));
    else if (!strcmp(cmd, "watch")) { if (nwatch < 4096) watch[nwatch++] = strtoull(a, 0, 16); }
    else if (!strcmp(cmd, "go")) break;
  }
  (void)codelen;
  which = 255;
  run_test();
  printf("which %d\n", which);
  for (int i = 0; i < 16; i++) printf("reg %d %lx\n", i, out_regs[i]);
  printf("rflags %lx\n", out_rflags);
  for (int i = 0; i < 16; i++) {
    printf("xmm %d ", i);
    for (int j = 0; j < 16; j++) printf("%02x", out_xmm[i * 16 + j]);
    printf("\n");
  }
  for (int i = 0; i < nwatch; i++) printf("mem %lx %02x\n", watch[i], *(uint8_t *)watch[i]);
  return 0;
}
