#!/usr/bin/env python3
"""C09 - the fixed-point engine returns the least solution of the data-flow equations.

The real fixed_point_forward/backward(_options) run with harness-defined analyses given as data
(gen/kill bit-vectors; table-driven transfer functions over a small lattice).  For each returned
map R, z3 decides leastness: is there ANY assignment S of lattice values to locations that
satisfies the equations and is not above R?  (unsat = R is the least solution.)"""
import sys, os, random, json
sys.path.insert(0, os.path.dirname(os.path.dirname(os.path.abspath(__file__))))
import z3
from checks import common, ilcheck
from smt import drv, solve
from gen import ilgen

K = 8


def key(l):
    return json.dumps(list(l), separators=(",", ":"))


# a 5-element lattice: bottom < a,b < top, plus c with bottom < c < top (non-distributive M3)
M3 = {"n": 5, "bottom": 0, "leq": None, "join": None}
_le = [[False] * 5 for _ in range(5)]
for i in range(5):
    _le[i][i] = True; _le[0][i] = True; _le[i][4] = True
M3["leq"] = _le
_j = [[0] * 5 for _ in range(5)]
for a in range(5):
    for b in range(5):
        if _le[a][b]: _j[a][b] = b
        elif _le[b][a]: _j[a][b] = a
        else: _j[a][b] = 4
M3["join"] = _j


def monotone_maps(lat):
    n = lat["n"]; le = lat["leq"]
    import itertools
    out = []
    for m in itertools.product(range(n), repeat=n):
        if all((not le[a][b]) or le[m[a]][m[b]] for a in range(n) for b in range(n)):
            out.append(list(m))
    return out


MONO = None


def build(item):
    f = ilcheck.view(item["f"])
    rnd = random.Random(item["seed"])
    locs = ilcheck.call_fn("locations", f)
    L = [tuple(r["loc"]) for r in locs["locations"]]
    fwd = {tuple(r["loc"]): [tuple(x) for x in r["forward"]] for r in locs["locations"]}
    bwd = {tuple(r["loc"]): [tuple(x) for x in r["backward"]] for r in locs["locations"]}
    return f, rnd, L, fwd, bwd


def start_location(f, direction):
    cfg = f["cfg"]
    b = cfg["entry"] if direction == "forward" else cfg.get("exit")
    if b is None:
        return None
    blk = next(x for x in cfg["blocks"] if x["index"] == b)
    if not blk["instructions"]:
        return ("empty", b)
    ins = blk["instructions"][0] if direction == "forward" else blk["instructions"][-1]
    return ("ins", b, ins["index"])


def check_one(item):
    global MONO
    f, rnd, L, fwd, bwd = build(item)
    direction = item["direction"]; kind = item["kind"]
    res = {"id": f["meta"], "direction": direction, "kind": kind}
    succ, pred = (fwd, bwd) if direction == "forward" else (bwd, fwd)
    # ground: forward/backward are converse relations (needed for the equations to be well defined)
    for a in L:
        for b in fwd[a]:
            if a not in bwd.get(b, []):
                res.update(status="relation-not-converse", detail=f"{a} -> {b}"); return res
    start = start_location(f, direction)
    req = {"direction": direction, "kind": "genkill" if kind.startswith("genkill") else "table"}
    if kind.startswith("genkill"):
        gen = {key(l): rnd.getrandbits(K) & rnd.getrandbits(K) for l in L if rnd.random() < 0.6}
        kill = {key(l): rnd.getrandbits(K) & rnd.getrandbits(K) for l in L if rnd.random() < 0.5}
        req.update(gen=gen, kill=kill)
        tf = lambda l, x: (x & ~kill.get(key(l), 0)) | gen.get(key(l), 0)
        join = lambda a, b: a | b
        leq = lambda a, b: a & ~b == 0
        bottom = 0
    else:
        if MONO is None:
            MONO = monotone_maps(M3)
        n = M3["n"]
        if kind == "table-mono":
            transfer = {key(l): rnd.choice(MONO) for l in L if rnd.random() < 0.7}
        else:
            transfer = {key(l): [rnd.randrange(n) for _ in range(n)] for l in L if rnd.random() < 0.7}
        req.update(leq=M3["leq"], join=M3["join"], bottom=0, transfer=transfer)
        tf = lambda l, x: transfer[key(l)][x] if key(l) in transfer else x
        join = lambda a, b: M3["join"][a][b]
        leq = lambda a, b: M3["leq"][a][b]
        bottom = 0
    if item.get("max_steps") is not None:
        req["max_steps"] = item["max_steps"]
        req["force"] = False
    r = ilcheck.call_fn("fixpoint", f, **req)
    if "panic" in r or "died" in r:
        res.update(status="panic", detail=str(r)[:300]); return res
    if not r.get("ok"):
        res.update(status="err", detail=f"{r.get('kind')}"); return res
    R = {tuple(row[0]): row[1] for row in r["table"]}
    # (1) domain = locations reachable from the start
    reach = set(); stack = [start] if start else []
    while stack:
        x = stack.pop()
        if x in reach: continue
        reach.add(x); stack.extend(succ.get(x, []))
    if set(R) != reach:
        res.update(status="wrong-domain", detail=f"missing {sorted(reach - set(R))[:3]} extra {sorted(set(R) - reach)[:3]}", function=f); return res
    # (2) R satisfies the equations
    def rhs(l, S):
        acc = None
        for p in pred.get(l, []):
            if p in S:
                acc = S[p] if acc is None else join(acc, S[p])
        return tf(l, bottom if acc is None else acc)
    bad = [l for l in R if rhs(l, R) != R[l]]
    res["locations"] = len(R)
    if bad:
        res.update(status="not-a-solution", detail=f"at {bad[0]}: returned {R[bad[0]]} but transfer(join of predecessors) = {rhs(bad[0], R)}", function=f, request=req); return res
    if kind == "table-nonmono":
        res.update(status="ok-solution-nonmono"); return res
    # (3) leastness by solver
    s = []
    if kind.startswith("genkill"):
        V = {l: z3.BitVec("S_" + key(l), K) for l in R}
        for l in R:
            ps = [V[p] for p in pred.get(l, []) if p in V]
            inn = z3.BitVecVal(0, K)
            for p in ps: inn = inn | p
            s.append(V[l] == ((inn & z3.BitVecVal(~kill.get(key(l), 0) & ((1 << K) - 1), K)) | z3.BitVecVal(gen.get(key(l), 0), K)))
        notabove = z3.Or(*[(z3.BitVecVal(R[l], K) & ~V[l]) != 0 for l in R])
    else:
        n = M3["n"]
        V = {l: z3.Int("S_" + key(l)) for l in R}

        def lookup2(tab, a, b):
            e = z3.IntVal(0)
            for i in range(n):
                for j in range(n):
                    e = z3.If(z3.And(a == i, b == j), z3.IntVal(tab[i][j]), e)
            return e

        def lookup1(tab, a):
            e = z3.IntVal(0)
            for i in range(n):
                e = z3.If(a == i, z3.IntVal(tab[i]), e)
            return e
        for l in R:
            s.append(z3.And(V[l] >= 0, V[l] < n))
            ps = [V[p] for p in pred.get(l, []) if p in V]
            inn = z3.IntVal(0)
            first = True
            for p in ps:
                inn = p if first else lookup2(M3["join"], inn, p)
                first = False
            t = transfer.get(key(l))
            s.append(V[l] == (lookup1(t, inn) if t else inn))
        nb = []
        for l in R:
            row = M3["leq"][R[l]]
            nb.append(z3.Not(z3.Or(*[V[l] == j for j in range(n) if row[j]])))
        notabove = z3.Or(*nb)
    v, m, dt = solve.check(s + [notabove], 60000)
    res["solver_s"] = dt
    if v == solve.UNSAT:
        vv, _, dt2 = solve.check(s, 20000, want_model=False); res["solver_s"] += dt2
        res.update(status="unsat" if vv == solve.SAT else "vacuous"); return res
    if v == solve.UNDECIDED:
        res.update(status="undecided"); return res
    S = {l: solve.model_val(m, V[l]) if kind.startswith("genkill") else m.eval(V[l], model_completion=True).as_long() for l in R}
    # replay: S is a solution and R is not below it
    ok = all(rhs(l, S) == S[l] for l in S) and any(not leq(R[l], S[l]) for l in S)
    res.update(status="sat", reproduced=ok, detail=f"a smaller/incomparable solution exists, e.g. at {[l for l in S if not leq(R[l], S[l])][0]}", function=f, request=req)
    return res


def main():
    drv.build()
    rep = common.Report("C09", "other")
    n = 60 if rep.tier == "quick" else 500
    fs = ilgen.corpus(9000 + rep.seed, n, profile="mixed", widths=(32,))
    holed = ilgen.corpus(9100 + rep.seed, n // 3, profile="mixed", widths=(32,))
    hr = random.Random(rep.seed + 5)
    for f in holed:
        ilgen.add_holes(f, hr); f["meta"]["holes"] = True
    fs += holed
    # dead code that jumps into live joins (block indices below and above the live predecessors)
    dead = ilgen.corpus(9200 + rep.seed, 15 if rep.tier == "quick" else 90, profile="mixed", widths=(32,), skeletons=[k for k in ilgen.SKELETONS if k.startswith("unreachable")])
    for f in dead: f["meta"]["dead"] = True
    fs += dead
    items = []
    for i, f in enumerate(fs):
        for direction in ("forward", "backward"):
            for kind in ("genkill", "table-mono", "table-nonmono"):
                items.append({"f": f, "direction": direction, "kind": kind, "seed": rep.seed * 100003 + i * 7 + len(kind)})
        items.append({"f": f, "direction": "forward", "kind": "genkill-budget", "seed": rep.seed * 13 + i, "max_steps": 3})
    results = common.pmap(check_one, items, chunksize=4)
    counts = {}
    for it, r in zip(items, results):
        if "crash" in r:
            rep.encoder_defect(f"{it['f']['meta']} {it['kind']}: {r['crash']} {r.get('trace','')[-300:]}"); continue
        st = r["status"]; kx = f"{r['kind']}:{r['direction']}:{st}"; counts[kx] = counts.get(kx, 0) + 1
        rep.solver_s += r.get("solver_s", 0)
        if st == "unsat":
            rep.count("unsat")
            rep.sample({"function": it["f"]["meta"], "direction": r["direction"], "analysis": r["kind"], "locations": r["locations"], "verdict": "unsat: no other solution is below or incomparable"}, cap=6)
        elif st == "undecided":
            rep.count("undecided"); rep.undecided.append(f"{it['f']['meta']} {r['kind']}")
        elif st in ("ok-solution-nonmono", "vacuous"):
            rep.ground["checked"] += 1
        elif st == "err":
            rep.ground["checked"] += 1
            monotone = r["kind"] in ("genkill", "table-mono")
            if monotone and not (r["direction"] == "backward" and r.get("detail") == "FixedPointRequiresExit"):
                rep.ground["failed"] += 1
                rep.violation(f"fixed-point/{r['direction']}/error on a monotone analysis ({r.get('detail')})", f"{it['f']['meta']} {r['kind']}", {"function": it["f"], "result": r})
        elif st in ("wrong-domain", "not-a-solution", "relation-not-converse", "panic"):
            rep.ground["checked"] += 1; rep.ground["failed"] += 1
            rep.violation(f"fixed-point/{r['direction']}/{st}" + ("/budget" if "budget" in r["kind"] else ""), f"{it['f']['meta']} {r['kind']}: {r.get('detail')}", {"function": r.get("function"), "request": r.get("request"), "result": {k_: v_ for k_, v_ in r.items() if k_ not in ('function', 'request')}})
        elif st == "sat":
            rep.count("sat")
            if not r["reproduced"]:
                rep.encoder_defect(f"model does not reproduce: {it['f']['meta']} {r['kind']}"); continue
            rep.violation(f"fixed-point/{r['direction']}/not the least solution", f"{it['f']['meta']} {r['kind']}: {r['detail']}", {"function": r["function"], "request": r["request"]})
    rep.extra["status_counts"] = counts
    rep.functions_encoded = ["analysis::fixed_point::{fixed_point_forward, fixed_point_forward_options, fixed_point_backward, fixed_point_backward_options} (run concretely with data-driven analyses)",
                             "il::RefProgramLocation::{forward, backward} (relation dumped and used to build the equation system)"]
    rep.bounds = {"instances": len(items), "lattices": "8-bit gen/kill sets; 5-element non-distributive lattice M3 with monotone / arbitrary transfer tables"}
    rep.finish({"explanation": "certificate checking: for each (function, analysis, direction) the returned map is checked to be defined exactly on the reachable locations, "
                               "to satisfy the equations (ground) and to be the LEAST solution (z3: no other solution exists that is not above it)",
                "evaluations": len(items), "distinct_nontrivial": sum(v for k_, v in counts.items() if k_.endswith(":unsat"))},
               assumptions=["the data-driven analyses in driver/src/cmds3.rs implement the stated gen/kill and table semantics"])


if __name__ == "__main__":
    main()
