#!/usr/bin/env python3
"""C15 - CFG construction and editing keep graphs consistent and meaning intact.

Edit scripts are applied to real il::ControlFlowGraph objects by the driver (`cfgedit`).
Ground: structural invariants on every dumped graph.  Solver: merge() and append() preserve the
executed operation sequence and final state for every initial state (bounded)."""
import sys, os, random, json, hashlib
sys.path.insert(0, os.path.dirname(os.path.dirname(os.path.abspath(__file__))))
import z3
from checks import common, ilcheck
from smt import drv, il2smt, fbmc, solve, replay
from gen import ilgen

P = 0x100000001b3


def op_id(op):
    return int(hashlib.sha1(json.dumps(op, sort_keys=True).encode()).hexdigest()[:15], 16) | 1


def invariants(cfg, want_exit=True):
    errs = []
    idx = [b["index"] for b in cfg["blocks"]]
    if len(idx) != len(set(idx)):
        errs.append("duplicate block index")
    bs = set(idx)
    es = set()
    for e in cfg["edges"]:
        if e["head"] not in bs or e["tail"] not in bs:
            errs.append(f"edge {e['head']}->{e['tail']} joins a missing block")
        if (e["head"], e["tail"]) in es:
            errs.append(f"duplicate edge {e['head']}->{e['tail']}")
        es.add((e["head"], e["tail"]))
    for b in cfg["blocks"]:
        i = b["index"]
        ii = [x["index"] for x in b["instructions"]]
        if len(ii) != len(set(ii)):
            errs.append(f"block {i}: instruction indices not unique {ii}")
        p = cfg["preds"].get(str(i)); s = cfg["succs"].get(str(i))
        if not isinstance(p, list) or sorted(p) != sorted(h for (h, t) in es if t == i):
            errs.append(f"block {i}: predecessor_indices {p} disagree with the edge set")
        if not isinstance(s, list) or sorted(s) != sorted(t for (h, t) in es if h == i):
            errs.append(f"block {i}: successor_indices {s} disagree with the edge set")
    if cfg.get("entry") is not None and cfg["entry"] not in bs:
        errs.append(f"entry {cfg['entry']} names a missing block")
    if cfg.get("exit") is not None and cfg["exit"] not in bs:
        errs.append(f"exit {cfg['exit']} names a missing block")
    return errs


def normal_form(cfg):
    """Path-language normal form: contract every unconditional edge u->v where u has one out-edge and
    v one in-edge (v not the entry), then describe blocks by their operation lists and edges by
    (guard, target operations).  Two graphs with the same normal form execute the same instruction
    sequences from the entry."""
    ops = {b["index"]: [json.dumps(i["op"], sort_keys=True) for i in b["instructions"]] for b in cfg["blocks"]}
    out = {i: [] for i in ops}
    for e in cfg["edges"]:
        out[e["head"]].append((json.dumps(e["cond"], sort_keys=True), e["tail"]))
    entry = cfg.get("entry")
    changed = True
    while changed:
        changed = False
        indeg = {i: 0 for i in ops}
        for h in out:
            for c, t in out[h]:
                indeg[t] += 1
        for u in list(ops):
            if u not in ops or len(out[u]) != 1: continue
            c, v = out[u][0]
            if c != "null" or v == u or v == entry or indeg.get(v) != 1: continue
            ops[u] = ops[u] + ops[v]
            out[u] = out[v]
            del ops[v]; del out[v]
            changed = True
            break
    # reachable part only, described without indices
    seen = []; stack = [entry] if entry in ops else []
    while stack:
        n = stack.pop()
        if n in seen: continue
        seen.append(n)
        for c, t in out[n]: stack.append(t)
    desc = sorted((tuple(ops[n]), tuple(sorted((c, tuple(ops[t])) for c, t in out[n])), n == entry) for n in seen)
    return desc


class TraceHooks:
    """il2smt.run_graph hooks: ghost polynomial hash of the executed operation sequence."""

    def on_instr(self, blk, ins, g, st):
        h = st.ghost.get("trace")
        st.ghost["trace"] = h * z3.BitVecVal(P, 64) + z3.BitVecVal(op_id(ins["op"]), 64)
        st.ghost["n"] = st.ghost["n"] + 1


def run(cfg, ctx, st0, k, stop_at_exit):
    r = il2smt.run_graph(ctx, cfg, st0, k, hooks=TraceHooks(), stop_at_exit=stop_at_exit)
    fst, reach = il2smt.final_merge(ctx, r)
    return r, fst, reach


def fresh_state(ctx):
    st = il2smt.initial_state(ctx)
    st.ghost["trace"] = z3.BitVecVal(0, 64)
    st.ghost["n"] = z3.BitVecVal(0, 16)
    return st


def states_differ(ctx, a, b):
    ds = [a.ghost["trace"] != b.ghost["trace"], a.mem != b.mem]
    for kx in sorted(set(a.sc) | set(b.sc)):
        va = a.sc.get(kx); vb = b.sc.get(kx)
        w = (va if va is not None else vb).size()
        if va is None: va = ctx.input(kx, w)
        if vb is None: vb = ctx.input(kx, w)
        ds.append(va != vb)
    return z3.Or(*ds)


def script_of(f):
    s = []
    for b in f["cfg"]["blocks"]:
        s.append(["new_block", [i["op"] for i in b["instructions"]]])
    for e in f["cfg"]["edges"]:
        s.append(["uncond", e["head"], e["tail"]] if e["cond"] is None else ["cond", e["head"], e["tail"], e["cond"]])
    s.append(["set_entry", f["cfg"]["entry"]])
    if f["cfg"].get("exit") is not None:
        s.append(["set_exit", f["cfg"]["exit"]])
    return s


def check_merge(item):
    f = item["f"]; tier = item["tier"]
    res = {"id": f["meta"], "kind": "merge"}
    script = script_of(f) + [["dump"], ["merge"], ["dump"]]
    r = drv.call({"cmd": "cfgedit", "script": script})
    if "panic" in r or "died" in r or "fatal" in r:
        res.update(status="panic", detail=str(r)[:300]); return res
    bad = [x for x in r["results"] if not x.get("ok")]
    if bad:
        res.update(status="op-error", detail=str(bad[0])[:200]); return res
    before = [x for x in r["results"] if "cfg" in x][0]["cfg"]
    after = [x for x in r["results"] if "cfg" in x][1]["cfg"]
    errs = invariants(before) + ["after merge: " + e for e in invariants(after)]
    if normal_form(before) != normal_form(after):
        errs.append("after merge: executable instruction sequences differ")
    res["ground"] = errs[:4]
    res["blocks"] = [len(before["blocks"]), len(after["blocks"])]
    if errs:
        res.update(status="ground-fail", before=before, after=after); return res
    k = ilcheck.k_for(f, tier)
    ctx = il2smt.Ctx()
    try:
        ra, fa, ta = run(before, ctx, fresh_state(ctx), 2 * k, False)
        rb, fb, tb = run(after, ctx, fresh_state(ctx), k, False)
    except il2smt.SortError as e:
        res.update(status="sorterr", detail=str(e)); return res
    res["k"] = k
    if fa is None or fb is None:
        res.update(status="no-terminating-path"); return res
    nofault = z3.Not(z3.Or(*[c for _, c in ctx.faults])) if ctx.faults else z3.BoolVal(True)
    # obligations: (i) merged graph terminating within k => original terminates within 2k with the same trace/state
    #              (ii) both terminate => equal
    q = z3.And(nofault, z3.Or(z3.And(tb, z3.Not(ta)), z3.And(ta, tb, states_differ(ctx, fa, fb))))
    v, m, dt = solve.check([q] + ctx.c04_assumptions, 60000)
    res["solver_s"] = dt
    if v == solve.UNSAT:
        vv, _, dt2 = solve.check([nofault, ta, tb], 20000, want_model=False); res["solver_s"] += dt2
        res.update(status="unsat" if vv == solve.SAT else "vacuous"); return res
    if v == solve.UNDECIDED:
        res.update(status="undecided"); return res
    scm, mem_read = ilcheck.model_inputs(ctx, m)
    sa, ea = ilcheck.concrete_run({"cfg": before}, scm, mem_read)
    sb, eb = ilcheck.concrete_run({"cfg": after}, scm, mem_read)
    ia = [x for x in sa.trace if x[0] == "ins"]; ib = [x for x in sb.trace if x[0] == "ins"]
    differs = len(ia) != len(ib) or sa.stores != sb.stores or any(sa.sc.get(x) != sb.sc.get(x) for x in set(sa.sc) | set(sb.sc)) or ea[0] != eb[0]
    res.update(status="sat", reproduced=bool(differs), model=scm, before=before, after=after)
    return res


def check_append(item):
    f1, f2 = item["f"], item["g"]
    res = {"id": [f1["meta"], f2["meta"]], "kind": "append"}
    g2 = {"entry": f2["cfg"]["entry"], "exit": f2["cfg"]["exit"], "blocks": f2["cfg"]["blocks"], "edges": f2["cfg"]["edges"]}
    script = script_of(f1) + [["dump"], ["append", g2], ["dump"], ["insert", g2], ["dump"]]
    r = drv.call({"cmd": "cfgedit", "script": script})
    if "panic" in r or "died" in r or "fatal" in r:
        res.update(status="panic", detail=str(r)[:300]); return res
    bad = [x for x in r["results"] if not x.get("ok")]
    if bad:
        res.update(status="op-error", detail=str(bad[0])[:200]); return res
    dumps = [x["cfg"] for x in r["results"] if "cfg" in x]
    g1, app, ins = dumps
    errs = invariants(g1) + ["after append: " + e for e in invariants(app)] + ["after insert: " + e for e in invariants(ins)]
    insres = [x for x in r["results"] if "entry" in x and "exit" in x and "cfg" not in x]
    if insres:
        bs = {b["index"] for b in ins["blocks"]}
        if insres[0]["entry"] not in bs or insres[0]["exit"] not in bs:
            errs.append("insert returned indices of missing blocks")
    # path-language obligation: result == g1 U g2 U {exit(g1) -> entry(g2)} up to contraction of straight lines
    off = max(b["index"] for b in g1["blocks"]) + 1
    exp = {"entry": g1["entry"], "exit": f2["cfg"]["exit"] + off,
           "blocks": g1["blocks"] + [dict(b, index=b["index"] + off) for b in f2["cfg"]["blocks"]],
           "edges": g1["edges"] + [{"head": e["head"] + off, "tail": e["tail"] + off, "cond": e["cond"]} for e in f2["cfg"]["edges"]] +
                    [{"head": g1["exit"], "tail": f2["cfg"]["entry"] + off, "cond": None}]}
    if normal_form(exp) != normal_form(app):
        errs.append("after append: executable instruction sequences differ from 'first graph, then second graph'")
    res["ground"] = errs[:4]
    if errs:
        res.update(status="ground-fail", before=g1, after=app); return res
    if item.get("structural_only"):
        res.update(status="ground-ok"); return res
    ctx = il2smt.Ctx()
    k = 3 * (fbmc.longest_acyclic(f1["cfg"]) + fbmc.longest_acyclic(f2["cfg"]) + 2)
    try:
        r1, s1, t1 = run(g1, ctx, fresh_state(ctx), k, True)
        if s1 is None:
            res.update(status="no-terminating-path"); return res
        r2, s2, t2 = run(f2["cfg"], ctx, s1.copy(), k, True)
        r3, s3, t3 = run(app, ctx, fresh_state(ctx), 2 * k, True)
    except il2smt.SortError as e:
        res.update(status="sorterr", detail=str(e)); return res
    if s2 is None or s3 is None:
        res.update(status="no-terminating-path"); return res
    nofault = z3.Not(z3.Or(*[c for _, c in ctx.faults])) if ctx.faults else z3.BoolVal(True)
    seq = z3.And(t1, t2)
    q = z3.And(nofault, seq, z3.Or(z3.Not(t3), states_differ(ctx, s2, s3)))
    v, m, dt = solve.check([q] + ctx.c04_assumptions, 60000)
    res["solver_s"] = dt
    if v == solve.UNSAT:
        vv, _, dt2 = solve.check([nofault, seq], 20000, want_model=False); res["solver_s"] += dt2
        res.update(status="unsat" if vv == solve.SAT else "vacuous"); return res
    if v == solve.UNDECIDED:
        res.update(status="undecided"); return res
    scm, mem_read = ilcheck.model_inputs(ctx, m)
    res.update(status="sat", reproduced=True, model=scm, before=g1, after=app)
    return res


def check_blockify(item):
    res = {"id": item["label"], "kind": "blockify"}
    r = drv.call({"cmd": "lift", "arch": item["arch"], "bytes": item["bytes"], "address": 0x1000, "blockify": True})
    if not r.get("ok"):
        res.update(status="rejected"); return res
    g = r["blockify"]
    if "blocks" not in g:
        res.update(status="op-error", detail=str(g)[:200]); return res
    errs = invariants(g)
    res["ground"] = errs
    res.update(status="ground-fail" if errs else "ground-ok", after=g)
    return res


def check_blockedit(item):
    """Block::append / remove_instruction: instruction indices stay unique."""
    f = item["f"]
    res = {"id": f["meta"], "kind": "blockedit"}
    rnd = random.Random(item["seed"])
    nb = len(f["cfg"]["blocks"])
    script = script_of(f)
    for _ in range(4):
        a, b = rnd.randrange(nb), rnd.randrange(nb)
        script.append(["block_append", a, b])
        blk = f["cfg"]["blocks"][a]
        if blk["instructions"]:
            script.append(["remove_instruction", a, rnd.randrange(len(blk["instructions"]))])
        script.append(["block_append", b, a])
    script.append(["dump"])
    r = drv.call({"cmd": "cfgedit", "script": script})
    if "panic" in r or "died" in r or "fatal" in r:
        res.update(status="panic", detail=str(r)[:300]); return res
    g = [x["cfg"] for x in r["results"] if "cfg" in x][-1]
    errs = invariants(g)
    res["ground"] = errs
    res.update(status="ground-fail" if errs else "ground-ok", after=g)
    return res


def check_selfloop(item):
    """A non-entry block whose only edge is an unconditional self-loop: merge must leave it alone."""
    res = {"id": "selfloop", "kind": "selfloop"}
    S, C = ilgen.S, ilgen.C
    script = [["new_block", [["nop"]]], ["new_block", [["assign", S("a", 32), C(1, 32)]]], ["uncond", 1, 1],
              ["set_entry", 0], ["set_exit", 0], ["dump"], ["merge"], ["dump"]]
    r = drv.call({"cmd": "cfgedit", "script": script})
    if "panic" in r or "died" in r or "fatal" in r:
        res.update(status="panic", detail=str(r)[:300]); return res
    d = [x["cfg"] for x in r["results"] if "cfg" in x]
    mres = r["results"][6]
    same = json.dumps(d[0]["blocks"], sort_keys=True) == json.dumps(d[1]["blocks"], sort_keys=True) and d[0]["edges"] == d[1]["edges"]
    errs = invariants(d[1])
    if not mres.get("ok"):
        errs.append(f"merge failed: {mres.get('error')}")
    if not same:
        errs.append("merge changed a block that has itself as only successor and predecessor")
    res["ground"] = errs
    res.update(status="ground-fail" if errs else "ground-ok", after=d[1])
    return res


def work(item):
    return {"merge": check_merge, "append": check_append, "blockify": check_blockify, "blockedit": check_blockedit, "selfloop": check_selfloop}[item["kind"]](item)


def main():
    drv.build()
    rep = common.Report("C15", "translation_validation")
    n = 120 if rep.tier == "quick" else 900
    fs = ilgen.corpus(8000 + rep.seed, n, profile="mixed", widths=(32, 8))
    items = [{"kind": "merge", "f": f, "tier": rep.tier} for f in fs]
    acyc = ilgen.corpus(8500 + rep.seed, n // 2, profile="mixed", widths=(32,), skeletons=["straight", "single", "diamond", "nested", "switch3", "emptyarms", "longarm_a"])
    for i in range(0, len(acyc) - 1, 2):
        items.append({"kind": "append", "f": acyc[i], "g": acyc[i + 1], "tier": rep.tier})
    # first graphs whose exit block has outgoing edges (loop bodies that are the exit), second graphs of one block
    loops = ilgen.corpus(8700 + rep.seed, 12, profile="mixed", widths=(32,), skeletons=["exitloop", "dowhile", "while", "entryloop"])
    singles = ilgen.corpus(8800 + rep.seed, 12, profile="mixed", widths=(32,), skeletons=["single", "straight"])
    for a, b in zip(loops, singles):
        items.append({"kind": "append", "f": a, "g": b, "tier": rep.tier, "structural_only": True})
    for i, f in enumerate(fs[: n // 3]):
        items.append({"kind": "blockedit", "f": f, "seed": rep.seed * 1000 + i})
    for arch, hx, lab in [("amd64", "4801d84829c3", "add;sub"), ("amd64", "4801d8", "add"), ("x86", "01d829c331c0", "add;sub;xor"),
                          ("amd64", "f3a4", "rep movsb"), ("amd64", "480fbcc3", "bsf"), ("mips", "2484000424a50008", "addiu;addiu"),
                          ("aarch64", "200001 8b".replace(" ", "") , "add"), ("ppc", "3821001038210010", "addi;addi"), ("amd64", "4801d8c3", "add;ret")]:
        items.append({"kind": "blockify", "arch": arch, "bytes": hx, "label": f"{arch} {lab}"})
    items.append({"kind": "selfloop"})
    results = common.pmap(work, items, chunksize=2)
    counts = {}
    for it, r in zip(items, results):
        if "crash" in r:
            rep.encoder_defect(f"{it['kind']}: {r['crash']} {r.get('trace','')[-300:]}"); continue
        st = r["status"]; counts[f"{r['kind']}:{st}"] = counts.get(f"{r['kind']}:{st}", 0) + 1
        rep.solver_s += r.get("solver_s", 0)
        if st == "unsat":
            rep.count("unsat")
            rep.sample({"kind": r["kind"], "graph": r["id"], "verdict": "unsat: same operation-sequence hash and final state for every initial state"}, cap=6)
        elif st in ("ground-ok", "rejected", "no-terminating-path", "vacuous"):
            rep.ground["checked"] += 1
        elif st == "undecided":
            rep.count("undecided"); rep.undecided.append(str(r["id"]))
        elif st == "ground-fail":
            rep.ground["checked"] += 1; rep.ground["failed"] += 1
            if r["kind"] == "selfloop":
                rep.violation("cfg/merge/non-entry block with an unconditional self-loop is merged with itself", f"{r['ground']}", {"result": r}); continue
            first = r["ground"][0]
            role = first.split(":")[0] if first.startswith("after") else "construction"
            what = first.split(": ", 1)[-1]
            kind = "exit names a missing block" if "exit" in what and "missing" in what else ("entry names a missing block" if "entry" in what else what.split(" ")[0])
            rep.violation(f"cfg/{r['kind']}/{kind}", f"{r['id']}: {r['ground'][:2]}", {"result": r})
        elif st in ("panic", "op-error", "sorterr"):
            rep.ground["checked"] += 1; rep.ground["failed"] += 1
            rep.violation(f"cfg/{r['kind']}/{st}", f"{r['id']}: {r.get('detail')}", {"result": r})
        elif st == "sat":
            rep.count("sat")
            if not r["reproduced"]:
                rep.encoder_defect(f"model does not reproduce for {r['kind']} {r['id']}"); continue
            rep.violation(f"cfg/{r['kind']}/changes the executed operation sequence or final state", f"{r['id']} initial state {json.dumps(r['model'])[:200]}", {"result": r})
    rep.extra["status_counts"] = counts
    rep.functions_encoded = ["il::ControlFlowGraph::{new_block, unconditional_edge, conditional_edge, set_entry, set_exit, merge, append, insert}",
                             "il::Block::{append, remove_instruction}", "translator::BlockTranslationResult::blockify"]
    rep.bounds = {"scripts": len(items), "k": "3x/6x longest acyclic path (merge: original graph gets 2k)",
                  "note": "operation sequences are compared through a 64-bit polynomial hash carried as ghost state (a collision can only hide a difference, never invent one)"}
    rep.finish({"programs": len(items), "disagreements_checked": sum(v for k_, v in counts.items() if k_.endswith(":sat")),
                "explanation": "merge: before/after graphs run from a common symbolic state; append: run(result) vs run(g2) o run(g1)"},
               assumptions=["graphs run without fault within the bound", "smt/ilsem.py is the IL's meaning (C04)"])


if __name__ == "__main__":
    main()
