#!/usr/bin/env python3
"""C01 - x86/amd64 lifter agrees with the processor (SDM-derived reference)."""
import sys, os, random, json
sys.path.insert(0, os.path.dirname(os.path.dirname(os.path.abspath(__file__))))
import z3
from checks import common, liftcheck
from specs import encgen_x86 as E, x86 as X
from specs.encgen_x86 import reg, mem, imm

ADDR = 0x20000000
SCR = 0x20010000        # scratch window used for rip-relative / absolute operands


# --------------------------------------------------------------- corpus --

def opclass(op):
    if op[0] == "reg":
        s, n, k = E.REGINFO[op[1]]
        return {8: "r8h" if k == 'h' else "r8", 16: "r16", 32: "r32", 64: "r64", 128: "xmm"}[s]
    if op[0] == "mem":
        return f"m{op[1]['size']}"
    return f"imm{op[2]}"


def label(mode, d):
    def s(op):
        if op[0] == "reg": return op[1]
        if op[0] == "imm": return hex(op[1])
        m = op[1]
        parts = [x for x in [m["base"], (f"{m['index']}*{m['scale']}" if m["index"] else None), (hex(m["disp"]) if m["disp"] else None)] if x]
        return f"{m['seg'] + ':' if m['seg'] else ''}[{'+'.join(parts) or '0'}]:{m['size']}"
    extra = "".join(f" {k}={d[k]}" for k in ("cc", "rel", "size", "rep", "form") if k in d and d[k] is not None)
    return f"{d['mn']} " + ", ".join(s(o) for o in d.get("ops", [])) + extra


def regs_of(mode, size, rnd, n=3, hi=True):
    """Representative registers of a size: accumulator, one other, a REX one (64-bit mode),
    a stack/base one, plus high-byte registers for 8-bit."""
    if size == 8:
        base = ["al", "bl", "cl"] + (["ah", "bh", "ch", "dh"] if hi else [])
        if mode == 64: base += ["sil", "r9b", "spl"]
    elif size == 16:
        base = ["ax", "bx", "si", "sp"] + (["r10w"] if mode == 64 else [])
    elif size == 32:
        base = ["eax", "ebx", "edi", "esp", "ebp"] + (["r11d", "r13d"] if mode == 64 else [])
    elif size == 64:
        base = ["rax", "rbx", "rdi", "rsp", "rbp", "r12", "r13"]
    else:
        base = ["xmm0", "xmm1", "xmm7"] + (["xmm9", "xmm15"] if mode == 64 else [])
    return base


def mems_of(mode, size, rnd, thorough=False):
    R = (lambda n: n) if mode == 64 else (lambda n: {"rax": "eax", "rbx": "ebx", "rcx": "ecx", "rdx": "edx", "rsi": "esi",
                                                      "rdi": "edi", "rsp": "esp", "rbp": "ebp"}[n])
    ms = [mem(size, base=R("rbx")),
          mem(size, base=R("rbp"), disp=-8),
          mem(size, base=R("rsp"), disp=0x10),
          mem(size, base=R("rax"), index=R("rcx"), scale=4, disp=0x12345)]
    if mode == 64:
        ms += [mem(size, base="rip", disp=0x10100), mem(size, base="r13"), mem(size, base="r12", index="r9", scale=8, disp=-0x80)]
    else:
        ms += [mem(size, disp=SCR + 0x100)]
    if thorough:
        ms += [mem(size, base=R("rsi"), index=R("rdi"), scale=1), mem(size, index=R("rdx"), scale=2, disp=0x100),
               mem(size, base=R("rbx"), seg="fs"), mem(size, base=R("rax"), disp=0x7fffffff if mode == 32 else 0x1000, seg="gs")]
        if mode == 64:
            ms += [mem(size, disp=0x20010100)]
    return ms


def imms_of(size):
    vals = [0, 1, (1 << size) - 1, (1 << (size - 1)) - 1, 1 << (size - 1)]
    return vals


def sizes_of(mode, with8=True):
    return ([8] if with8 else []) + [16, 32] + ([64] if mode == 64 else [])


def corpus(mode, tier, rnd):
    """Yield instruction descriptions."""
    T = tier == "thorough"
    out = []

    def add(mn, ops=(), **kw):
        d = dict(mn=mn, ops=list(ops)); d.update(kw); out.append(d)

    def pick(lst, n):
        lst = list(lst)
        if T or len(lst) <= n: return lst
        head = lst[:max(1, n // 2)]
        rest = lst[len(head):]
        rnd.shuffle(rest)
        return head + rest[:n - len(head)]

    # ---- two-operand ALU + mov + test + xchg/xadd/cmpxchg
    for mn in ["add", "or", "adc", "sbb", "and", "sub", "xor", "cmp", "test", "mov"]:
        for size in sizes_of(mode):
            rs = regs_of(mode, size, rnd)
            pairs = [(a, b) for a in rs for b in rs]
            for a, b in pick(pairs, 8 if mn in ("add", "mov", "sub") else 4):
                try_add(out, mode, mn, [reg(a), reg(b)])
                if T and mn != "test": try_add(out, mode, mn, [reg(a), reg(b)], form="load")
            for m in pick(mems_of(mode, size, rnd, T), 3):
                for a in pick(rs, 2):
                    try_add(out, mode, mn, [m, reg(a)])
                    if mn != "test": try_add(out, mode, mn, [reg(a), m])
            for v in pick(imms_of(min(size, 32)), 3):
                for a in pick(rs, 3):
                    try_add(out, mode, mn, [reg(a), imm(v, min(size, 32))])
                try_add(out, mode, mn, [reg(rs[0]), imm(v, min(size, 32))], form="acc")
                try_add(out, mode, mn, [pick(mems_of(mode, size, rnd, T), 1)[0], imm(v, min(size, 32))])
            if size > 8 and mn not in ("test", "mov"):
                for v in (0x7f, 0x80, 0xff, 1):
                    try_add(out, mode, mn, [reg(rs[1]), imm(v, 8)])
            if mn == "mov" and size == 64:
                try_add(out, mode, mn, [reg("rax"), imm(0x1122334455667788, 64)])
                try_add(out, mode, mn, [reg("r15"), imm(0xffffffff80000000, 64)])
                try_add(out, mode, mn, [reg("rbx"), imm(0x80000000, 32)], form="c7")
    for mn in ["xchg", "xadd", "cmpxchg"]:
        for size in sizes_of(mode):
            rs = regs_of(mode, size, rnd)
            for a, b in pick([(a, b) for a in rs for b in rs], 5):
                try_add(out, mode, mn, [reg(a), reg(b)])
            for m in pick(mems_of(mode, size, rnd, T), 2):
                try_add(out, mode, mn, [m, reg(rs[1])])
                try_add(out, mode, mn, [m, reg(rs[0])])
            if mn == "xchg" and size > 8:
                try_add(out, mode, mn, [reg(rs[0]), reg(rs[1])], form="acc")
    # ---- lea
    for size in sizes_of(mode, False):
        for m in mems_of(mode, 8, rnd, True):
            if m[1]["seg"]: continue
            for a in pick(regs_of(mode, size, rnd), 2):
                try_add(out, mode, "lea", [reg(a), m])
    # ---- unary
    for mn in ["inc", "dec", "not", "neg", "mul", "imul1", "div", "idiv"]:
        for size in sizes_of(mode):
            rs = regs_of(mode, size, rnd)
            for a in pick(rs, 4):
                try_add(out, mode, mn, [reg(a)])
            for m in pick(mems_of(mode, size, rnd, T), 2):
                try_add(out, mode, mn, [m])
    for size in sizes_of(mode, False):
        rs = regs_of(mode, size, rnd)
        for a, b in pick([(a, b) for a in rs for b in rs], 4):
            try_add(out, mode, "imul2", [reg(a), reg(b)])
        try_add(out, mode, "imul2", [reg(rs[0]), mems_of(mode, size, rnd)[0]])
        for v, vs in [(0x7f, 8), (0x80, 8), (0x12345 & ((1 << min(size, 32)) - 1), min(size, 32)), ((1 << min(size, 32)) - 1, min(size, 32))]:
            try_add(out, mode, "imul3", [reg(rs[1]), reg(rs[2]), imm(v, vs)])
            try_add(out, mode, "imul3", [reg(rs[0]), mems_of(mode, size, rnd)[1], imm(v, vs)])
    # ---- shifts / rotates
    for mn in ["shl", "shr", "sar", "rol", "ror"]:
        for size in sizes_of(mode):
            rs = regs_of(mode, size, rnd)
            for a in pick(rs, 3):
                try_add(out, mode, mn, [reg(a), imm(1, 8)], form="one")
                try_add(out, mode, mn, [reg(a), reg("cl")])
                for v in pick([0, 1, 2, size - 1, size, size + 1, 31, 32, 63, 0xff], 4):
                    try_add(out, mode, mn, [reg(a), imm(v, 8)])
            m = mems_of(mode, size, rnd)[0]
            try_add(out, mode, mn, [m, reg("cl")]); try_add(out, mode, mn, [m, imm(3, 8)])
    for mn in ["shld", "shrd"]:
        for size in sizes_of(mode, False):
            rs = regs_of(mode, size, rnd)
            for a, b in pick([(a, b) for a in rs for b in rs if a != b], 3):
                try_add(out, mode, mn, [reg(a), reg(b), reg("cl")])
                for v in pick([0, 1, 4, size - 1, size, 33], 3):
                    try_add(out, mode, mn, [reg(a), reg(b), imm(v, 8)])
            try_add(out, mode, mn, [mems_of(mode, size, rnd)[0], reg(rs[1]), imm(5, 8)])
    # ---- bit instructions
    for mn in ["bt", "bts", "btr", "btc"]:
        for size in sizes_of(mode, False):
            rs = regs_of(mode, size, rnd)
            for a, b in pick([(a, b) for a in rs for b in rs], 3):
                try_add(out, mode, mn, [reg(a), reg(b)])
            for v in pick([0, 1, size - 1, size, 0xff], 3):
                try_add(out, mode, mn, [reg(rs[1]), imm(v, 8)])
            m = mems_of(mode, size, rnd)[0]
            try_add(out, mode, mn, [m, reg(rs[2])]); try_add(out, mode, mn, [m, imm(size + 3, 8)])
    for mn in ["bsf", "bsr"]:
        for size in sizes_of(mode, False):
            rs = regs_of(mode, size, rnd)
            for a, b in pick([(a, b) for a in rs for b in rs], 3):
                try_add(out, mode, mn, [reg(a), reg(b)])
            try_add(out, mode, mn, [reg(rs[0]), mems_of(mode, size, rnd)[0]])
    for size in ([32, 64] if mode == 64 else [32]):
        for a in regs_of(mode, size, rnd):
            try_add(out, mode, "bswap", [reg(a)])
    # ---- extension moves
    for mn in ["movzx", "movsx"]:
        for dsize in sizes_of(mode, False):
            for ssize in (8, 16):
                if ssize >= dsize: continue
                for a in pick(regs_of(mode, dsize, rnd), 3):
                    for b in pick(regs_of(mode, ssize, rnd), 3):
                        try_add(out, mode, mn, [reg(a), reg(b)])
                    try_add(out, mode, mn, [reg(a), mems_of(mode, ssize, rnd)[0]])
    if mode == 64:
        for a in regs_of(64, 64, rnd)[:4]:
            for b in regs_of(64, 32, rnd)[:3]:
                try_add(out, mode, "movsxd", [reg(a), reg(b)])
            try_add(out, mode, "movsxd", [reg(a), mems_of(64, 32, rnd)[0]])
    for mn in ["cbw", "cwde", "cwd", "cdq"] + (["cdqe", "cqo"] if mode == 64 else []):
        add(mn)
    # ---- flags / misc
    for mn in ["clc", "stc", "cmc", "cld", "std", "cli", "sti", "sahf", "nop", "hlt", "leave", "pause", "wait", "syscall", "sysenter", "ud2"]:
        add(mn)
    add("int", [imm(0x80, 8)])
    # ---- condition codes
    for cc in E.CC:
        for a in pick(regs_of(mode, 8, rnd), 3):
            try_add(out, mode, "setcc", [reg(a)], cc=cc)
        try_add(out, mode, "setcc", [mems_of(mode, 8, rnd)[0]], cc=cc)
        for size in sizes_of(mode, False):
            rs = regs_of(mode, size, rnd)
            try_add(out, mode, "cmovcc", [reg(rs[0]), reg(rs[1])], cc=cc)
            if T: try_add(out, mode, "cmovcc", [reg(rs[2]), mems_of(mode, size, rnd)[0]], cc=cc)
        add("jcc", cc=cc, rel=0x10); add("jcc", cc=cc, rel=-0x20 & 0xff if False else -0x20, near=False)
        add("jcc", cc=cc, rel=0x1234, near=True)
    for mn in ["loop", "loope", "loopne", "jcxz"]:
        add(mn, rel=0x10); add(mn, rel=-0x10)
    # ---- control flow
    add("jmp", rel=0x20); add("jmp", rel=-0x30); add("jmp", rel=0x12345, near=True)
    add("call", rel=0x100); add("call", rel=-0x100)
    add("ret"); add("ret", [imm(8, 16)]); add("ret", [imm(0xfff8, 16)])
    W = mode
    for a in regs_of(mode, W, rnd):
        try_add(out, mode, "jmp", [reg(a)]); try_add(out, mode, "call", [reg(a)])
        try_add(out, mode, "push", [reg(a)]); try_add(out, mode, "pop", [reg(a)])
        try_add(out, mode, "push", [reg(a)], form="ff"); try_add(out, mode, "pop", [reg(a)], form="8f")
    for m in mems_of(mode, W, rnd, True):
        try_add(out, mode, "jmp", [m]); try_add(out, mode, "call", [m])
        try_add(out, mode, "push", [m]); try_add(out, mode, "pop", [m])
    for a in regs_of(mode, 16, rnd)[:3]:
        try_add(out, mode, "push", [reg(a)]); try_add(out, mode, "pop", [reg(a)])
    for v, s in [(0x7f, 8), (0x80, 8), (0x12345678, 32), (0x80000000, 32)]:
        try_add(out, mode, "push", [imm(v, s)])
    # ---- string instructions
    for mn, sizes in [("movs", [8, 16, 32, 64]), ("stos", [8, 16, 32, 64]), ("cmps", [8, 16, 32, 64]), ("lods", [8, 16, 32, 64]), ("scas", [8, 16, 32, 64])]:
        for size in sizes:
            if size == 64 and mode != 64: continue
            add(mn, size=size)
            K = 3 if not T else 6
            if mn == "movs" and size >= 32 and not T:
                K = 2          # two overlapping 4/8-byte copies are what the quick tier's per-query budget decides; the thorough tier uses 6
            if mn in ("movs", "stos", "lods"):
                add(mn, size=size, rep="rep", max_count=K)
            else:
                add(mn, size=size, rep="rep", max_count=K); add(mn, size=size, rep="repne", max_count=K)
    # ---- SSE subset (amd64 tables only contain xmm registers)
    if mode == 64:
        xs = regs_of(mode, 128, rnd)
        for mn in ["movdqa", "movdqu", "movaps", "movapd", "movups"]:
            for a, b in pick([(a, b) for a in xs for b in xs], 3):
                try_add(out, mode, mn, [reg(a), reg(b)])
            m = mems_of(mode, 128, rnd)[0]
            try_add(out, mode, mn, [reg(xs[1]), m]); try_add(out, mode, mn, [m, reg(xs[2])], form="store")
        for mn in ["paddq", "psubq", "psubb", "pxor", "por", "pcmpeqb", "pcmpeqd", "pminub", "punpcklbw", "punpcklwd"]:
            for a, b in pick([(a, b) for a in xs for b in xs], 4):
                try_add(out, mode, mn, [reg(a), reg(b)])
            try_add(out, mode, mn, [reg(xs[0]), mems_of(mode, 128, rnd)[0]])
        for order in [0x00, 0x1b, 0xe4, 0xff, 0x4e]:
            try_add(out, mode, "pshufd", [reg(xs[0]), reg(xs[1]), imm(order, 8)])
            try_add(out, mode, "pshufd", [reg(xs[3]), mems_of(mode, 128, rnd)[1], imm(order, 8)])
        for n in [0, 1, 4, 8, 15, 16, 17, 255]:
            try_add(out, mode, "pslldq", [reg(xs[1]), imm(n, 8)]); try_add(out, mode, "psrldq", [reg(xs[3]), imm(n, 8)])
        for a in xs[:3]:
            try_add(out, mode, "movq", [reg(a), reg(xs[1])]); try_add(out, mode, "movq", [reg(a), mems_of(mode, 64, rnd)[0]])
            try_add(out, mode, "movq_store", [mems_of(mode, 64, rnd)[0], reg(a)], form="store")
            try_add(out, mode, "movq_store", [reg(xs[2]), reg(a)], form="store")
            for g in ["rax", "r9"]:
                try_add(out, mode, "movq_gpr", [reg(a), reg(g)]); try_add(out, mode, "movq_gpr", [reg(g), reg(a)], form="store")
            for g in ["eax", "r9d"]:
                try_add(out, mode, "movd", [reg(a), reg(g)]); try_add(out, mode, "movd", [reg(g), reg(a)], form="store")
            try_add(out, mode, "movd", [reg(a), mems_of(mode, 32, rnd)[0]]); try_add(out, mode, "movd", [mems_of(mode, 32, rnd)[0], reg(a)], form="store")
            try_add(out, mode, "pmovmskb", [reg("eax"), reg(a)]); try_add(out, mode, "pmovmskb", [reg("r10d"), reg(a)])
            for mn in ["movhpd", "movlpd"]:
                try_add(out, mode, mn, [reg(a), mems_of(mode, 64, rnd)[0]]); try_add(out, mode, mn, [mems_of(mode, 64, rnd)[1], reg(a)], form="store")
        try_add(out, mode, "movnti", [mems_of(mode, 32, rnd)[0], reg("eax")]); try_add(out, mode, "movnti", [mems_of(mode, 64, rnd)[0], reg("rbx")])
    for mn in ["prefetchnta", "prefetcht0", "prefetcht1", "prefetcht2"]:
        try_add(out, mode, mn, [mems_of(mode, 8, rnd)[0]])
    return out


def try_add(out, mode, mn, ops, **kw):
    d = dict(mn=mn, ops=list(ops)); d.update(kw)
    out.append(d)


def build_items(mode, tier, rnd):
    items = []
    seen = set()
    arch = "amd64" if mode == 64 else "x86"
    for d in corpus(mode, tier, rnd):
        try:
            b = E.encode(mode, d)
        except (E.EncErr, KeyError, ValueError, IndexError):
            continue
        if len(b) > 15: continue
        hx = b.hex()
        if (hx, d.get("max_count")) in seen: continue
        seen.add((hx, d.get("max_count")))
        items.append({"bytes": hx, "address": ADDR, "desc": d, "mode": mode, "arch": arch, "label": f"{arch}: {label(mode, d)}"})
    return items


# ----------------------------------------------------------------- spec --

def specfn(ctx, item, lift):
    mode = item["mode"]; d = item["desc"]
    try:
        st, r = X.spec(mode, d, ctx.input, ctx.mem0, item["address"], len(item["bytes"]) // 2)
    except X.Unsupported as e:
        raise NotImplementedError(str(e))
    so = liftcheck.SpecOut()
    so.regs.update(st.regs)
    so.regs.update(st.flags)
    so.mem = st.mem
    so.next_pc = r.next_pc
    so.assume = r.assume
    so.undef = dict(r.undef_flags)
    so.intrinsic = r.intrinsic
    so.accessed = r.accessed
    so.classes = r.classes
    # flat memory model: the bases of cs/ds/es/ss are zero (only fs/gs carry a base)
    for nme, v in list(ctx.inputs.items()):
        if nme in ("cs_base", "ds_base", "es_base", "ss_base"):
            so.assume.append(v == 0)
    return so


OBS = set(E.R64) | set(E.R32[:8]) | set(E.XMM) | set(X.FLAGS)


def observable(n):
    return n in OBS


def steps_for(d):
    if d["mn"] in ("bsf", "bsr"):
        return 3 * opsizeof(d) + 8
    if d.get("rep"):
        return 6 * d.get("max_count", 3) + 10
    return 8


def opsizeof(d):
    return E.opsize(d["ops"][0])


def work(item):
    d = item["desc"]
    from checks import x86native as N
    win = (N.WIN_LO, N.WIN_HI, N.PIN) if item["arch"] == "amd64" else None
    item = dict(item); item["pin_pc"] = True
    r = liftcheck.analyse(item["arch"], "little", item, specfn, k=steps_for(d), timeout_ms=int(os.environ.get("VERIF_QUERY_MS", "30000")), window=win,
                          observables=observable, flag_names=X.FLAGS, k_is_bound=True)
    r["sig"] = signature(item, r)
    r["mn"] = d["mn"]
    return r


def opcoarse(d):
    ops = d.get("ops", [])
    if not ops:
        return "-"
    s = str(E.opsize(ops[0]))
    if any(o[0] == "mem" for o in ops): s += "m"
    if any(o[0] == "reg" and E.REGINFO[o[1]][2] == 'h' for o in ops): s += "h"
    if any(o[0] == "imm" for o in ops): s += "i"
    return s


def sig_base(item):
    """Role signature: architecture / mnemonic (+rep kind).  Operand sizes and registers are
    deliberately not part of it: the listed defects are in per-mnemonic semantics builders."""
    d = item["desc"]
    extra = ""
    if d.get("rep"): extra += "." + d["rep"]
    return f"{item['arch']}/{d['mn']}{extra}"


def signature(item, r):
    return sig_base(item) + "/" + r.get("status", "?")


# ----------------------------------------------------------------- main --

def main():
    from smt import drv
    drv.build()
    rep = common.Report("C01", "translation_validation")
    rnd = random.Random(rep.seed * 7919 + 1)
    items = build_items(64, rep.tier, rnd) + build_items(32, rep.tier, rnd)
    if os.environ.get("C01_ONLY"):
        pat = os.environ["C01_ONLY"]
        items = [it for it in items if pat in it["label"]]
    results = common.pmap(work, items, chunksize=4)
    finish(rep, items, results)


def finish(rep, items, results):
    from checks import x86native
    counts = {}
    bymn = {}
    for it, r in zip(items, results):
        if "crash" in r:
            rep.encoder_defect(f"{it['label']}: {r['crash']}")
            continue
        st = r["status"]
        counts[st] = counts.get(st, 0) + 1
        rep.solver_s += r.get("solver_s", 0.0)
        if st == "unsat":
            rep.count("unsat"); bymn[r["mn"]] = bymn.get(r["mn"], 0) + 1
            rep.sample({"bytes": it["bytes"], "label": it["label"], "verdict": "unsat: IL == reference for every register/flag/memory state"}, cap=6)
        elif st == "undecided":
            rep.count("undecided"); rep.undecided.append(f"{it['label']} ({r.get('detail','')})")
        elif st in ("rejected", "nospec", "intrinsic-ok"):
            rep.ground["checked"] += 1
        elif st == "mismatch":
            # my encoder and capstone disagree about instruction length: not evidence against falcon
            rep.extra.setdefault("encoder_mismatch", []).append(f"{it['label']} {it['bytes']}: {r['detail']}")
        elif st == "vacuous":
            rep.extra.setdefault("no_admissible_state", []).append(it["label"])
        elif st == "sat" and r.get("findings"):
            rep.count("sat")
            for f in r["findings"]:
                r1 = dict(r); r1["model"] = f["model"]; r1["diffs"] = f["diffs"]
                confirmed, note = x86native.confirm(it, r1)
                what = f"{it['label']} bytes={it['bytes']}: differs in {f['diffs']} for states in class '{f['class']}'; {note}"
                if confirmed is False:
                    rep.encoder_defect(f"model does not reproduce: {what}")
                    continue
                sig = f"{sig_base(it)}/{f['class']}/{f['group']}"
                rep.violation(sig, what, {"item": it, "finding": f, "replay_note": note})
        elif st in ("sat", "sorterr", "panic", "died", "incomplete", "intrinsic-mismatch"):
            rep.count("sat")
            confirmed, note = x86native.confirm(it, r)
            what = f"{it['label']} bytes={it['bytes']}: {st} {r.get('diffs', '')} {r.get('detail','')} {note}"
            if confirmed is False:
                rep.encoder_defect(f"model does not reproduce: {what}")
                continue
            d0 = (r.get("diffs") or [st])[0]
            rep.violation(f"{sig_base(it)}/{d0 if st == 'sat' else st}", what, {"item": it, "result": r, "replay_note": note})
    rep.extra["status_counts"] = counts
    rep.extra["unsat_by_mnemonic"] = bymn
    rep.functions_encoded = ["translator::x86::{X86,Amd64}::translate_block (run concretely per encoding; output IL encoded)",
                             "lib/translator/x86/semantics.rs builders, x86register.rs get/set, mode.rs operand helpers (through their IL output)"]
    rep.bounds = {"encodings": len(items), "rep_count_max": 3 if rep.tier == "quick" else 6, "bsf_bsr_unroll": "3*width+8 block steps",
                  "outside": "encodings not generated; PF/AF; x87/AVX; faults; 32-bit address wrap"}
    nprog = counts.get("unsat", 0) + counts.get("sat", 0)
    rep.finish({"programs": max(1, len(items)), "disagreements_checked": counts.get("sat", 0),
                "explanation": "one solver query per generated encoding: all registers, flags and memory symbolic"},
               assumptions=["specs/x86.py is my reading of the Intel SDM; confirmed on the host CPU for amd64 counterexamples where possible",
                            "architecturally undefined flags masked; #DE states of div/idiv assumed away; bsf/bsr source != 0",
                            "C04 deviations (ashr amount > width, sext to non-byte width) assumed away where symbolic"])


if __name__ == "__main__":
    main()
