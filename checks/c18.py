#!/usr/bin/env python3
"""C18 - program locations navigate and round-trip consistently.

Engine B: the MIR of il::location (RefProgramLocation::forward/backward/from_address, ProgramLocation::apply,
From<RefProgramLocation>) and il::Function::locations is executed symbolically on a function whose control-flow
graph has a SYMBOLIC EDGE SET (one z3 Bool per possible edge, self-loops included, shared by the edge map and the
successor/predecessor sets of the real Graph<Block, Edge> value).  Blocks carry 0..2 instructions (configurations
enumerated: empty blocks, non-dense instruction indices, duplicate addresses).  On every feasible path all
locations are enumerated with the real `locations()`, `forward()` and `backward()` are run on each of them, and
the results are compared with the definitions stated over the edge variables: converse relation, every location
exactly once, forward closure from the entry = locations on paths from the entry block, owned-location round trip,
address lookup.  A solver-chosen function per path is also run through the real code (driver `locations`)."""
import sys, os, re, json
sys.path.insert(0, os.path.dirname(os.path.dirname(os.path.abspath(__file__))))
import z3
from checks import common, c11
from smt import solve, drv
from mirsym import interp as I, models as M, pycont as PC, dump

R = M.R
val = M.val
N = 3


def bvv(i): return z3.BitVecVal(i, 64)


def program():
    path, dt = dump.mir_path()
    prog = I.Program(path, "/repo/lib", lambda n: n.startswith(("graph::", "const graph::", "location::", "il::", "function::", "block::", "edge::", "instruction::", "control_flow_graph::", "program::", "const location::")))
    return prog, dt


def find(prog, pat):
    c = [n for n in prog.raw if re.search(pat, n)]
    if len(c) != 1:
        raise RuntimeError(f"cannot locate exactly one function for {pat}: {c[:4]}")
    return c[0]


class Fn:
    """A function with N blocks; cfg[b] = list of (instruction index, address) and a symbolic edge set."""

    def __init__(self, cfgspec, entry=0):
        self.spec = cfgspec; self.entry = entry
        self.E = {(i, j): z3.Bool(f"e_{i}_{j}") for i in range(N) for j in range(N)}

    def value(self):
        blocks = {}
        for b in range(N):
            ins = PC.PVec([I.Agg("struct", "Instruction", [I.Opaque("op"), bvv(idx), M.none(), (M.some(bvv(addr)) if addr is not None else M.none())]) for idx, addr in self.spec[b]])
            nxt = max([i for i, _ in self.spec[b]] + [-1]) + 1
            blocks[b] = I.Agg("struct", "Block", [bvv(b), bvv(nxt), ins, PC.PVec()])
        verts = PC.PMap(blocks)
        edges = PC.PMap()
        for (i, j), c in self.E.items():
            edges.d[(i, j)] = [c, I.ValRef(I.Agg("struct", "Edge", [bvv(i), bvv(j), M.none(), M.none()]))]
        succ = PC.PMap({i: PC.PSet({j: self.E[(i, j)] for j in range(N)}) for i in range(N)})
        pred = PC.PMap({j: PC.PSet({i: self.E[(i, j)] for i in range(N)}) for j in range(N)})
        g = I.Agg("struct", "Graph", [verts, edges, succ, pred])
        cfg = I.Agg("struct", "ControlFlowGraph", [g, bvv(N), bvv(0), M.some(bvv(self.entry)), M.some(bvv(N - 1)), z3.BoolVal(False)])
        return I.Agg("struct", "Function", [bvv(0x1000), cfg, M.none(), M.some(bvv(0))])

    def all_locations(self):
        """(key, presence condition) of every location of the function"""
        out = []
        for b in range(N):
            if not self.spec[b]: out.append((("empty", b), z3.BoolVal(True)))
            for idx, _ in self.spec[b]: out.append((("ins", b, idx), z3.BoolVal(True)))
        for (i, j), c in self.E.items(): out.append((("edge", i, j), c))
        return out

    def reach_blocks(self):
        cur = {b: z3.BoolVal(b == self.entry) for b in range(N)}
        for _ in range(N):
            cur = {b: z3.Or(cur[b], *[z3.And(cur[a], self.E[(a, b)]) for a in range(N)]) for b in range(N)}
        return cur


def key_of(loc):
    loc = val(loc)
    if loc.name == "RefProgramLocation": loc = val(loc.fields[1])
    v = loc.variant
    ix = lambda x: PC.pykey(val(x))
    if v == 0: return ("ins", ix(val(loc.fields[0]).fields[0]), ix(val(loc.fields[1]).fields[1]))
    if v == 1: e = val(loc.fields[0]); return ("edge", ix(e.fields[0]), ix(e.fields[1]))
    return ("empty", ix(val(loc.fields[0]).fields[0]))


class Interp18(I.Interp):
    def call(self, name, args, idx=0):
        if name == "__c18__":
            return self.script(*args)
        return super().call(name, args, idx)

    def script(self, fnv, names):
        fref = I.ValRef(fnv)
        res = {"locs": [], "fwd": {}, "bwd": {}, "rt": {}, "addr": {}}
        locs = val(super().call(names["locations"], [fref]))
        for L in locs.items:
            k = key_of(L); res["locs"].append(k)
            for d in ("fwd", "bwd"):
                rpl = I.Agg("struct", "RefProgramLocation", [fref, L])
                r = val(super().call(names["forward" if d == "fwd" else "backward"], [I.ValRef(rpl)]))
                res[d][k] = ("err", None) if r.variant != 0 else ("ok", [key_of(x) for x in val(r.fields[0]).items])
        if names.get("apply"):
            prog_ = I.Agg("struct", "Program", [PC.PMap({0: I.Agg("struct", "RC", [fref])}), bvv(1)])
            for L in locs.items:
                rpl = I.Agg("struct", "RefProgramLocation", [fref, L])
                owned = super().call(names["from"], [rpl])
                r = val(super().call(names["apply"], [I.ValRef(owned), I.ValRef(prog_)]))
                res["rt"][key_of(L)] = ("err", None) if r.variant != 0 else ("ok", key_of(r.fields[0]))
            for a in names["addresses"]:
                r = val(super().call(names["from_address"], [I.ValRef(prog_), bvv(a)]))
                res["addr"][a] = None if r.variant == 0 else key_of(r.fields[0])
        return res


def m_into_via_from(it, c, a):
    """<S as Into<T>>::into is the blanket impl over T: From<S>: find falcon's own `from`"""
    m = re.match(r"^<(.+) as Into<(.+)>>::into$", c)
    short = lambda t: re.sub(r"<.*>", "", t).split("::")[-1]
    src, dst = short(m.group(1)), short(m.group(2))
    cands = [n for n in it.prog.raw if n.endswith("::from") and re.search(r"\b" + re.escape(src) + r"\b", it.prog.raw[n][0][1]) and re.search(r"\b" + re.escape(dst) + r"\b", it.prog.raw[n][0][2])]
    if len(cands) != 1:
        raise I.Unsupported(f"no unique From impl for {c}: {cands[:3]}")
    return it.call(cands[0], a)


def m_map_err(it, c, a):
    r = val(a[0])
    if r.variant == 0: return r
    return I.Agg("enum", "Result", [it.call_closure(a[1], [r.fields[0]])], 1)


def m_result_map(it, c, a):
    r = val(a[0])
    if r.variant != 0: return r
    return I.Agg("enum", "Result", [it.call_closure(a[1], [r.fields[0]])], 0)


def m_unwrap_or(it, c, a):
    o = val(a[0]); return o.fields[0] if o.variant == 1 else a[1]


def extra18():
    return [
        (R(r"Option::<.*>::unwrap_or$"), m_unwrap_or),
        (R(r"Result::<.*>::map_err::<"), m_map_err),
        (R(r"Result::<.*>::map::<"), m_result_map),
        (R(r"^<location::.* as Into<location::.*>>::into$"), m_into_via_from),
        (R(r"^<RC<.*> as AsRef<.*>>::as_ref$|^<Rc<.*> as AsRef<.*>>::as_ref$|^<Arc<.*> as AsRef<.*>>::as_ref$|^<R[Cc]<.*> as Deref>::deref$|^<Arc<.*> as Deref>::deref$|^<std::sync::Arc<.*> as (AsRef<.*>|Deref)>::(as_ref|deref)$|^<std::rc::Rc<.*> as (AsRef<.*>|Deref)>::(as_ref|deref)$"),
         lambda it, c, a: val(a[0]).fields[0]),
        (R(r"^<(?:Block|il::Block|block::Block) as Clone>::clone$|^<(?:Edge|il::Edge|edge::Edge) as Clone>::clone$"), lambda it, c, a: PC.clone(a[0])),
    ]


SPECS = {
    "mixed": [[(0, 0x1000)], [(0, 0x1010), (1, 0x1014)], []],
    "all-empty": [[], [], []],
    "nondense": [[(0, 0x1000), (2, 0x1008)], [], [(3, 0x1020)]],
    "dup-addr": [[(0, 0x1000), (1, 0x1000)], [(0, 0x1000)], [(0, None)]],
    "empty-entry": [[], [(0, 0x1010)], [(0, 0x1020), (1, 0x1024)]],
    "below-entry": [[(0, 0x0ff0)], [(0, 0x1010), (1, 0x0ff8)], []],        # instruction addresses below the function's own address
    "full": [[(0, 0x1000), (1, 0x1004)], [(0, 0x1010), (1, 0x1014)], [(0, 0x1020), (1, 0x1024)]],
}


def work(item):
    prog, _ = program()
    spec = SPECS[item["spec"]]
    f = Fn(spec, entry=item.get("entry", 0))
    names = {"locations": find(prog, r"^function::<impl at lib/il/function\.rs:\d+:1: \d+:\d+>::locations$"),
             "forward": find(prog, r"^location::<impl at lib/il/location\.rs:\d+:1: \d+:\d+>::forward$"),
             "backward": find(prog, r"^location::<impl at lib/il/location\.rs:\d+:1: \d+:\d+>::backward$")}
    if item.get("roundtrip"):
        names["apply"] = [n for n in prog.raw if re.search(r"^location::<impl at lib/il/location\.rs:\d+:1: \d+:\d+>::apply$", n) and "ProgramLocation" in prog.raw[n][0][1] and "Program," in prog.raw[n][0][1] + ","][0]
        names["from"] = [n for n in prog.raw if re.search(r"^location::<impl at lib/il/location\.rs:\d+:1: \d+:\d+>::from$", n) and "RefProgramLocation" in prog.raw[n][0][1]][0]
        names["from_address"] = find(prog, r"^location::<impl at lib/il/location\.rs:\d+:1: \d+:\d+>::from_address$")
        names["addresses"] = sorted({a for b in spec for _, a in b if a is not None} | {0x5000})
    out = {"what": f"locations spec={item['spec']} entry={item.get('entry', 0)}" + (" +roundtrip" if item.get("roundtrip") else ""), "paths": 0, "unsat": 0, "findings": [], "undecided": [], "solver_s": 0.0, "calls": set(), "validated": 0, "validation_failures": []}
    it = Interp18(prog, W=64, models=extra18() + c11.extra_models() + PC.MODELS + M.MODELS, timeout_ms=10000)
    pre = [f.E[tuple(k)] if v else z3.Not(f.E[tuple(k)]) for k, v in (item.get("prefix") or [])]

    def mk(it_):
        for c in pre:
            it_.solver.add(c); it_.pc.append(c)
        return [f.value(), names]
    allL = f.all_locations()
    reach = f.reach_blocks()
    T, F = z3.BoolVal(True), z3.BoolVal(False)
    seen = set()

    def finding(kind, detail, m, res=None):
        if kind in seen: return
        seen.add(kind)
        fd = {"kind": kind, "detail": detail, "edges": [[i, j] for (i, j), e in sorted(f.E.items()) if z3.is_true(m.eval(e, model_completion=True))], "replay": "symbolic run only"}
        if res is not None and not any(idx != k for b in range(N) for k, (idx, _) in enumerate(f.spec[b])):
            # replay before reporting: the claims were evaluated on the symbolic run's locations/forward/backward; the real code
            # must return the same for this function, otherwise the model (not falcon) is what the claim rejected
            ok_, det = validate_real(f, m, res)
            fd["replay"] = "confirmed (real locations/forward/backward equal the symbolic run's)" if ok_ else "not reproduced: " + det
        out["findings"].append(fd)
    for r in I.explore(it, "__c18__", mk, max_paths=100000):
        out["paths"] += 1; out["calls"] |= set(r["calls"])
        pc = r["pc"]
        if r["outcome"] == "unsupported":
            out["undecided"].append("unsupported: " + r["msg"][:200]); continue
        if r["outcome"] == "panic":
            v, m, dt = solve.check(pc, 20000); out["solver_s"] += dt
            if v == solve.SAT: finding("panic", r["msg"][:120], m)
            continue
        res = r["value"]
        claims = []      # (kind, z3 Bool that must hold under pc)
        # every location exactly once
        got = res["locs"]
        claims.append(("locations() lists a location twice", T if len(set(got)) == len(got) else F))
        for k, c in allL:
            claims.append((f"locations() misses or invents a location", c == (T if k in got else F)))
        # forward / backward are total on listed locations and converse of each other
        fw = {k: v[1] for k, v in res["fwd"].items() if v[0] == "ok"}; bw = {k: v[1] for k, v in res["bwd"].items() if v[0] == "ok"}
        claims.append(("forward() or backward() fails on a location of the function", T if len(fw) == len(got) and len(bw) == len(got) else F))
        for a in got:
            for b in fw.get(a, []):
                claims.append(("forward successor is not a location / backward is not the converse", T if (b in bw and a in bw[b]) else F))
            for b in bw.get(a, []):
                claims.append(("backward predecessor is not a location / forward is not the converse", T if (b in fw and a in fw[b]) else F))
            claims.append(("forward() lists a successor twice", T if len(set(fw.get(a, []))) == len(fw.get(a, [])) else F))
        # forward closure from the entry = locations on paths from the entry block
        eb = f.entry
        start = ("empty", eb) if not f.spec[eb] else ("ins", eb, f.spec[eb][0][0])
        clos = set(); work_ = [start]
        while work_:
            x = work_.pop()
            if x in clos: continue
            clos.add(x); work_ += fw.get(x, [])
        for k, c in allL:
            onpath = z3.And(c, reach[k[1]])
            claims.append(("forward closure from the entry differs from the locations on paths from the entry block", onpath == (T if k in clos else F)))
        # owned-location round trip and address lookup
        for k, v in res["rt"].items():
            claims.append(("ProgramLocation::from(..).apply(program) is a different location", T if v == ("ok", k) else F))
        for a, k in res["addr"].items():
            have = [("ins", b, idx) for b in range(N) for idx, ad in f.spec[b] if ad == a]
            claims.append(("from_address does not find an instruction with that address although one exists (or finds one with another address)", T if ((k in have) if have else (k is None)) else F))
        bad = z3.Or(*[z3.Not(c) for _, c in claims]) if claims else F
        v, m, dt = solve.check(pc + [bad], 30000); out["solver_s"] += dt
        if v == solve.SAT:
            for kind, c in claims:
                if z3.is_false(m.eval(c, model_completion=True)):
                    finding(kind, f"locations {got[:6]}.. fwd {json.dumps({str(k): v for k, v in list(fw.items())[:4]})[:200]}", m, res); break
        elif v == solve.UNDECIDED: out["undecided"].append("claims query")
        else: out["unsat"] += len(claims)
        if out["paths"] % 41 == 0:
            v, m, dt = solve.check(pc, 10000)
            if v == solve.SAT:
                ok, detail = validate_real(f, m, res)
                if ok: out["validated"] += 1
                else: out["validation_failures"].append(detail)
    out["calls"] = sorted(out["calls"])
    return out


def fn_json(f, m):
    blocks = [{"index": b, "instructions": [{"index": idx, "op": ["nop"], "address": ad} for idx, ad in f.spec[b]], "phis": []} for b in range(N)]
    edges = [{"head": i, "tail": j, "cond": None} for (i, j), e in sorted(f.E.items()) if z3.is_true(m.eval(e, model_completion=True))]
    return {"address": 0x1000, "cfg": {"blocks": blocks, "edges": edges, "entry": f.entry, "exit": N - 1}}


def validate_real(f, m, res):
    """Run the real locations()/forward()/backward() on a solver-chosen function of this path (dense indices only)."""
    if any(idx != k for b in range(N) for k, (idx, _) in enumerate(f.spec[b])):
        return True, ""        # the driver builds blocks through Block::append: instruction indices are dense
    from checks import ilcheck
    fj = fn_json(f, m)
    try:
        r = ilcheck.call_fn("locations", fj)
    except Exception as e:
        return False, f"driver locations failed: {e}"
    real_f = {tuple(x["loc"]): sorted(tuple(y) for y in x["forward"]) for x in r["locations"]}
    real_b = {tuple(x["loc"]): sorted(tuple(y) for y in x["backward"]) for x in r["locations"]}
    sym_f = {k: sorted(v[1]) for k, v in res["fwd"].items() if v[0] == "ok"}
    sym_b = {k: sorted(v[1]) for k, v in res["bwd"].items() if v[0] == "ok"}
    if real_f != sym_f or real_b != sym_b:
        return False, f"real forward/backward {json.dumps({str(k): v for k, v in real_f.items()})[:200]} vs symbolic {json.dumps({str(k): v for k, v in sym_f.items()})[:200]}"
    return True, ""


def main():
    drv.build()
    rep = common.Report("C18", "model_checking")
    path, dt = dump.mir_path()
    rep.extra["mir_dump_seconds"] = round(dt, 1)
    T = rep.tier == "thorough"
    items = []
    for name in SPECS:
        for entry in ((0,) if not T else (0, 1)):
            # split the path space on the entry block's outgoing edges so that the work spreads over the cores
            import itertools
            for bits in itertools.product([False, True], repeat=N):
                items.append({"spec": name, "entry": entry, "prefix": [[[entry, j], bits[j]] for j in range(N)], "roundtrip": name in ("mixed", "dup-addr", "nondense", "below-entry") or T})
    results = common.pmap(work, items, chunksize=1)
    paths = 0; validated = 0; fns = set()
    for it, r in zip(items, results):
        if "crash" in r:
            rep.encoder_defect(f"{it}: {r['crash']} {r.get('trace','')[-600:]}"); continue
        paths += r["paths"]; rep.solver_s += r["solver_s"]; rep.queries["unsat"] += r["unsat"]; validated += r["validated"]
        fns |= set(r["calls"])
        for vf in r["validation_failures"][:2]:
            rep.encoder_defect(f"{r['what']}: the real code disagrees with the symbolic run on a solver-chosen function: {vf[:400]}")
        for u in sorted(set(r["undecided"])):
            rep.count("undecided"); rep.undecided.append(f"{r['what']}: {u}")
            if "unsupported" in u: rep.encoder_defect(f"{r['what']}: {u}")
        if r["unsat"] and not r["findings"]:
            rep.sample({"function": r["what"], "prefix": it["prefix"], "paths": r["paths"], "obligations_unsat": r["unsat"]}, cap=10)
        for f_ in r["findings"]:
            rep.count("sat")
            if f_.get("replay", "").startswith("not reproduced"):
                rep.encoder_defect(f"model does not reproduce: {r['what']}: {f_['kind']}: {f_['detail']} (edges {f_['edges']}); {f_['replay'][:300]}"); continue
            rep.violation(f"locations/{it['spec']}/{f_['kind'][:70]}", f"{r['what']}: {f_['kind']}: {f_['detail']} (edges {f_['edges']}) [replay: {f_.get('replay')}]", {"item": it, "finding": f_})
    rep.functions_encoded = sorted(fns)[:60]
    rep.bounds = {"blocks": N, "edges": "all 2^9 edge sets (self-loops included), symbolic", "instructions_per_block": "0..2 in six configurations (empty blocks, non-dense indices, duplicate and missing addresses)",
                  "outside": "more blocks; phi nodes; functions of a program other than the one the location belongs to; migrate(); the Display impls"}
    rep.finish({"states": max(1, paths), "transitions": max(1, rep.queries["unsat"] + rep.queries["sat"]), "traces_validated_against_impl": validated,
                "explanation": "states = MIR paths (edge sets) through locations()/forward()/backward()/apply()/from_address(); transitions = per-path claims decided by z3 over the edge variables"},
               assumptions=["std containers behave as documented (mirsym/pycont.py)", "RC<Function> is a transparent shared pointer"])


if __name__ == "__main__":
    main()
