#!/usr/bin/env python3
"""C12 - reaching definitions and def-use / use-def chains cover every execution.

Real reaching_definitions / use_def / def_use run on each IL function.  The bounded run carries a
ghost `last writer` per scalar; z3 decides whether some execution (<= k block-steps, any initial
state) has a last writer that the tables do not list."""
import sys, os, random, json
sys.path.insert(0, os.path.dirname(os.path.dirname(os.path.abspath(__file__))))
import z3
from checks import common, ilcheck
from smt import drv, il2smt, fbmc, solve, replay
from gen import ilgen

IDW = 16


def op_reads(op):
    if op[0] == "intrinsic":
        return [s_[1] for e in (op[1].get("read") or []) for s_ in il2smt.scalars_of(e)]
    exprs = {"assign": op[2:], "store": op[1:], "load": op[2:], "branch": op[1:]}.get(op[0], [])
    return [s_[1] for e in exprs for s_ in il2smt.scalars_of(e)]


def op_writes(op):
    if op[0] == "intrinsic" and op[1].get("written"):
        return [w_[1] for w_ in op[1]["written"] if w_[0] == "scalar"]
    return [op[1][1]] if op[0] in ("assign", "load") else []


def extra_intr(gen, blocks):
    """A declared intrinsic that writes several scalars, followed somewhere by an overwrite of only one of them and a read of another."""
    r = gen.rnd
    if r.random() < 0.5:
        w = gen.widths[0]
        b = r.choice(blocks)
        pos = r.randint(0, len(b["instructions"]))
        b["instructions"].insert(pos, {"op": gen.intrinsic(True, multi=True), "address": 0x2008})
        b["instructions"].insert(pos + 1, {"op": ["assign", ilgen.S("x", w), ilgen.C(3, w)], "address": 0x200c})
        blocks[-1]["instructions"].append({"op": ["assign", ilgen.S("a", w), ["add", ilgen.S("d", w), ilgen.S("b", w)]], "address": 0x2010})


def check_one(item):
    f = ilcheck.view(item["f"]); tier = item["tier"]
    res = {"id": f["meta"]}
    tabs = {}
    for cmd in ("rd", "usedef", "defuse"):
        r = ilcheck.call_fn(cmd, f)
        if "panic" in r or "died" in r:
            res.update(status="panic", detail=f"{cmd}: {r.get('panic', r)}"); return res
        if not r.get("ok"):
            res.update(status="error", detail=f"{cmd}: {r.get('kind')}: {r.get('error')}"); return res
        tabs[cmd] = {tuple(row[0]): [tuple(x) for x in row[1]] for row in r["table"]}
    locs = ilcheck.call_fn("locations", f)
    fwd = {tuple(row["loc"]): [tuple(x) for x in row["forward"]] if isinstance(row["forward"], list) else [] for row in locs["locations"]}
    ins_at = {}
    ids = {}
    for b in f["cfg"]["blocks"]:
        for ins in b["instructions"]:
            loc = ("ins", b["index"], ins["index"])
            ins_at[loc] = ins
            ids[loc] = len(ids) + 1
    scal = ilgen.scalars_in_function(f)
    ground = []
    # (3) precision: every d in RD(l) reaches l along a path without another write of the same scalar
    def writes(loc, s):
        return loc in ins_at and s in op_writes(ins_at[loc]["op"])
    for l, defs in tabs["rd"].items():
        for d in defs:
            if d not in ins_at:
                ground.append(f"RD({l}) lists {d} which is not an instruction"); continue
            ws = op_writes(ins_at[d]["op"])
            if not ws and ins_at[d]["op"][0] != "intrinsic" and ins_at[d]["op"][0] != "nop" and ins_at[d]["op"][0] != "store" and ins_at[d]["op"][0] != "branch":
                continue
            if not ws:
                continue    # falcon lists locations without written scalars too (nop/store); not a definition: ignored
            s = ws[0]
            if d == l:
                continue
            seen = set(); stack = list(fwd.get(d, [])); ok = False
            while stack:
                n = stack.pop()
                if n in seen: continue
                seen.add(n)
                if writes(n, s):
                    continue
                if n == l:
                    ok = True; break
                stack.extend(fwd.get(n, []))
            if not ok:
                ground.append(f"imprecise: RD({l}) lists {d} (writes {s}) but every path from it to {l} rewrites {s}")
    # (4) def_use is the inverse of use_def
    inv = {}
    for l, defs in tabs["usedef"].items():
        for d in defs:
            inv.setdefault(d, set()).add(l)
    for d, uses in tabs["defuse"].items():
        if set(uses) != inv.get(d, set()):
            ground.append(f"def_use({d}) = {sorted(uses)} but inverse of use_def gives {sorted(inv.get(d, set()))}")
            break
    res["ground"] = ground[:5]
    res["n_ground"] = sum(len(v) for v in tabs["rd"].values()) + len(tabs["defuse"])
    # ---- solver part
    k = ilcheck.k_for(f, tier)
    ctx = il2smt.Ctx()
    ctx.intrinsic_havoc = True
    lane = fbmc.Lane(f["cfg"], ctx)
    groups = {"rd": [], "ud-other": [], "ud-multi": [], "ud-self": [], "ud-mw": []}
    mw_ids = [ids[l_] for l_, i_ in ins_at.items() if len(op_writes(i_["op"])) >= 2]

    def last(st, s):
        return st.ghost.get("lw:" + s)

    def rd_ob(loc, g, st):
        defs = tabs["rd"].get(loc)
        gg = z3.BoolVal(True) if g is True else g
        if defs is None:
            groups["rd"].append((f"{loc} executed but has no reaching-definitions entry", gg)); return
        for s in scal:
            lw = last(st, s)
            if lw is None: continue
            allowed = [ids[d] for d in defs if d in ins_at and s in op_writes(ins_at[d]["op"])]
            groups["rd"].append((f"RD({loc}) misses the last writer of {s}", z3.And(gg, lw != 0, *[lw != z3.BitVecVal(i, IDW) for i in allowed])))

    def ud_ob(loc, reads, wr, g, st):
        defs = tabs["usedef"].get(loc, [])
        gg = z3.BoolVal(True) if g is True else g
        for s in sorted(set(reads)):
            lw = last(st, s)
            if lw is None: continue
            allowed = [ids[d] for d in defs if d in ins_at and s in op_writes(ins_at[d]["op"])]
            grp = "ud-multi" if len(reads) >= 2 else ("ud-self" if s in wr else "ud-other")
            by_mw = z3.Or(*[lw == z3.BitVecVal(i, IDW) for i in mw_ids]) if mw_ids else z3.BoolVal(False)
            miss = z3.And(gg, lw != 0, *[lw != z3.BitVecVal(i, IDW) for i in allowed])
            groups[grp].append((f"use_def({loc}) misses the last writer of {s}", z3.And(miss, z3.Not(by_mw))))
            if mw_ids:
                groups["ud-mw"].append((f"use_def({loc}) misses the last writer of {s}, an instruction that writes several scalars", z3.And(miss, by_mw)))

    class H(fbmc.Hooks):
        def before(self, b, pos, ins, g, sts):
            op = ins[0]["op"]
            ud_ob(("ins", b, ins[0]["index"]), op_reads(op), op_writes(op), g, sts[0])

        def after(self, b, pos, ins, g, sts, kinds):
            op = ins[0]["op"]
            loc = ("ins", b, ins[0]["index"])
            for s in op_writes(op):
                sts[0].ghost["lw:" + s] = z3.BitVecVal(ids[loc], IDW)
            if kinds[0] == "fall":
                rd_ob(loc, g, sts[0])

        def edge_taken(self, e, ge, sts):
            loc = ("edge", e["head"], e["tail"])
            if e["cond"] is not None:
                ud_ob(loc, [x[1] for x in il2smt.scalars_of(e["cond"])], [], ge, sts[0])
            rd_ob(loc, ge, sts[0])

        def empty_block(self, b, g, sts):
            rd_ob(("empty", b), g, sts[0])
    st0 = il2smt.initial_state(ctx)
    for s in scal:
        st0.ghost["lw:" + s] = z3.BitVecVal(0, IDW)
    try:
        fbmc.run([lane], k, H(), [st0])
    except il2smt.SortError as e:
        res.update(status="sorterr", detail=str(e)); return res
    res["k"] = k
    res["obligations"] = sum(len(v) for v in groups.values())
    res["solver_s"] = 0.0
    out = {}
    for gname, obs in groups.items():
        if not obs:
            out[gname] = "none"; continue
        v, m, dt = solve.check(list(ctx.c04_assumptions) + [z3.Or(*[c for _, c in obs])], 60000)
        res["solver_s"] += dt
        out[gname] = v
        if v == solve.SAT:
            which = [d for d, c in obs if z3.is_true(m.eval(c, model_completion=True))]
            scm, mem_read = ilcheck.model_inputs(ctx, m)
            ok, note = concrete_confirm(f, tabs, which, scm, mem_read, k, gname)
            out[gname + ":which"] = which[:3]; out[gname + ":reproduced"] = ok; out[gname + ":note"] = note
            out[gname + ":model"] = scm
    res["verdicts"] = out
    res["status"] = "done"
    res["function"] = f if any(v == solve.SAT for v in out.values()) or ground else None
    return res


def concrete_confirm(f, tabs, which, scm, mem_read, k, gname):
    """Concrete execution tracking the last writer; reports the first location whose table misses it."""
    st = replay.CState({kk: (v[0], v[1]) for kk, v in scm.items()}, mem_read=mem_read)
    last = {}
    blocks = {b["index"]: b for b in f["cfg"]["blocks"]}
    out = {}
    for e in f["cfg"]["edges"]:
        out.setdefault(e["head"], []).append(e)
    ins_at = {("ins", b["index"], i["index"]): i for b in f["cfg"]["blocks"] for i in b["instructions"]}

    def miss(table, loc, names):
        defs = tabs[table].get(loc, [])
        for s in names:
            if s in last and last[s] not in defs:
                return f"{table}({loc}) does not list {last[s]}, the last writer of {s} on this execution"
        return None
    b = f["cfg"]["entry"]
    try:
        for step in range(4 * k + 50):
            blk = blocks[b]
            if not blk["instructions"] and gname == "rd":
                r = miss("rd", ("empty", b), list(last))
                if r: return True, r
            for ins in blk["instructions"]:
                loc = ("ins", b, ins["index"])
                if gname != "rd":
                    rds = op_reads(ins["op"])
                    want = (len(rds) >= 2) if gname == "ud-multi" else True
                    if want:
                        r = miss("usedef", loc, sorted(set(rds)))
                        if r: return True, r
                if ins["op"][0] == "intrinsic" and ins["op"][1].get("written") is not None:
                    hv = getattr(mem_read, "havoc", {}) or {}
                    for w_ in ins["op"][1]["written"]:
                        if w_[0] == "scalar":
                            st.sc[st.key(w_)] = (hv.get(f"havoc!{step}!{b}!{ins['index']}!{w_[1]}", 0) & ((1 << w_[2]) - 1), w_[2])
                    kind = "fall"
                else:
                    kind, _ = replay.exec_op(st, ins["op"])
                for s in op_writes(ins["op"]):
                    last[s] = loc
                if kind != "fall":
                    return False, "path ended at " + kind
                if gname == "rd":
                    r = miss("rd", loc, list(last))
                    if r: return True, r
            nxt = None
            for e in out.get(b, []):
                if e["cond"] is None or replay.ev(st, e["cond"])[0] == 1:
                    nxt = e; break
            if nxt is None:
                return False, "path ended"
            eloc = ("edge", nxt["head"], nxt["tail"])
            if gname != "rd" and nxt["cond"] is not None:
                r = miss("usedef", eloc, sorted({x[1] for x in il2smt.scalars_of(nxt["cond"])}))
                if r: return True, r
            if gname == "rd":
                r = miss("rd", eloc, list(last))
                if r: return True, r
            b = nxt["tail"]
    except replay.Fault as e:
        return False, f"fault {e}"
    return False, "no miss within the replay bound"


ROLE = {"ud-multi": "use_def/last writer missing for a reader of two or more scalar occurrences",
        "ud-self": "use_def/last writer missing for a reader that also writes the scalar",
        "ud-other": "use_def/last writer missing", "rd": "reaching_definitions/last writer missing",
        "ud-mw": "use_def/last writer missing when the last writer is an instruction that writes several scalars"}


def main():
    drv.build()
    rep = common.Report("C12", "model_checking")
    n = 360 if rep.tier == "quick" else 2400
    fs = ilgen.corpus(3000 + rep.seed, n, profile="mixed", widths=(32, 8))
    fs += ilgen.corpus(3500 + rep.seed, n // 3, profile="const", widths=(32,))
    holed = ilgen.corpus(3700 + rep.seed, n // 4, profile="mixed", widths=(32,))
    hr = random.Random(rep.seed + 5)
    for f in holed:
        ilgen.add_holes(f, hr); f["meta"]["holes"] = True
    fs += ilgen.corpus(3900 + rep.seed, n // 3, profile="mixed", widths=(32,), extra=extra_intr)
    fs += holed + ilcheck.lifted_corpus(rep.tier)
    items = [{"f": f, "tier": rep.tier} for f in fs]
    results = common.pmap(check_one, items, chunksize=2)
    states = trans = 0
    counts = {}
    for it, r in zip(items, results):
        if "crash" in r:
            rep.encoder_defect(f"{it['f']['meta']}: {r['crash']} {r.get('trace','')[-300:]}"); continue
        st = r["status"]
        rep.solver_s += r.get("solver_s", 0)
        if st in ("panic", "error", "sorterr"):
            counts[st] = counts.get(st, 0) + 1
            rep.ground["checked"] += 1; rep.ground["failed"] += 1
            rep.violation(f"analysis/{st}", f"{it['f']['meta']}: {r.get('detail')}", {"function": it["f"], "result": r}); continue
        states += r.get("n_ground", 0); trans += r.get("obligations", 0)
        rep.ground["checked"] += r.get("n_ground", 0)
        for gmsg in r.get("ground", []):
            rep.ground["failed"] += 1
            has_mw = any(len(op_writes(i_["op"])) >= 2 for b_ in ilcheck.view(it["f"])["cfg"]["blocks"] for i_ in b_["instructions"])
            kind = ("reaching_definitions/imprecise entry" + ("/function with an instruction that writes several scalars" if has_mw else "")) if gmsg.startswith("imprecise") else ("def_use/not the inverse of use_def" if gmsg.startswith("def_use") else "reaching_definitions/malformed entry")
            rep.violation(kind, f"{it['f']['meta']}: {gmsg}", {"function": r["function"], "ground": gmsg})
        for gname in ("rd", "ud-other", "ud-multi", "ud-self", "ud-mw"):
            v = r["verdicts"].get(gname)
            if v == "none": continue
            counts[v] = counts.get(v, 0) + 1
            if v == solve.UNSAT:
                rep.count("unsat")
                rep.sample({"function": it["f"]["meta"], "group": gname, "k": r["k"], "verdict": "unsat"}, cap=6)
            elif v == solve.UNDECIDED:
                rep.count("undecided"); rep.undecided.append(f"{it['f']['meta']} {gname}")
            else:
                rep.count("sat")
                if not r["verdicts"][gname + ":reproduced"]:
                    rep.encoder_defect(f"model does not reproduce for {it['f']['meta']} {gname}: {r['verdicts'][gname + ':which']} ({r['verdicts'][gname + ':note']})"); continue
                rep.violation(ROLE[gname], f"{it['f']['meta']}: {r['verdicts'][gname + ':note']}",
                              {"function": r["function"], "model": r["verdicts"][gname + ":model"], "which": r["verdicts"][gname + ":which"]})
    rep.extra["verdict_counts"] = counts
    rep.functions_encoded = ["analysis::reaching_definitions, use_def, def_use (run concretely; tables checked against all executions <= k)",
                             "il::RefProgramLocation::forward (relation dumped by the driver, used for the path search)"]
    rep.bounds = {"functions": len(items), "k_block_steps": "3x/6x longest acyclic path"}
    rep.finish({"states": max(1, states), "transitions": max(1, trans), "traces_validated_against_impl": counts.get("sat", 0),
                "explanation": "states = table entries checked by path search (ground), transitions = solver obligations (location x scalar) over all executions <= k"},
               assumptions=["smt/ilsem.py is the IL's meaning (C04)", "paths end at indirect branches and at intrinsics without declared effects; an intrinsic with declared effects writes unknown values to exactly the scalars it declares"])


if __name__ == "__main__":
    main()
