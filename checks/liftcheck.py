"""Shared machinery for the lifter properties (C01-C03, parts of C05/C20).

One query per encoding: lift with the real translator (driver), encode the lifted IL
with il2smt, build the reference post-state with the ISA spec, and ask z3 whether any
observable can differ in any state (all registers/flags/memory symbolic)."""
import z3, time
from smt import drv, il2smt, solve, replay
from smt.il2smt import SortError


class SpecOut:
    """What an ISA reference returns, in IL scalar terms."""

    def __init__(self):
        self.regs = {}        # IL scalar name -> z3 term (post value) for every scalar the spec writes
        self.mem = None       # z3 array (post)
        self.next_pc = None   # z3 BV64 or None (no successor: hlt)
        self.assume = []      # z3 Bools
        self.undef = {}       # scalar name -> z3 Bool / True: comparison masked when undefined
        self.intrinsic = False
        self.trap = None      # z3 Bool: states in which the instruction traps (lifted as an intrinsic); None = never
        self.accessed = []    # (addr64, nbytes, guard)
        self.loop_bound = None
        self.classes = None   # optional partition of the state space: name -> z3 Bool


def il_next_pc(ctx, lift, run, fst):
    """Next instruction address according to the IL: Branch target if the path ended in a
    branch op, else the successor whose condition holds in the post-state.
    Returns (pc_term or None, no_successor_condition)."""
    succ = lift["successors"]
    terms = []
    conds = []
    for addr, c in succ:
        if c is None:
            conds.append((z3.BoolVal(True), addr))
        else:
            v = il2smt.ev(ctx, fst, c)
            if v.size() != 1:
                raise SortError("successor condition width")
            conds.append((v == 1, addr))
    pc = None
    for cnd, addr in reversed(conds):
        a = z3.BitVecVal(addr, 64)
        pc = a if pc is None else z3.If(cnd, a, pc)
    none = z3.Not(z3.Or(*[c for c, _ in conds])) if conds else z3.BoolVal(True)
    exactly_one = None
    if len(conds) > 1:
        cs = [c for c, _ in conds]
        exactly_one = z3.PbEq([(c, 1) for c in cs], 1)
    # paths that ended in a Branch operation override
    br = [(g, t) for (g, t) in run.events.branches]
    for g, t in br:
        gg = z3.BoolVal(True) if g is True else g
        pc = t if pc is None else z3.If(gg, t, pc)
        none = z3.And(none, z3.Not(gg))
    return pc, none, exactly_one


def analyse(arch, endian, item, specfn, k=4, timeout_ms=20000, observables=None, window=None, flag_names=(), groupfn=None, k_is_bound=False):
    """item: dict(bytes=hex, address=int, desc=...).  specfn(ctx, item, lift) -> SpecOut.
    Returns a result dict (picklable)."""
    t0 = time.time()
    res = {"bytes": item["bytes"], "desc": item.get("label", ""), "arch": arch}
    lift = drv.call({"cmd": "lift", "arch": arch, "bytes": item["bytes"], "address": item["address"],
                     "intrinsics": item.get("intrinsics", False)})
    if "died" in lift:
        res.update(status="died", detail=str(lift["died"])); return res
    if "panic" in lift:
        res.update(status="panic", detail=lift["panic"]); return res
    if not lift.get("ok"):
        res.update(status="sorterr" if lift.get("kind") == "Sort" else "rejected", detail=lift.get("error", ""))
        return res
    nbytes = len(item["bytes"]) // 2
    want_n = item.get("n_instructions", 1)
    if not item.get("skip_shape") and (lift["length"] != nbytes or len(lift["instructions"]) != want_n):
        res.update(status="mismatch", detail=f"lifted length {lift['length']} / {len(lift['instructions'])} instruction(s), expected {nbytes} / {want_n}")
        return res
    ctx = il2smt.Ctx(endian=endian)
    st0 = il2smt.initial_state(ctx)
    try:
        # chain the per-instruction graphs (MIPS: branch + delay slot are lifted together)
        fst = st0
        reach = z3.BoolVal(True)
        pend = z3.BoolVal(False)
        runs = []
        allintr = []
        for (addr, cfg) in lift["instructions"]:
            run = il2smt.run_graph(ctx, cfg, fst, k)
            fst2, r2 = il2smt.final_merge(ctx, run)
            if fst2 is None:
                res.update(status="incomplete", detail="no path reaches the exit within k"); return res
            pend = z3.Or(pend, il2smt.pending_guard(run))
            reach = z3.And(reach, r2)
            fst = fst2
            runs.append(run)
            allintr += run.events.intrinsics
        run = runs[-1]
        # merge branch events of all instruction graphs for next-pc purposes
        allbr = []
        for r_ in runs:
            allbr += r_.events.branches
        run.events.branches = allbr
        spec = specfn(ctx, item, lift)
    except SortError as e:
        res.update(status="sorterr", detail=f"IL ill-sorted: {e}"); return res
    except NotImplementedError as e:
        res.update(status="nospec", detail=str(e)); return res
    trap_il = z3.Or(*[(z3.BoolVal(True) if g is True else g) for (g, _, _) in allintr]) if allintr else z3.BoolVal(False)
    if spec.trap is not None and not spec.intrinsic:
        pass      # conditional trap: compared below as an observable
    elif spec.intrinsic or allintr:
        ok = bool(spec.intrinsic) == bool(allintr)
        res.update(status="intrinsic-ok" if ok else "intrinsic-mismatch",
                   detail="" if ok else f"spec intrinsic={spec.intrinsic} IL intrinsics={len(allintr)}")
        return res
    try:
        pc_il, nosucc, ex1 = il_next_pc(ctx, lift, run, fst)
    except SortError as e:
        res.update(status="sorterr", detail=f"successor: {e}"); return res
    assume = list(spec.assume) + list(ctx.c04_assumptions)
    if item.get("nowrap32"):
        # 32-bit targets: the IL executor's memory is 64-bit, hardware wraps at 2^32; ranges touching the top are outside the claim
        for r_ in runs:
            for (g, a, n_) in r_.events.loads:
                assume.append(z3.ULE(a, z3.BitVecVal(0xfffffff0, 64)) if g is True else z3.Implies(g, z3.ULE(a, z3.BitVecVal(0xfffffff0, 64))))
            for (g, a, v_) in r_.events.stores:
                assume.append(z3.ULE(a, z3.BitVecVal(0xfffffff0, 64)) if g is True else z3.Implies(g, z3.ULE(a, z3.BitVecVal(0xfffffff0, 64))))
    A = z3.And(*assume) if assume else z3.BoolVal(True)
    trap_diff = None
    if spec.trap is not None and not spec.intrinsic:
        trap_diff = trap_il != spec.trap
        A_notrap = z3.And(A, z3.Not(spec.trap), z3.Not(trap_il))
    else:
        A_notrap = A
    # 1. completion (unwinding assertion) and faults
    verdicts = {}
    tsolve = 0.0
    v, m, dt = solve.check([A, z3.Not(reach)], timeout_ms); tsolve += dt
    verdicts["reach"] = v
    if v == solve.SAT:
        # distinguish "needs more steps" from "no edge enabled"
        v2, m2, dt = solve.check([A, z3.Not(reach), z3.Not(pend)], timeout_ms); tsolve += dt
        if v2 == solve.SAT:
            res.update(status="sat", diffs=["incomplete"], model=model_dump(ctx, m2, spec, run), solver_s=tsolve)
            return res
        if k_is_bound:
            # the caller's k is derived from the reference (e.g. REP count <= bound): an admitted state that needs more steps does not terminate as the reference does
            res.update(status="sat", diffs=["needs-more-than-k-steps"], model=model_dump(ctx, m, spec, run), solver_s=tsolve, k_bound=k, detail=f"an admitted state does not reach the exit within {k} block steps")
            return res
        res.update(status="undecided", detail="some admitted state needs more than k steps", solver_s=tsolve)
        return res
    if v == solve.UNDECIDED:
        res.update(status="undecided", detail="reach query timeout", solver_s=tsolve); return res
    faults = [c for (_, c) in ctx.faults]
    if faults:
        v, m, dt = solve.check([A, z3.Or(*faults)], timeout_ms); tsolve += dt
        if v == solve.SAT:
            kinds = sorted({kind for kind, c in ctx.faults if z3.is_true(m.eval(c, model_completion=True))})
            res.update(status="sat", diffs=["fault:" + ",".join(kinds)], model=model_dump(ctx, m, spec, run), solver_s=tsolve)
            return res
        if v == solve.UNDECIDED:
            res.update(status="undecided", detail="fault query timeout", solver_s=tsolve); return res
    # 2. observables
    diffs = {}
    names = set(spec.regs) | set(fst.sc)
    for n in sorted(names):
        if n.startswith("temp") or (observables is not None and not observables(n)):
            continue
        iv = fst.sc.get(n)
        sv = spec.regs.get(n)
        if iv is None and sv is None:
            continue
        w = (iv if iv is not None else sv).size()
        if iv is None: iv = ctx.input(n, w)
        if sv is None:
            try:
                sv = ctx.input(n, w)
            except SortError as e:
                res.update(status="sorterr", detail=str(e)); return res
        if iv.size() != sv.size():
            res.update(status="sat", diffs=[f"width:{n}"], model={}, detail=f"{n}: IL {iv.size()} bits, spec {sv.size()}"); return res
        d = iv != sv
        u = spec.undef.get(n)
        if u is True:
            continue
        if u is not None and u is not False:
            d = z3.And(z3.Not(u), d)
        diffs[n] = d
    # memory: two arrays differ iff they differ at some address (extensionality) - pointwise form is much easier for z3
    qaddr = z3.BitVec("mem_probe!q", 64)
    diffs["mem"] = z3.Select(fst.mem, qaddr) != z3.Select(spec.mem, qaddr)
    if spec.next_pc is None:
        if pc_il is not None:
            diffs["pc"] = z3.Not(nosucc)
    else:
        if pc_il is None:
            diffs["pc"] = z3.BoolVal(True)
        else:
            diffs["pc"] = z3.Or(nosucc, pc_il != spec.next_pc)
    if ex1 is not None:
        diffs["successors-not-exclusive"] = z3.Not(ex1)
    if trap_diff is not None:
        # values are compared only in non-trapping states; the trap condition itself is an observable
        diffs = {n_: z3.And(z3.Not(spec.trap), z3.Not(trap_il), d_) for n_, d_ in diffs.items()}
        diffs["trap"] = trap_diff
    v, m, dt = solve.check([A, reach, z3.Or(*diffs.values())], timeout_ms); tsolve += dt
    res["solver_s"] = tsolve
    if v == solve.UNSAT:
        # vacuity witness: assumptions satisfiable together with completion
        vv, _, dt = solve.check([A, reach], timeout_ms, want_model=False)
        res["solver_s"] += dt
        if vv != solve.SAT:
            res.update(status="vacuous" if vv == solve.UNSAT else "undecided", detail="assumptions unsatisfiable" if vv == solve.UNSAT else "witness timeout")
            return res
        res.update(status="unsat", nobs=len(diffs))
        return res
    if v == solve.UNDECIDED:
        # try observables one at a time
        und = []
        for n, dterm in diffs.items():
            v1, m1, dt = solve.check([A, reach, dterm], timeout_ms); res["solver_s"] += dt
            if v1 == solve.SAT:
                v, m = v1, m1
                break
            if v1 == solve.UNDECIDED:
                und.append(n)
        else:
            if und:
                res.update(status="undecided", detail="timeout on " + ",".join(und)); return res
            res.update(status="unsat", nobs=len(diffs)); return res
    # 3. a difference exists: split it by state class (spec-provided partition of the states) and
    #    by observable group, so that findings are identified by solver-independent facts
    groups = {"flags": [], "value": [], "pc": []}
    for n, dterm in diffs.items():
        if groupfn is not None and groupfn(n): groups.setdefault(groupfn(n), []).append(dterm)
        elif n in flag_names: groups["flags"].append(dterm)
        elif n in ("pc", "successors-not-exclusive", "trap"): groups["pc"].append(dterm)
        else: groups["value"].append(dterm)
    classes = spec.classes or {"any": z3.BoolVal(True)}
    cons = []
    if window is not None:
        lo, hi, pin = window
        accs = [(g, a, n) for (g, a, n) in run.events.loads] + [(g, a, v.size() // 8) for (g, a, v) in run.events.stores] + \
               [(g, a, n) for (a, n, g) in spec.accessed]
        for g, a, n in accs:
            c = z3.And(z3.UGE(a, z3.BitVecVal(lo, 64)), z3.ULE(a, z3.BitVecVal(hi - 32, 64)))
            cons.append(c if g is True else z3.Implies(g, c))
        if spec.next_pc is not None and not z3.is_bv_value(z3.simplify(spec.next_pc)) and pin is not None:
            cons.append(spec.next_pc == z3.BitVecVal(pin, 64))
    found = []
    und = []
    for cname, cpred in classes.items():
        for gname, gl in groups.items():
            if not gl:
                continue
            q = [A, reach, cpred, z3.Or(*gl)]
            windowed = window is not None and not cons
            v1, m1 = None, None
            if cons:
                v1, m1, dt = solve.check(q + cons, timeout_ms); res["solver_s"] += dt
                windowed = v1 == solve.SAT
            if v1 != solve.SAT:
                v1, m1, dt = solve.check(q, timeout_ms); res["solver_s"] += dt
            if v1 == solve.UNDECIDED:
                und.append(f"{cname}/{gname}")
            if v1 != solve.SAT:
                continue
            differing = [n for n, dterm in diffs.items() if z3.is_true(m1.eval(dterm, model_completion=True))]
            md = model_dump(ctx, m1, spec, run, fst, differing, pc_il)
            md["windowed"] = windowed
            found.append({"class": cname, "group": gname, "diffs": differing, "model": md})
    if not found:
        res.update(status="undecided", detail="combined query sat but split queries undecided: " + ",".join(und)); return res
    res.update(status="sat", findings=found, diffs=sorted({d for f in found for d in f["diffs"]}), model=found[0]["model"])
    if und:
        res["split_undecided"] = und
    return res


def model_dump(ctx, m, spec, run, fst=None, differing=(), pc_il=None):
    """Concrete pre-state from the model (input scalars, memory bytes at every accessed address) and
    the post-state according to both the reference and the IL encoding under that model."""
    out = {"scalars": {}, "mem": {}, "spec_post": {}, "il_post": {}, "undef": [], "spec_mem": {}, "il_mem": {}}
    for k, v in ctx.inputs.items():
        out["scalars"][k] = [solve.model_val(m, v), v.size()]
    addrs = set()
    for (g, a, nb) in [(g, a, n) for (g, a, n) in run.events.loads] + [(g, a, v.size() // 8) for (g, a, v) in run.events.stores]:
        if g is not True and not z3.is_true(m.eval(g, model_completion=True)):
            continue
        av = solve.model_val(m, a)
        for i in range(nb):
            addrs.add((av + i) & ((1 << 64) - 1))
    for (a, nb, g) in spec.accessed:
        if g is not True and not z3.is_true(m.eval(g, model_completion=True)):
            continue
        av = solve.model_val(m, a)
        for i in range(nb):
            addrs.add((av + i) & ((1 << 64) - 1))
    for a in sorted(addrs):
        out["mem"][str(a)] = solve.model_val(m, z3.Select(ctx.mem0, z3.BitVecVal(a, 64)))
    for n, u in spec.undef.items():
        if u is True or (u is not False and u is not None and z3.is_true(m.eval(u, model_completion=True))):
            out["undef"].append(n)
    if fst is not None:
        for n, sv in spec.regs.items():
            out["spec_post"][n] = solve.model_val(m, sv)
        for n, iv in fst.sc.items():
            if not n.startswith("temp"):
                out["il_post"][n] = solve.model_val(m, iv)
        for a in sorted(addrs):
            out["spec_mem"][str(a)] = solve.model_val(m, z3.Select(spec.mem, z3.BitVecVal(a, 64)))
            out["il_mem"][str(a)] = solve.model_val(m, z3.Select(fst.mem, z3.BitVecVal(a, 64)))
        if spec.next_pc is not None:
            out["spec_pc"] = solve.model_val(m, spec.next_pc)
        if pc_il is not None:
            out["il_pc"] = solve.model_val(m, pc_il)
    return out


def concrete_replay(lift_resp, model, endian, observe):
    """Re-evaluate the lifted IL concretely (python ints) from the model's pre-state.
    Returns (final scalars dict, mem dict, ending) or raises replay.Fault."""
    sc = {k: (v[0], v[1]) for k, v in model["scalars"].items() if not k.startswith("mem")}
    memd = {int(a): b for a, b in model["mem"].items()}
    st = replay.CState(sc, mem_read=lambda a: memd.get(a, 0), endian=endian)
    ending = None
    for addr, cfg in lift_resp["instructions"]:
        ending = replay.run_cfg(st, cfg)
        if ending[0] not in ("end",):
            break
    return st, ending
