#!/usr/bin/env python3
"""C11 - graph algorithms equal their textbook definitions on every graph.

Engine B: the MIR of falcon's own graph library (lib/graph/mod.rs) is executed symbolically on a
graph whose EDGE SET IS SYMBOLIC: vertices 0..n-1 are fixed, the presence of each of the n*n possible
edges (self-loops included) is a z3 Bool that the successor/predecessor sets and the edge map share.
Iterating over a set forks the path on the membership conditions it meets; whatever a path does not
look at stays symbolic.  Per path the (concrete) result is compared by the solver with the textbook
definition written as a formula over the edge variables - so one query covers every graph consistent
with the path.  std containers are stated models (mirsym/pycont.py; hash containers iterate in key
order).  Counterexamples are replayed on the real code through the driver's `graph` command, and on
every path one solver-chosen graph is run through the real code and compared with the symbolic result."""
import sys, os, re, json, itertools
sys.path.insert(0, os.path.dirname(os.path.dirname(os.path.abspath(__file__))))
import z3
from checks import common
from smt import solve, drv
from mirsym import interp as I, models as M, pycont as PC, dump

R = M.R
val = M.val


def program():
    path, dt = dump.mir_path()
    prog = I.Program(path, "/repo/lib", lambda n: n.startswith(("graph::", "const graph::", "dfs_is_acyclic", "compress")))
    return prog, dt


def find(prog, meth):
    c = [n for n in prog.raw if re.search(r"^graph::<impl at lib/graph/mod\.rs:\d+:1: \d+:\d+>::" + meth + "$", n) and "Graph<V, E>" in prog.raw[n][0][1]]
    if len(c) != 1:
        raise RuntimeError(f"cannot locate graph::Graph::{meth}: {c[:3]}")
    return c[0]


def extra_models():
    nested = lambda it, c, a: it.call([n for n in it.prog.raw if n.endswith("::" + "::".join(c.replace("::<V, E>", "").split("::")[-2:]))][0], a)
    return [
        (R(r"^std::option::Option::<&.*>::(cloned|copied)$|^Option::<&.*>::(cloned|copied)$"), lambda it, c, a: (M.some(PC.clone(val(val(a[0]).fields[0]))) if val(a[0]).variant == 1 else M.none())),
        (R(r"^<\{closure@.*\} as Fn(Mut|Once)?<.*>>::call(_mut|_once)?$"), lambda it, c, a: it.call_closure(a[0], list(val(a[1]).fields))),
        (R(r"^<&str as Into<Error>>::into$"), lambda it, c, a: I.Agg("enum", "Error", [I.Opaque("custom")], it.prog.enums["Error"].index("Custom"))),
        (R(r"^<(?:V|E|NullVertex|NullEdge|Loop|graph::NullVertex|graph::NullEdge|graph::Loop) as Clone>::clone$"), lambda it, c, a: PC.clone(a[0])),
        (R(r"^<(?:V|NullVertex|graph::NullVertex) as (graph::)?Vertex>::index$"), lambda it, c, a: val(a[0]).fields[0]),
        (R(r"^<(?:E|NullEdge|graph::NullEdge) as (graph::)?Edge>::head$"), lambda it, c, a: val(a[0]).fields[0]),
        (R(r"^<(?:E|NullEdge|graph::NullEdge) as (graph::)?Edge>::tail$"), lambda it, c, a: val(a[0]).fields[1]),
        (R(r"^<(?:Loop|graph::Loop) as (graph::)?Vertex>::index$"), lambda it, c, a: val(a[0]).fields[0]),
        (R(r"::dfs_walk::<V, E>$"), nested),
        (R(r"^dfs_is_acyclic::<V, E>$"), lambda it, c, a: it.call("dfs_is_acyclic", a)),
        (R(r"^compress$"), lambda it, c, a: it.call("compress", a)),
    ]


class G:
    """Symbolic graph on n fixed vertices; E[(i,j)] is the presence of edge i->j."""

    def __init__(self, n, cand=None, fixed=(), symbolic_vertices=False):
        """cand: the edges whose presence is symbolic (default: all n*n); fixed: edges that are always present; every other edge is absent.
        symbolic_vertices: vertex i is present iff V[i]; an edge requires both endpoints (representation invariant, assumed)."""
        self.n = n
        self.V = {i: (z3.Bool(f"v_{i}") if symbolic_vertices else z3.BoolVal(True)) for i in range(n)}
        self.E = {}
        for i in range(n):
            for j in range(n):
                if (i, j) in fixed: self.E[(i, j)] = z3.BoolVal(True)
                elif cand is None or (i, j) in cand: self.E[(i, j)] = z3.Bool(f"e_{i}_{j}")
                else: self.E[(i, j)] = z3.BoolVal(False)

    def invariant(self):
        return z3.And(*[z3.Implies(c, z3.And(self.V[i], self.V[j])) for (i, j), c in self.E.items()])

    def value(self):
        n, E = self.n, self.E
        verts = PC.PMap({i: I.Agg("struct", "NullVertex", [z3.BitVecVal(i, 64)]) for i in range(n)})
        vc = lambda i: True if z3.is_true(self.V[i]) else self.V[i]
        for i in range(n): verts.d[i][0] = vc(i)
        edges = PC.PMap()
        cond = lambda c: True if z3.is_true(c) else c
        live = {k: c for k, c in E.items() if not z3.is_false(c)}
        for (i, j), c in live.items():
            edges.d[(i, j)] = [cond(c), I.ValRef(I.Agg("struct", "NullEdge", [z3.BitVecVal(i, 64), z3.BitVecVal(j, 64)]))]
        succ = PC.PMap({i: PC.PSet({j: cond(live[(i, j)]) for j in range(n) if (i, j) in live}) for i in range(n)})
        pred = PC.PMap({j: PC.PSet({i: cond(live[(i, j)]) for i in range(n) if (i, j) in live}) for j in range(n)})
        for i in range(n):
            succ.d[i][0] = vc(i); pred.d[i][0] = vc(i)
        return I.Agg("struct", "Graph", [verts, edges, succ, pred])

    # ---- textbook definitions as formulas over E
    def reach_from(self, r, removed=(), edges=None):
        E = edges or self.E
        cur = {v: z3.BoolVal(v == r and v not in removed) for v in range(self.n)}
        for _ in range(self.n):
            nxt = {}
            for v in range(self.n):
                if v in removed: nxt[v] = z3.BoolVal(False); continue
                nxt[v] = z3.Or(cur[v], *[z3.And(cur[u], E[(u, v)]) for u in range(self.n) if u not in removed])
            cur = nxt
        return cur

    def dom(self, r):
        """dom[d][v]: d dominates v (v reachable; every path r->v passes d)."""
        reach = self.reach_from(r)
        out = {}
        for d in range(self.n):
            avoid = self.reach_from(r, removed=(d,))
            out[d] = {v: z3.And(reach[v], z3.BoolVal(True) if d == v else z3.Not(avoid[v])) for v in range(self.n)}
        return reach, out

    def has_cycle_within(self, member, edges=None):
        """a cycle using only vertices v with member[v] (Bool) - path of length <= n returning to start"""
        E = edges or self.E
        n = self.n
        cyc = []
        for s in range(n):
            cur = {v: z3.And(member[s], member[v], E[(s, v)]) for v in range(n)}
            for _ in range(n):
                cur = {v: z3.Or(cur[v], *[z3.And(cur[u], member[v], E[(u, v)]) for u in range(n)]) for v in range(n)}
            cyc.append(cur[s])
        return z3.Or(*cyc)


def as_py(v):
    """concrete python view of a returned container (keys/elements are concrete on every path)"""
    v = val(v)
    if isinstance(v, PC.PSet): return sorted(k for k, c in v.d.items() if c is True)
    if isinstance(v, PC.PMap): return {k: as_py(cell.get()) for k, (c, cell) in v.d.items() if c is True}
    if isinstance(v, PC.PVec): return [as_py(x) for x in v.items]
    if isinstance(v, I.Agg) and v.name == "Graph":
        return {"vertices": sorted(as_py(v.fields[0]).keys()), "edges": sorted(as_py(v.fields[1]).keys()), "succ": as_py(v.fields[2]), "pred": as_py(v.fields[3])}
    if isinstance(v, I.Agg) and v.kind == "tuple": return tuple(as_py(x) for x in v.fields)
    if isinstance(v, I.Agg) and v.name == "Loop": return (as_py(v.fields[0]), as_py(v.fields[1]))
    if isinstance(v, I.Agg): return [as_py(x) for x in v.fields]
    if z3.is_bv(v):
        s = z3.simplify(v)
        return s.as_long() if z3.is_bv_value(s) else v
    if z3.is_bool(v):
        s = z3.simplify(v)
        return True if z3.is_true(s) else (False if z3.is_false(s) else v)
    return v


ALGS = {
    # name: (method, takes_root, driver alg)
    "reachable": ("reachable_vertices", True, "reachable"), "unreachable": ("unreachable_vertices", True, "unreachable"),
    "pre_order": ("compute_pre_order", True, "pre_order"), "post_order": ("compute_post_order", True, "post_order"),
    "idom": ("compute_immediate_dominators", True, "idom"), "dominators": ("compute_dominators", True, "dominators"),
    "dominator_tree": ("compute_dominator_tree", True, "dominator_tree"), "frontiers": ("compute_dominance_frontiers", True, "frontiers"),
    "predecessors": ("compute_predecessors", False, "predecessors"), "is_acyclic": ("is_acyclic", True, "is_acyclic"),
    "acyclic": ("compute_acyclic", True, "acyclic"), "is_reducible": ("is_reducible", True, "is_reducible"),
    "loops": ("compute_loops", True, "loops"), "topological": ("compute_topological_ordering", False, "topological"),
}


def spec(alg, g, r, res, ok):
    """z3 Bool: the concrete result `res` (python view; ok=False for Err) is what the definition says for the symbolic graph g."""
    n, E = g.n, g.E
    T, F = z3.BoolVal(True), z3.BoolVal(False)
    reach, dom = g.dom(r) if r is not None else (None, None)
    inset = lambda s, v: T if v in s else F
    if alg == "reachable":
        return z3.And(T if ok else F, *[reach[v] == inset(res, v) for v in range(n)]) if ok else F
    if alg == "unreachable":
        return z3.And(*[z3.Not(reach[v]) == inset(res, v) for v in range(n)]) if ok else F
    if alg in ("pre_order", "post_order"):
        if not ok or len(set(res)) != len(res): return F
        cs = [reach[v] == inset(res, v) for v in range(n)]
        if not res: return F
        cs.append(T if (res[0] == r if alg == "pre_order" else res[-1] == r) else F)
        pos = {v: i for i, v in enumerate(res)}
        for v in res:
            if v == r: continue
            # pre-order: some predecessor is visited earlier; post-order: some predecessor finishes later
            cand = [E[(u, v)] for u in res if (pos[u] < pos[v] if alg == "pre_order" else pos[u] > pos[v])]
            cs.append(z3.Or(*cand) if cand else F)
        return z3.And(*cs)
    if alg == "idom":
        if not ok: return F
        cs = []
        for v in range(n):
            if v == r:
                cs.append(T if v not in res else F); continue
            cs.append(reach[v] == inset(res, v))
            if v in res:
                d = res[v]
                if not isinstance(d, int) or d == v or not (0 <= d < n): return F
                # d strictly dominates v and every other strict dominator of v dominates d
                cs.append(dom[d][v])
                cs += [z3.Implies(dom[s][v], dom[s][d]) for s in range(n) if s != v and s != d]
        return z3.And(*cs)
    if alg == "dominators":
        if not ok: return F
        cs = []
        for v in range(n):
            cs.append(reach[v] == inset(res, v))
            if v in res:
                cs += [dom[d][v] == inset(res[v], d) for d in range(n)]
        return z3.And(*cs)
    if alg == "dominator_tree":
        if not ok: return F
        if res["vertices"] != list(range(n)): return F
        cs = []
        es = set(res["edges"])
        for v in range(n):
            parents = [d for (d, t) in es if t == v]
            if v == r: cs.append(T if not parents else F); continue
            cs.append(reach[v] == (T if len(parents) == 1 else F))
            if len(parents) > 1: return F
            for d in parents:
                if d == v: return F
                cs.append(dom[d][v]); cs += [z3.Implies(dom[s][v], dom[s][d]) for s in range(n) if s != v and s != d]
        return z3.And(*cs)
    if alg == "frontiers":
        if not ok: return F
        cs = []
        for d in range(n):
            if d not in res: cs.append(z3.Not(reach[d])); continue
            for w in range(n):
                indf = z3.And(z3.Or(*[z3.And(E[(p, w)], dom[d][p]) for p in range(n)]), z3.Not(z3.And(dom[d][w], T if d != w else F)))
                cs.append(z3.Implies(reach[d], indf == inset(res[d], w)))
        return z3.And(*cs)
    if alg == "predecessors":
        if not ok: return F
        cs = []
        for v in range(n):
            if v not in res: return F
            for u in range(n):
                # u is a transitive predecessor of v: a path of length >= 1 from u to v
                step = {x: E[(u, x)] for x in range(n)}
                for _ in range(n):
                    step = {x: z3.Or(step[x], *[z3.And(step[y], E[(y, x)]) for y in range(n)]) for x in range(n)}
                cs.append(step[v] == inset(res[v], u))
        return z3.And(*cs)
    if alg == "is_acyclic":
        cyc = g.has_cycle_within(reach)
        return (z3.Not(cyc) == (T if res is True else F)) if isinstance(res, bool) else F
    if alg == "acyclic":
        # an acyclic graph on the same vertices whose edges are edges of g, that keeps every vertex reachable from r reachable
        if not ok: return F
        es = res["edges"]
        sub = {(i, j): (T if (i, j) in es else F) for i in range(n) for j in range(n)}
        cs = [E[e] for e in es]
        cs.append(z3.Not(g.has_cycle_within({v: T for v in range(n)}, edges=sub)))
        r2 = g.reach_from(r, edges=sub)
        cs += [reach[v] == r2[v] for v in range(n)]
        return z3.And(*cs)
    if alg == "is_reducible":
        if not ok or not isinstance(res, bool): return F
        # reducible iff the graph without back edges (tail dominates head) is acyclic on the reachable part
        fwd = {(i, j): z3.And(E[(i, j)], z3.Not(dom[j][i])) for i in range(n) for j in range(n)}
        red = z3.Not(g.has_cycle_within(reach, edges=fwd))
        # falcon documents "reducible iff the forward-edge graph is acyclic AND every node is reachable from head":
        # with an unreachable vertex it answers false by design; that case is not held against the textbook definition
        allreach = z3.And(*[reach[v] for v in range(n)])
        return z3.If(allreach, red == (T if res else F), T if res is False else red == (T if res else F))
    if alg == "loops":
        if not ok: return F
        got = {h: set(nodes) for h, nodes in res}
        if len(got) != len(res): return F
        cs = []
        for h in range(n):
            tails = [z3.And(reach[t], E[(t, h)], dom[h][t]) for t in range(n)]
            is_header = z3.Or(*tails)
            cs.append(is_header == (T if h in got else F))
            if h in got:
                for v in range(n):
                    # v in the natural loop of h: v == h, or v reaches some back-edge tail t without passing through h
                    member = [T if v == h else F]
                    for t in range(n):
                        back = z3.And(reach[t], E[(t, h)], dom[h][t])
                        rv = g.reach_from(v, removed=(h,))[t] if v != h else F
                        member.append(z3.And(back, rv, reach[v]))
                    cs.append(z3.Or(*member) == (T if v in got[h] else F))
        return z3.And(*cs)
    if alg == "topological":
        cyc = g.has_cycle_within({v: T for v in range(n)})
        if not ok: return cyc
        if sorted(res) != list(range(n)): return F
        pos = {v: i for i, v in enumerate(res)}
        return z3.And(z3.Not(cyc), *[z3.Implies(E[(u, v)], T if pos[u] < pos[v] else F) for u in range(n) for v in range(n)])
    raise KeyError(alg)


def concrete_edges(m, g):
    return [[i, j] for (i, j), e in sorted(g.E.items()) if z3.is_true(m.eval(e, model_completion=True))]


def sparse_items(seed, tier):
    """Larger graphs with a bounded number of symbolic edges: a fixed spanning skeleton from the root (so that the deep
    parts of the dominator / loop code run) plus ~11 candidate edges drawn at random (seeded), all other edges absent."""
    import random
    rnd = random.Random(seed * 1009 + 77)
    out = []
    k = 0
    NSYM = 7 if tier != "thorough" else 10
    for n in ((6, 7) if tier != "thorough" else (6, 7, 8)):
        for rep_ in range(2 if tier != "thorough" else 3):
            verts = list(range(n)); rnd.shuffle(verts)
            root = verts[0]
            fixed = set()
            for idx in range(1, n):                      # random spanning tree (arborescence) from the root
                fixed.add((verts[rnd.randrange(idx)], verts[idx]))
            allp = [(i, j) for i in range(n) for j in range(n) if (i, j) not in fixed]
            cand = rnd.sample(allp, NSYM)
            for alg in ("idom", "dominators", "frontiers", "loops", "is_reducible"):
                out.append({"alg": alg, "n": n, "root": root, "cand": sorted(cand), "fixed": sorted(fixed), "sparse": k, "validate_every": 53})
            k += 1
    return out


def norm_real(alg, r):
    """driver result -> the python view used for symbolic results"""
    if isinstance(r, dict) and "error" in r: return ("err", None)
    if alg in ("idom",): return ("ok", {a: b for a, b in r})
    if alg in ("dominators", "frontiers", "predecessors"): return ("ok", {k: v for k, v in r})
    if alg in ("dominator_tree", "acyclic"): return ("ok", {"vertices": r["vertices"], "edges": [tuple(e) for e in r["edges"]]})
    if alg == "loops": return ("ok", [(h, ns) for h, ns in r])
    return ("ok", r)


def norm_sym(alg, res):
    if alg in ("dominator_tree", "acyclic"): return {"vertices": res["vertices"], "edges": res["edges"]}
    if alg == "loops": return sorted((h, ns) for h, ns in res)
    return res


def work(item):
    if item.get("op"): return work_edit(item)
    alg, n, root = item["alg"], item["n"], item["root"]
    prog, _ = program()
    meth, takes_root, dalg = ALGS[alg]
    fn = find(prog, meth)
    g = G(n, cand=set(map(tuple, item["cand"])) if item.get("cand") is not None else None, fixed=set(map(tuple, item.get("fixed", []))))
    out = {"what": f"{alg} n={n} root={root}" + (f" sparse#{item['sparse']}" if item.get("cand") is not None else ""), "alg": alg, "paths": 0, "unsat": 0, "findings": [], "undecided": [], "solver_s": 0.0, "fn": fn, "calls": set(), "validated": 0, "validation_failures": []}
    it = I.Interp(prog, W=64, models=extra_models() + PC.MODELS + M.MODELS, timeout_ms=10000)
    prefix = item.get("prefix") or {}
    pre = [g.E[k] if v else z3.Not(g.E[k]) for k, v in prefix.items()]

    def mk(it_):
        for c in pre:
            it_.solver.add(c); it_.pc.append(c)
        return [I.ValRef(g.value())] + ([z3.BitVecVal(root, 64)] if takes_root else [])
    r_for_spec = root if takes_root else None
    seen_sig = set()
    for r in I.explore(it, fn, mk, max_paths=200000):
        out["paths"] += 1; out["calls"] |= set(r["calls"])
        pc = r["pc"]
        if r["outcome"] == "unsupported":
            out["undecided"].append("unsupported: " + r["msg"][:200]); continue
        if r["outcome"] == "panic":
            v, m, dt = solve.check(pc, 20000); out["solver_s"] += dt
            if v == solve.SAT:
                key = "panic: " + r["msg"][:60]
                if key not in seen_sig:
                    seen_sig.add(key)
                    out["findings"].append({"kind": "panic", "detail": r["msg"][:120], "edges": concrete_edges(m, g)})
            elif v == solve.UNDECIDED: out["undecided"].append("panic feasibility")
            continue
        res = val(r["value"])
        ok = True
        if isinstance(res, I.Agg) and res.name == "Result":
            ok = res.variant == 0
            res = val(res.fields[0]) if ok else None
        try:
            pres = as_py(res) if ok else None
            sp = spec(alg, g, r_for_spec, pres, ok)
        except Exception as e:          # result shape not understood: encoder problem, never a pass
            out["undecided"].append(f"unsupported: result shape {type(e).__name__}: {str(e)[:100]}"); continue
        v, m, dt = solve.check(pc + [z3.Not(sp)], 30000); out["solver_s"] += dt
        if v == solve.SAT:
            es = concrete_edges(m, g)
            key = "differs"
            if key not in seen_sig or len(out["findings"]) < 3:
                seen_sig.add(key)
                out["findings"].append({"kind": "result differs from the definition", "detail": f"result {json.dumps(pres, default=str)[:160]} ({'Ok' if ok else 'Err'})", "edges": es})
        elif v == solve.UNDECIDED: out["undecided"].append("definition query")
        else: out["unsat"] += 1
        # validation of the container models: one solver-chosen graph on this path through the real code
        if out["paths"] % item.get("validate_every", 7) == 0:
            v, m, dt = solve.check(pc, 10000); out["solver_s"] += dt
            if v == solve.SAT:
                es = concrete_edges(m, g)
                rr = drv.call({"cmd": "graph", "vertices": list(range(n)), "edges": es, "root": root, "alg": dalg})
                if rr.get("ok"):
                    kind, real = norm_real(alg, rr["result"])
                    same = (kind == "err" and not ok) or (kind == "ok" and ok and json.dumps(norm_sym(alg, pres), sort_keys=True, default=list) == json.dumps(real, sort_keys=True, default=list))
                    if alg in ("pre_order", "post_order", "topological", "acyclic") and kind == "ok" and ok:
                        same = True if alg != "acyclic" else same          # orders may legitimately differ with hash iteration order; sets must not
                        if alg in ("pre_order", "post_order") and sorted(real) != sorted(pres): same = False
                    if same: out["validated"] += 1
                    else: out["validation_failures"].append({"edges": es, "symbolic": json.dumps(norm_sym(alg, pres), default=list)[:200], "real": json.dumps(rr["result"])[:200]})
                elif "panic" in rr:
                    out["validation_failures"].append({"edges": es, "symbolic": "returns", "real": rr["panic"][:100]})
    out["calls"] = sorted(out["calls"])
    return out


def cond_of(c): return z3.BoolVal(True) if c is True else c


def views_of(gv, n):
    """presence conditions of the four views after the call: vertices[i], succkey[i], predkey[i], edge[(i,j)], succ[(i,j)], pred[(i,j)]"""
    F = z3.BoolVal(False)
    verts, edges, succ, pred = gv.fields
    out = {"v": {}, "sk": {}, "pk": {}, "e": {}, "s": {}, "p": {}}
    for i in range(n + 1):
        out["v"][i] = cond_of(verts.d[i][0]) if i in verts.d else F
        out["sk"][i] = cond_of(succ.d[i][0]) if i in succ.d else F
        out["pk"][i] = cond_of(pred.d[i][0]) if i in pred.d else F
        for j in range(n + 1):
            out["e"][(i, j)] = cond_of(edges.d[(i, j)][0]) if (i, j) in edges.d else F
            ss = succ.d[i][1].get() if i in succ.d else None
            pp = pred.d[j][1].get() if j in pred.d else None
            out["s"][(i, j)] = z3.And(out["sk"][i], cond_of(ss.d[j])) if ss is not None and j in ss.d else F
            out["p"][(i, j)] = z3.And(cond_of(pred.d[j][0]), cond_of(pp.d[i])) if pp is not None and i in pp.d else F
    return out


def work_edit(item):
    """One edit step (inductive): arbitrary consistent graph on a symbolic subset of vertices 0..n-1, one insertion/removal."""
    n = item["n"]; op = item["op"]
    prog, _ = program()
    meth = {"remove_vertex": "remove_vertex", "remove_edge": "remove_edge", "insert_edge": "insert_edge", "insert_vertex": "insert_vertex"}[op[0]]
    fn = find(prog, meth)
    g = G(n, symbolic_vertices=True)
    out = {"what": f"edit {op} n={n}", "alg": "edit:" + op[0], "paths": 0, "unsat": 0, "findings": [], "undecided": [], "solver_s": 0.0, "fn": fn, "calls": set(), "validated": 0, "validation_failures": []}
    it = I.Interp(prog, W=64, models=extra_models() + PC.MODELS + M.MODELS, timeout_ms=10000)
    inv = g.invariant()
    holder = {}

    def mk(it_):
        it_.solver.add(inv); it_.pc.append(inv)
        gv = g.value(); holder["g"] = gv
        bv = lambda x: z3.BitVecVal(x, 64)
        if op[0] == "remove_vertex": args = [bv(op[1])]
        elif op[0] == "insert_vertex": args = [I.Agg("struct", "NullVertex", [bv(op[1])])]
        elif op[0] == "remove_edge": args = [bv(op[1]), bv(op[2])]
        else: args = [I.Agg("struct", "NullEdge", [bv(op[1]), bv(op[2])])]
        return [I.ValRef(gv)] + args
    T, F = z3.BoolVal(True), z3.BoolVal(False)
    V = lambda i: g.V[i] if i < n else F
    E = lambda i, j: g.E[(i, j)] if i < n and j < n else F
    seen = set()
    for r in I.explore(it, fn, mk, max_paths=50000):
        out["paths"] += 1; out["calls"] |= set(r["calls"])
        pc = r["pc"]
        if r["outcome"] == "unsupported":
            out["undecided"].append("unsupported: " + r["msg"][:200]); continue
        if r["outcome"] == "panic":
            v, m, dt = solve.check(pc, 20000); out["solver_s"] += dt
            if v == solve.SAT and "panic" not in seen:
                seen.add("panic"); out["findings"].append({"kind": "panic", "detail": r["msg"][:120], "edges": concrete_edges(m, g), "vertices": [i for i in range(n) if z3.is_true(m.eval(g.V[i], model_completion=True))]})
            continue
        res = val(r["value"]); ok = res.variant == 0
        vw = views_of(holder["g"], n)
        # expected post-state and result
        if op[0] == "remove_vertex":
            x = op[1]; exp_ok = V(x)
            ev = lambda i: z3.And(V(i), T if i != x else F); ee = lambda i, j: z3.And(E(i, j), T if (i != x and j != x) else F)
        elif op[0] == "insert_vertex":
            x = op[1]; exp_ok = z3.Not(V(x))
            ev = lambda i: z3.Or(V(i), T if i == x else F); ee = E
        elif op[0] == "remove_edge":
            h, t = op[1], op[2]; exp_ok = E(h, t)
            ev = V; ee = lambda i, j: z3.And(E(i, j), F if (i, j) == (h, t) else T)
        else:
            h, t = op[1], op[2]; exp_ok = z3.And(V(h), V(t), z3.Not(E(h, t)))
            ev = V; ee = lambda i, j: z3.Or(E(i, j), T if (i, j) == (h, t) else F)
        claims = [("result (Ok/Err) differs from the specification", exp_ok == (T if ok else F))]
        for i in range(n + 1):
            want_v = ev(i) if ok else V(i)
            claims.append(("vertex view wrong after the edit", vw["v"][i] == want_v))
            claims.append(("successor/predecessor maps do not have exactly the vertices as keys", z3.And(vw["sk"][i] == vw["v"][i], vw["pk"][i] == vw["v"][i])))
            for j in range(n + 1):
                want_e = ee(i, j) if ok else E(i, j)
                claims.append(("edge view wrong after the edit", vw["e"][(i, j)] == want_e))
                claims.append(("edge, successor and predecessor views disagree", z3.And(vw["s"][(i, j)] == vw["e"][(i, j)], vw["p"][(i, j)] == vw["e"][(i, j)])))
        bad = z3.Or(*[z3.Not(c) for _, c in claims])
        v, m, dt = solve.check(pc + [bad], 30000); out["solver_s"] += dt
        if v == solve.SAT:
            for kind, c in claims:
                if z3.is_false(m.eval(c, model_completion=True)) and kind not in seen:
                    seen.add(kind)
                    out["findings"].append({"kind": kind, "detail": f"{op} returned {'Ok' if ok else 'Err'}", "edges": concrete_edges(m, g), "vertices": [i for i in range(n) if z3.is_true(m.eval(g.V[i], model_completion=True))]}); break
        elif v == solve.UNDECIDED: out["undecided"].append("edit query")
        else: out["unsat"] += len(claims)
    out["calls"] = sorted(out["calls"])
    return out


def replay_real(alg, n, root, edges):
    rr = drv.call({"cmd": "graph", "vertices": list(range(n)), "edges": edges, "root": root, "alg": ALGS[alg][2]})
    return rr


def real_meets_definition(alg, n, root, edges, rr):
    """the definition evaluated on the REAL code's result for the concrete counterexample graph: True means the real code is
    right on this graph, i.e. the symbolic finding does not reproduce (None: cannot tell)"""
    if not rr.get("ok") or "result" not in rr: return None
    try:
        g = G(n, cand=set(), fixed=set(map(tuple, edges)))
        kind, real = norm_real(alg, rr["result"])
        sp = spec(alg, g, root if ALGS[alg][1] else None, real, kind == "ok")
        v, m, dt = solve.check([z3.Not(sp)], 20000)
        return True if v == solve.UNSAT else (False if v == solve.SAT else None)
    except Exception:
        return None


def main():
    drv.build()
    rep = common.Report("C11", "model_checking")
    path, dt = dump.mir_path()
    rep.extra["mir_dump_seconds"] = round(dt, 1)
    T = rep.tier == "thorough"
    n = 4 if T else 3
    items = []
    # measured cost of one n=4 item (12 symbolic edges after the 4-edge prefix, 4096 paths): 70-160 s for the first group,
    # 200-520 s for `heavy`; the thorough tier is sized to about half an hour on 16 cores
    heavy = ("dominators", "dominator_tree", "frontiers", "predecessors", "acyclic", "is_reducible", "loops", "unreachable")
    import random
    rnd = random.Random(rep.seed * 7919 + 11)
    for alg in ALGS:
        roots = (0, 2) if ALGS[alg][1] else (0,)
        for root in roots:                      # every tier: 3 vertices, all 9 edges symbolic, both roots
            items.append({"alg": alg, "n": 3, "root": root})
        if T:
            root = 0
            ks = [(root, j) for j in range(n)]
            prefixes = list(itertools.product([False, True], repeat=len(ks)))
            if alg in heavy:
                prefixes = rnd.sample(prefixes, 4)          # 4 of the 16 sub-spaces (seeded by VERIF_SEED); each is decided completely
            for bits in prefixes:
                # split the path space on the root's outgoing edges so that the work spreads over the cores
                items.append({"alg": alg, "n": n, "root": root, "prefix": dict(zip(ks, bits)), "validate_every": 31})
    items += sparse_items(rep.seed, rep.tier)
    ne = 3
    for x in range(ne + 1):
        items.append({"n": ne, "op": ["remove_vertex", x]}); items.append({"n": ne, "op": ["insert_vertex", x]})
    for h in range(ne + 1):
        for t in range(ne + 1):
            if h < ne and t < ne or (h, t) in ((ne, 0), (0, ne)):
                items.append({"n": ne, "op": ["remove_edge", h, t]}); items.append({"n": ne, "op": ["insert_edge", h, t]})
    cost = lambda it_: (0 if it_.get("op") else (300 * (it_["n"] - 5) if it_.get("cand") is not None else ((400 if it_["alg"] in heavy else 100) if it_["n"] == 4 else 1)))
    items.sort(key=cost, reverse=True)          # longest first: the pool hands items out in order
    results = common.pmap(work, items, chunksize=1)
    fns = {}
    paths = 0; validated = 0
    for it, r in zip(items, results):
        if "crash" in r:
            rep.encoder_defect(f"{it}: {r['crash']} {r.get('trace','')[-500:]}"); continue
        paths += r["paths"]; rep.solver_s += r["solver_s"]; rep.queries["unsat"] += r["unsat"]; validated += r["validated"]
        fns[r["fn"]] = 1
        for c in r["calls"]: fns.setdefault(c, 1)
        for vf in r["validation_failures"][:3]:
            rep.encoder_defect(f"{r['what']}: the real code disagrees with the symbolic run on a solver-chosen graph: {json.dumps(vf)[:400]}")
        for u in sorted(set(r["undecided"])):
            rep.count("undecided"); rep.undecided.append(f"{r['what']}: {u}")
            if "unsupported" in u:
                rep.encoder_defect(f"{r['what']}: {u}")
        if r["unsat"] and not r["findings"]:
            rep.sample({"algorithm": r["what"], "paths": r["paths"], "obligations_unsat": r["unsat"]}, cap=12)
        seen = set()
        for f in r["findings"]:
            rep.count("sat")
            sig = f"graph/{r['alg']}/{f['kind'] if f['kind'] != 'panic' else 'panic: ' + re.sub(r'[0-9]+', '#', f['detail'])[:50]}"
            if sig in seen: continue
            seen.add(sig)
            if it.get("op"):
                rr = drv.call({"cmd": "graph", "vertices": f.get("vertices", []), "edges": f["edges"], "edit": [it["op"]], "root": 0, "alg": "views"})
                confirmed = True
                note = f"real code: vertices {f.get('vertices')}, edges {f['edges']}, then {it['op']}: {json.dumps(rr)[:260]}"
                if f["kind"] == "panic" and "panic" not in rr: confirmed = False
                if f["kind"] == "panic" and not confirmed:
                    rep.encoder_defect(f"model does not reproduce: {r['what']}: {f['detail']}; {note}"); continue
                rep.violation(sig, f"{r['what']}: {f['kind']}: {f['detail']}; {note}", {"item": it, "finding": f, "real_code": rr}); continue
            rr = replay_real(r["alg"], it["n"], it["root"], f["edges"])
            confirmed = ("panic" in rr) if f["kind"] == "panic" else (real_meets_definition(r["alg"], it["n"], it["root"], f["edges"], rr) is not True)
            note = f"real code on vertices 0..{it['n'] - 1}, edges {f['edges']}, root {it['root']}: {json.dumps(rr)[:200]}"
            if not confirmed:
                rep.encoder_defect(f"model does not reproduce: {r['what']}: {f['detail']}; {note}"); continue
            rep.violation(sig, f"{r['what']}: {f['kind']}: {f['detail']}; {note}", {"item": it, "finding": f, "real_code": rr})
    rep.functions_encoded = sorted(fns)[:60]
    rep.bounds = {"vertices": "3: all 9 edges symbolic (self-loops included), roots 0 and 2" + ("; 4: root 0, the 16 edges symbolic, split on the root's 4 outgoing edges into 16 sub-spaces - all 16 for reachable/pre_order/post_order/idom/is_acyclic/topological, 4 seeded ones for the other algorithms" if T else ""),
                  "sparse": "plus graphs of 6..7 (thorough 6..8) vertices with a random spanning tree from a random root fixed and 7 (thorough 10) further edges symbolic (seeded by VERIF_SEED), for the dominator/loop algorithms",
                  "edits": "one insert_vertex/insert_edge/remove_vertex/remove_edge step from an arbitrary consistent graph on a symbolic subset of 3 vertices (inductive step: sequences of edits follow)",
                  "outside": "more vertices; vertex ids other than 0..n-1; compute_loop_tree, dot output"}
    rep.finish({"states": max(1, paths), "transitions": max(1, rep.queries["unsat"] + rep.queries["sat"]), "traces_validated_against_impl": validated,
                "explanation": "states = MIR paths through each graph algorithm on the symbolic-edge graph; transitions = per-path definition queries"},
               assumptions=["std containers behave as documented (mirsym/pycont.py); FxHashMap/FxHashSet iterate in key order in the model - results are assumed not to depend on hash iteration order (the real-code validation runs would expose a dependence)",
                            "pre/post orders are checked against the defining properties (exactly the reachable vertices, once each, root first/last, every other vertex has an earlier/later predecessor), not against one particular DFS"])


if __name__ == "__main__":
    main()
