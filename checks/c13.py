#!/usr/bin/env python3
"""C13 - constant propagation never reports a value an execution contradicts.

Real `analysis::constants::constants` runs on each IL function; z3 decides, over all executions
of at most k block-steps from an arbitrary initial state, whether some execution reaches a
location with an assigned scalar holding a value different from the reported constant."""
import sys, os, random, json
sys.path.insert(0, os.path.dirname(os.path.dirname(os.path.abspath(__file__))))
import z3
from checks import common, ilcheck
from smt import drv, il2smt, fbmc, solve, replay
from gen import ilgen

S, C = ilgen.S, ilgen.C


def extra_const(gen, blocks):
    r = gen.rnd
    w = gen.widths[0]
    k = r.random()
    # all scalars initialised in the entry block (so that nothing is read before assignment)
    init = []
    for n, ww in gen.vars + gen.flags + [("t", w)]:
        if r.random() < 0.6:
            init.append({"op": ["assign", S(n, ww), C(r.choice([0, 1, 5, 7]), ww)], "address": 0x800})
        else:
            init.append({"op": ["load", S(n, ww), C(0x3000 + 8 * len(init), 64)] if ww % 8 == 0 else ["assign", S(n, ww), C(1, ww)], "address": 0x800})
    blocks[0]["instructions"] = init + blocks[0]["instructions"]
    b = r.choice(blocks)
    if k < 0.2:
        b["instructions"].append({"op": gen.intrinsic(True), "address": 0x2008})
    elif k < 0.3:
        b["instructions"].append({"op": gen.intrinsic(False), "address": 0x2008})
    elif k < 0.4:
        blocks[-1]["instructions"].append({"op": ["branch", S("x", w)], "address": 0x2010})


def probes_for(f, rnd):
    sc = ilgen.scalars_in_function(f)
    names = sorted(sc)
    out = []
    ws = {}
    for n in names:
        ws.setdefault(sc[n], []).append(n)
    for w, ns in sorted(ws.items()):
        if len(ns) >= 2:
            out.append(["add", S(ns[0], w), S(ns[1], w)])
            out.append(["cmpltu", S(ns[-1], w), S(ns[0], w)])
        out.append(["xor", S(ns[0], w), C(1, w)])
    return out[:5]


def loc_key(l):
    return tuple(l)


def check_one(item):
    f = item["f"]; tier = item["tier"]
    res = {"id": f["meta"]}
    sc = ilgen.scalars_in_function(f)
    scal = [S(n, w) for n, w in sorted(sc.items())]
    probes = probes_for(f, None)
    r = ilcheck.call_fn("constants", f, scalars=scal, probes=probes)
    if "panic" in r or "died" in r:
        res.update(status="panic", detail=r.get("panic", str(r))); return res
    if not r.get("ok"):
        res.update(status="error", detail=f"{r.get('kind')}: {r.get('error')}"); return res
    table = {loc_key(row[0]): row[1] for row in r["table"]}
    reported = sum(1 for v in table.values() for s_, c_ in v["scalars"] if c_ is not None) + sum(1 for v in table.values() for p in v["probes"] if p is not None)
    res["reported"] = reported
    res["locations"] = len(table)
    if reported == 0:
        res.update(status="nothing-reported"); return res
    k = ilcheck.k_for(f, tier)
    ctx = il2smt.Ctx()
    lane = fbmc.Lane(f["cfg"], ctx)
    viol = []

    def at_location(loc, g, st):
        row = table.get(loc)
        if row is None:
            return
        gg = z3.BoolVal(True) if g is True else g
        for s_, c_ in row["scalars"]:
            if c_ is None:
                continue
            n = s_[1]
            asg = st.ghost.get("asg:" + n)
            if asg is None:
                continue          # never assigned on any path so far
            v = st.sc.get(n)
            if v is None:
                continue
            if v.size() != c_[2]:
                viol.append((f"{loc}: {n} reported with width {c_[2]} but holds {v.size()} bits", z3.And(gg, asg)))
                continue
            viol.append((f"{loc}: {n} == {c_[1]}", z3.And(gg, asg, v != z3.BitVecVal(int(c_[1]), c_[2]))))
        for e, c_ in zip(probes, row["probes"]):
            if c_ is None:
                continue
            names = {x[1] for x in il2smt.scalars_of(e)}
            asgs = [st.ghost.get("asg:" + n) for n in names]
            if any(a is None for a in asgs):
                continue
            try:
                v = il2smt.ev(ctx, st, e, g)
            except il2smt.SortError:
                continue
            if v.size() != c_[2]:
                viol.append((f"{loc}: eval width", z3.And(gg, *asgs)))
            else:
                viol.append((f"{loc}: eval({json.dumps(e)[:60]}) == {c_[1]}", z3.And(gg, *asgs, v != z3.BitVecVal(int(c_[1]), c_[2]))))

    class H(fbmc.Hooks):
        def before(self, b, pos, ins, g, sts):
            at_location(("ins", b, ins[0]["index"]), g, sts[0])

        def after(self, b, pos, ins, g, sts, kinds):
            op = ins[0]["op"]
            if op[0] in ("assign", "load"):
                sts[0].ghost["asg:" + op[1][1]] = z3.BoolVal(True)

        def edge_taken(self, e, ge, sts):
            at_location(("edge", e["head"], e["tail"]), ge, sts[0])

        def empty_block(self, b, g, sts):
            at_location(("empty", b), g, sts[0])

        def block_entry(self, b, g, sts):
            # ghost default: a scalar not yet assigned on some joining path is "not assigned" there
            pass
    # ghost defaults must be False on paths that have not assigned: pre-seed all names
    st0 = il2smt.initial_state(ctx)
    for n in sc:
        st0.ghost["asg:" + n] = z3.BoolVal(False)
    try:
        fbmc.run([lane], k, H(), [st0])
    except il2smt.SortError as e:
        res.update(status="sorterr", detail=str(e)); return res
    res["obligations"] = len(viol); res["k"] = k
    if not viol:
        res.update(status="nothing-reported"); return res
    assume = list(ctx.c04_assumptions)
    v, m, dt = solve.check(assume + [z3.Or(*[c for _, c in viol])], 60000)
    res["solver_s"] = dt
    if v == solve.UNSAT:
        res.update(status="unsat"); return res
    if v == solve.UNDECIDED:
        res.update(status="undecided"); return res
    which = [d for d, c in viol if z3.is_true(m.eval(c, model_completion=True))]
    scm, mem_read = ilcheck.model_inputs(ctx, m)
    ok, note = concrete_confirm(f, table, probes, scm, mem_read, k)
    res.update(status="sat", which=which[:4], reproduced=ok, note=note, model={"scalars": scm}, function=f,
               table_excerpt=[[list(kx), v_] for kx, v_ in list(table.items())[:0]])
    return res


def concrete_confirm(f, table, probes, scm, mem_read, k):
    """Concrete execution (replay.py): look for a location where an assigned scalar contradicts the table."""
    st = replay.CState({kk: (v[0], v[1]) for kk, v in scm.items()}, mem_read=mem_read)
    assigned = set()
    blocks = {b["index"]: b for b in f["cfg"]["blocks"]}
    out = {}
    for e in f["cfg"]["edges"]:
        out.setdefault(e["head"], []).append(e)

    def chk(loc):
        row = table.get(loc)
        if not row:
            return None
        for s_, c_ in row["scalars"]:
            if c_ is not None and s_[1] in assigned and st.sc.get(s_[1], (None,))[0] != int(c_[1]):
                return f"at {loc} {s_[1]} = {st.sc[s_[1]][0]} but constants() reports {c_[1]}"
        for e_, c_ in zip(probes, row["probes"]):
            if c_ is None:
                continue
            if all(x[1] in assigned for x in il2smt.scalars_of(e_)):
                try:
                    v, w = replay.ev(st, e_)
                except replay.Fault:
                    continue
                if v != int(c_[1]):
                    return f"at {loc} eval gives {c_[1]} but the expression is {v}"
        return None
    b = f["cfg"]["entry"]
    try:
        for step in range(4 * k + 50):
            blk = blocks[b]
            if not blk["instructions"]:
                r = chk(("empty", b))
                if r: return True, r
            for ins in blk["instructions"]:
                r = chk(("ins", b, ins["index"]))
                if r: return True, r
                kind, _ = replay.exec_op(st, ins["op"])
                if ins["op"][0] in ("assign", "load"):
                    assigned.add(ins["op"][1][1])
                if kind != "fall":
                    return False, "path ended at " + kind
            nxt = None
            for e in out.get(b, []):
                if e["cond"] is None or replay.ev(st, e["cond"])[0] == 1:
                    nxt = e; break
            if nxt is None:
                return False, "path ended"
            r = chk(("edge", nxt["head"], nxt["tail"]))
            if r: return True, r
            b = nxt["tail"]
    except replay.Fault as e:
        return False, f"fault {e}"
    return False, "no contradiction within the replay bound"


def main():
    drv.build()
    rep = common.Report("C13", "model_checking")
    n = 360 if rep.tier == "quick" else 2400
    fs = ilgen.corpus(2000 + rep.seed, n, profile="const", widths=(32, 8), extra=extra_const)
    for f in fs: f["meta"]["initialised"] = True
    fs += ilgen.corpus(2500 + rep.seed, n // 3, profile="const", widths=(32,))
    un = ilgen.corpus(2700 + rep.seed, 6, profile="const", widths=(32,), skeletons=["unreachable_pred", "unreachable_block"], extra=extra_const)
    for f in un: f["meta"]["initialised"] = True
    fs += un
    # blocks whose instruction indices are not dense (positions differ from indices)
    holed = ilgen.corpus(2900 + rep.seed, n // 4, profile="const", widths=(32,), extra=extra_const)
    hr = random.Random(rep.seed + 11)
    for f in holed:
        ilgen.add_holes(f, hr); f["meta"]["holes"] = True; f["meta"]["initialised"] = True
    fs += holed
    fs += ilcheck.lifted_corpus(rep.tier)
    items = [{"f": f, "tier": rep.tier} for f in fs]
    results = common.pmap(check_one, items, chunksize=2)
    counts = {}
    states = trans = 0
    for it, r in zip(items, results):
        if "crash" in r:
            rep.encoder_defect(f"{it['f']['meta']}: {r['crash']} {r.get('trace','')[-300:]}"); continue
        st = r["status"]; counts[st] = counts.get(st, 0) + 1
        rep.solver_s += r.get("solver_s", 0)
        states += r.get("locations", 0); trans += r.get("obligations", 0)
        sk = it["f"]["meta"]["skeleton"]
        if st == "unsat":
            rep.count("unsat")
            rep.sample({"function": it["f"]["meta"], "constants_reported": r["reported"], "k": r["k"], "obligations": r["obligations"], "verdict": "unsat"}, cap=5)
        elif st == "nothing-reported":
            rep.ground["checked"] += 1
        elif st == "undecided":
            rep.count("undecided"); rep.undecided.append(str(it["f"]["meta"]))
        elif st == "error" and not it["f"]["meta"].get("initialised"):
            # completion is only required when no scalar can be read before it is assigned
            rep.ground["checked"] += 1
            rep.extra.setdefault("errors_on_functions_reading_unassigned_scalars", 0)
            rep.extra["errors_on_functions_reading_unassigned_scalars"] += 1
        elif st in ("panic", "error", "sorterr"):
            rep.ground["checked"] += 1; rep.ground["failed"] += 1
            role = "live block has a predecessor unreachable from the entry" if sk == "unreachable_pred" else f"skeleton {sk}"
            rep.violation(f"constants/{st}/{role}", f"{it['f']['meta']}: {r.get('detail')}", {"function": it["f"], "result": r})
        elif st == "sat":
            rep.count("sat")
            if not r["reproduced"]:
                rep.encoder_defect(f"model does not reproduce for {it['f']['meta']}: {r['which']} ({r['note']})"); continue
            sig = "constants/unsound-constant"
            if not it["f"]["meta"].get("initialised"):
                sig = "constants/unsound-constant in a function that reads scalars it has not assigned (live-in treated as bottom at joins)"
            rep.violation(sig, f"{it['f']['meta']}: {r['note']}; solver obligations {r['which'][:2]}",
                          {"function": r["function"], "model": r["model"], "which": r["which"], "note": r["note"]})
    rep.extra["status_counts"] = counts
    rep.functions_encoded = ["analysis::constants::constants + Constants::scalar/eval (run concretely per function; table checked against all executions)"]
    rep.bounds = {"functions": len(items), "k_block_steps": "3x/6x longest acyclic path", "outside": "functions not generated; executions longer than k block-steps"}
    rep.finish({"states": max(1, states), "transitions": max(1, trans), "traces_validated_against_impl": counts.get("sat", 0),
                "explanation": "states = analysed locations, transitions = solver obligations (location x reported constant) over all executions <= k"},
               assumptions=["smt/ilsem.py is the IL's meaning (C04)", "paths end at indirect branches and intrinsics, as in the concrete executor"])


if __name__ == "__main__":
    main()
