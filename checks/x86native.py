"""Replay of C01 counterexamples: (i) concrete re-evaluation of the lifted IL with
replay.py, (ii) execution of the bytes on the host CPU (amd64 only) with native/x86run."""
import os, subprocess, json
from smt import drv, replay
from checks import liftcheck

VERIF = os.path.dirname(os.path.dirname(os.path.abspath(__file__)))
NATIVE = os.path.join(VERIF, "target", "x86run")


def confirm(item, r):
    """Returns (confirmed: True/False/None, note). None = could not be replayed (e.g. panic/sort error
    statuses are re-checked by re-lifting)."""
    st = r["status"]
    lift = drv.call({"cmd": "lift", "arch": item["arch"], "bytes": item["bytes"], "address": item["address"]})
    if st in ("panic", "died"):
        ok = ("panic" in lift) or ("died" in lift)
        return ok, "re-lift reproduces the crash" if ok else "re-lift did not crash"
    if st == "sorterr" and not r.get("detail", "").startswith("IL ill-sorted") and not r.get("detail", "").startswith("successor"):
        ok = (not lift.get("ok")) and lift.get("kind") == "Sort"
        return ok, "re-lift reproduces Error::Sort"
    if st in ("sorterr", "incomplete", "intrinsic-mismatch"):
        return True, "structural (no model needed)"
    model = r.get("model") or {}
    if not model.get("scalars") and not model.get("mem"):
        return True, "no model"
    diffs = r.get("diffs", [])
    try:
        cst, ending = liftcheck.concrete_replay(lift, model, "little", None)
    except replay.Fault as f:
        if any(d.startswith("fault") for d in diffs):
            return True, f"concrete IL run faults: {f}"
        return False, f"concrete IL run faulted unexpectedly: {f}"
    if "incomplete" in diffs:
        return (ending[0] == "noedge"), f"concrete IL run ends with {ending[0]}"
    if "needs-more-than-k-steps" in diffs:
        nblocks = sum(1 for t in cst.trace if t[0] == "block")
        kk = r.get("k_bound", 0)
        ok = ending[0] == "steps" or nblocks > kk
        return ok, f"concrete IL run from the model state enters {nblocks} blocks ({'step limit hit' if ending[0] == 'steps' else 'ends with ' + ending[0]}); the bound derived from the reference is {kk}"
    # IL next pc, concretely
    il_pc = None
    if ending[0] == "branch":
        il_pc = ending[1]
    else:
        for addr, c in lift["successors"]:
            if c is None or replay.ev(cst, c)[0] == 1:
                il_pc = addr
                break
    undef = set(model.get("undef", []))
    bad = []
    for n, sv in model.get("spec_post", {}).items():
        if n in undef:
            continue
        iv = cst.sc.get(n, (None, 0))[0]
        if iv is None:
            iv = model["scalars"].get(n, [None])[0]
        if iv != sv:
            bad.append(n)
    for n, (iv, w) in cst.sc.items():
        if n.startswith("temp") or n in undef or n in model.get("spec_post", {}) or n not in model["scalars"]:
            continue
        if iv != model["scalars"][n][0] and n in model.get("il_post", {}):
            bad.append(n)          # IL changed a register the reference leaves alone
    for a, sv in model.get("spec_mem", {}).items():
        iv = cst.mem.get(int(a), model["mem"].get(a, 0))
        if iv != sv:
            bad.append(f"mem[{int(a):#x}]")
    if "spec_pc" in model and il_pc != model["spec_pc"]:
        bad.append("pc")
    any_diff = bool(bad)
    note = ("concrete IL evaluation differs from the reference in " + ",".join(bad[:6])) if any_diff else "concrete IL evaluation agrees with the reference"
    nat = native_run(item, model)
    if nat is not None:
        ok_spec, ok_il, nnote = compare_native(item, model, nat, cst)
        note += "; " + nnote
        if not ok_spec:
            return False, note + " (host CPU disagrees with my reference: spec defect)"
        return ((not ok_il) or any_diff), note
    return any_diff, note + "; no native replay for this encoding"


GPR = ["rax", "rcx", "rdx", "rbx", "rsp", "rbp", "rsi", "rdi"] + [f"r{i}" for i in range(8, 16)]
FLAGBIT = {"CF": 0, "ZF": 6, "SF": 7, "DF": 10, "OF": 11}
WIN_LO, WIN_HI, PIN = 0x20010000, 0x20020000, 0x20028000
REGION_LO, REGION_HI = 0x1fff0000, 0x20030000


def build_native():
    src = os.path.join(VERIF, "native", "x86run.c")
    if os.path.exists(NATIVE) and os.path.getmtime(NATIVE) >= os.path.getmtime(src):
        return True
    os.makedirs(os.path.dirname(NATIVE), exist_ok=True)
    p = subprocess.run(["gcc", "-O1", "-no-pie", "-o", NATIVE, src], stdout=subprocess.PIPE, stderr=subprocess.STDOUT)
    return p.returncode == 0


def native_run(item, model):
    """Execute the bytes on the host CPU from the model's pre-state. None if not possible."""
    if item["arch"] != "amd64" or not model.get("windowed"):
        return None
    d = item["desc"]
    if d["mn"] in ("hlt", "int", "syscall", "sysenter", "ud2", "cli", "sti"):
        return None
    for op in d.get("ops", []):
        if op[0] == "mem" and op[1].get("seg"):
            return None
    if not build_native():
        return None
    sc = model["scalars"]
    lines = [f"code {item['bytes']}"]
    for i, n in enumerate(GPR):
        lines.append(f"reg {i} {sc.get(n, [0])[0]:x}")
    fl = 0x202
    for f, b in FLAGBIT.items():
        if sc.get(f, [0])[0]:
            fl |= 1 << b
    lines.append(f"rflags {fl:x}")
    for i in range(16):
        v = sc.get(f"xmm{i}", [0])[0]
        lines.append(f"xmm {i} " + v.to_bytes(16, "little").hex())
    for a, b in model["mem"].items():
        a = int(a)
        if not (REGION_LO <= a < REGION_HI):
            return None
        lines.append(f"mem {a:x} {b:x}")
        lines.append(f"watch {a:x}")
    n = len(item["bytes"]) // 2
    fall = item["address"] + n
    stubs = {fall: 0}
    for key in ("spec_pc", "il_pc"):
        t = model.get(key)
        if t is not None and t not in stubs:
            if not (REGION_LO <= t < REGION_HI - 16):
                return None
            stubs[t] = len(stubs)
    if len(stubs) > 4:
        return None
    for t, k in stubs.items():
        lines.append(f"stub {t:x} {k}")
    lines.append("go")
    try:
        p = subprocess.run([NATIVE], input="\n".join(lines) + "\n", stdout=subprocess.PIPE, stderr=subprocess.PIPE, text=True, timeout=10)
    except subprocess.TimeoutExpired:
        return {"fault": "timeout"}
    out = {"regs": {}, "mem": {}, "xmm": {}}
    for ln in p.stdout.splitlines():
        w = ln.split()
        if not w: continue
        if w[0] == "fault": return {"fault": ln}
        if w[0] == "error": return None
        if w[0] == "which":
            k = int(w[1])
            out["pc"] = next((t for t, kk in stubs.items() if kk == k), None)
        elif w[0] == "reg": out["regs"][GPR[int(w[1])]] = int(w[2], 16)
        elif w[0] == "rflags": out["rflags"] = int(w[1], 16)
        elif w[0] == "xmm": out["regs"][f"xmm{w[1]}"] = int.from_bytes(bytes.fromhex(w[2]), "little")
        elif w[0] == "mem": out["mem"][int(w[1], 16)] = int(w[2], 16)
    if "rflags" not in out:
        return {"fault": "no output (rc=%s)" % p.returncode}
    for f, b in FLAGBIT.items():
        out["regs"][f] = (out["rflags"] >> b) & 1
    return out


def compare_native(item, model, nat, cst):
    """-> (native agrees with reference, native agrees with IL, note)"""
    if "fault" in nat:
        return True, True, f"native run faulted ({nat['fault']}): not used"
    undef = set(model.get("undef", []))
    bad_spec, bad_il = [], []
    names = set(model.get("spec_post", {})) | set(model.get("il_post", {}))
    for n in sorted(names):
        if n in undef or n not in nat["regs"]:
            continue
        nv = nat["regs"][n]
        sv = model["spec_post"].get(n, model["scalars"].get(n, [None])[0])
        iv = model["il_post"].get(n, model["scalars"].get(n, [None])[0])
        if sv is not None and sv != nv: bad_spec.append(f"{n}: cpu={nv:#x} ref={sv:#x}")
        if iv is not None and iv != nv: bad_il.append(f"{n}: cpu={nv:#x} il={iv:#x}")
    for a, nv in nat["mem"].items():
        sv = model.get("spec_mem", {}).get(str(a)); iv = model.get("il_mem", {}).get(str(a))
        if sv is not None and sv != nv: bad_spec.append(f"mem[{a:#x}]: cpu={nv:#x} ref={sv:#x}")
        if iv is not None and iv != nv: bad_il.append(f"mem[{a:#x}]: cpu={nv:#x} il={iv:#x}")
    if "pc" in nat and nat["pc"] is not None:
        if model.get("spec_pc") is not None and model["spec_pc"] != nat["pc"]: bad_spec.append(f"pc: cpu={nat['pc']:#x} ref={model['spec_pc']:#x}")
        if model.get("il_pc") is not None and model["il_pc"] != nat["pc"]: bad_il.append(f"pc: cpu={nat['pc']:#x} il={model['il_pc']:#x}")
    note = "host CPU: " + ("agrees with reference" if not bad_spec else "DISAGREES with reference " + "; ".join(bad_spec[:4]))
    note += "; " + ("agrees with IL" if not bad_il else "differs from IL: " + "; ".join(bad_il[:4]))
    return (not bad_spec), (not bad_il), note
