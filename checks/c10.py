#!/usr/bin/env python3
"""C10 - SSA transformation yields valid, behaviour-preserving SSA.

Real `transformation::ssa_transformation` runs on each IL function; the product run of the
original (scalars by name) and the SSA form (scalars by name.version, phi nodes selecting by
incoming edge) is decided by z3 for all initial states within k block-steps."""
import sys, os, random, json
sys.path.insert(0, os.path.dirname(os.path.dirname(os.path.abspath(__file__))))
import z3
from checks import common, ilcheck
from smt import drv, il2smt, fbmc, solve, replay
from gen import ilgen

S, C = ilgen.S, ilgen.C


def extra_ssa(gen, blocks):
    """A scalar assigned on several paths and read after the join only by an edge guard or by one instruction."""
    r = gen.rnd
    w = gen.widths[0]
    if len(blocks) >= 3 and r.random() < 0.5:
        for b in blocks[1:3]:
            b["instructions"].append({"op": ["assign", S("q", 1), gen.cond()], "address": 0x2100})


def ssa_ground(f, g):
    errs = fbmc.same_shape(f["cfg"], g["cfg"])
    defs = {}
    preds = {}
    for e in g["cfg"]["edges"]:
        preds.setdefault(e["tail"], set()).add(e["head"])
    for b in g["cfg"]["blocks"]:
        for p in b["phis"]:
            kx = (p["out"][1], p["out"][3])
            defs[kx] = defs.get(kx, 0) + 1
            inc = [bi for bi, _ in p["incoming"]]
            want = preds.get(b["index"], set())
            if set(inc) != want or len(inc) != len(set(inc)):
                errs.append(f"phi {kx} in block {b['index']}: incoming {sorted(inc)} but predecessors {sorted(want)}")
            if b["index"] == g["cfg"]["entry"] and p.get("entry") is None:
                errs.append(f"phi {kx} in the entry block has no entry value")
        for ins in b["instructions"]:
            op = ins["op"]
            if op[0] in ("assign", "load"):
                if op[1][3] is None:
                    errs.append(f"block {b['index']} ins {ins['index']}: destination {op[1][1]} has no version")
                kx = (op[1][1], op[1][3])
                defs[kx] = defs.get(kx, 0) + 1
    for kx, n in defs.items():
        if n > 1:
            errs.append(f"{kx[0]}.{kx[1]} assigned {n} times")
    return errs


def check_one(item):
    f = ilcheck.view(item["f"]); tier = item["tier"]
    res = {"id": f["meta"]}
    r = ilcheck.call_fn("ssa", f)
    if "panic" in r or "died" in r:
        res.update(status="panic", detail=r.get("panic", str(r))); return res
    if not r.get("ok"):
        res.update(status="error", detail=f"{r.get('kind')}: {r.get('error')}"); return res
    g = r["function"]
    errs = ssa_ground(f, g)
    if errs:
        res.update(status="ground-fail", detail="; ".join(errs[:3]), function=f, ssa=g); return res
    k = ilcheck.k_for(f, tier)
    ctxa = il2smt.Ctx()
    ctxb = il2smt.Ctx(ssa=True)
    ctxb.inputs = ctxa.inputs
    ctxb.mem0 = ctxa.mem0
    la, lb = fbmc.Lane(f["cfg"], ctxa), fbmc.Lane(g["cfg"], ctxb, phi=True)
    viol = []

    class H(fbmc.Hooks):
        def before(self, b, pos, ins, g_, sts):
            opa, opb = ins[0]["op"], ins[1]["op"]
            gg = z3.BoolVal(True) if g_ is True else g_
            if opa[0] != opb[0]:
                viol.append((f"operation kind changed at block {b} pos {pos}", gg)); return
            if opa[0] == "store":
                aa = il2smt.addr64(il2smt.ev(ctxa, sts[0], opa[1], g_)); ab = il2smt.addr64(il2smt.ev(ctxb, sts[1], opb[1], g_))
                va = il2smt.ev(ctxa, sts[0], opa[2], g_); vb = il2smt.ev(ctxb, sts[1], opb[2], g_)
                viol.append((f"store at block {b} pos {pos}", z3.And(gg, z3.Or(aa != ab, va != vb))))
            if opa[0] == "branch":
                ta = il2smt.ev(ctxa, sts[0], opa[1], g_); tb = il2smt.ev(ctxb, sts[1], opb[1], g_)
                viol.append((f"branch target at block {b} pos {pos}", z3.And(gg, ta != tb)))
            if opa[0] == "load":
                aa = il2smt.addr64(il2smt.ev(ctxa, sts[0], opa[2], g_)); ab = il2smt.addr64(il2smt.ev(ctxb, sts[1], opb[2], g_))
                viol.append((f"load address at block {b} pos {pos}", z3.And(gg, aa != ab)))

        def after(self, b, pos, ins, g_, sts, kinds):
            opa, opb = ins[0]["op"], ins[1]["op"]
            gg = z3.BoolVal(True) if g_ is True else g_
            if opa[0] == "assign" and opb[0] == "assign":
                va = sts[0].sc[il2smt.key_of(opa[1], False)]; vb = sts[1].sc[il2smt.key_of(opb[1], True)]
                if va.size() != vb.size():
                    viol.append((f"assigned width at block {b} pos {pos}", gg))
                else:
                    viol.append((f"value assigned at block {b} pos {pos}", z3.And(gg, va != vb)))

        def edge(self, e, g_, sts, conds):
            gg = z3.BoolVal(True) if g_ is True else g_
            ca = conds[0] if conds[0] is not True else z3.BoolVal(True)
            cb = conds[1] if conds[1] is not True else z3.BoolVal(True)
            viol.append((f"edge {e['head']}->{e['tail']} taken differently", z3.And(gg, ca != cb)))
    try:
        fbmc.run([la, lb], k, H())
    except il2smt.SortError as e:
        res.update(status="sorterr", detail=str(e), function=f, ssa=g); return res
    res["k"] = k; res["obligations"] = len(viol)
    nofault = z3.Not(z3.Or(*[c for _, c in ctxa.faults])) if ctxa.faults else z3.BoolVal(True)
    assume = [nofault] + ctxa.c04_assumptions
    v, m, dt = solve.check(assume + [z3.Or(*[c for _, c in viol])], 60000)
    res["solver_s"] = dt
    if v == solve.UNSAT:
        res.update(status="unsat"); return res
    if v == solve.UNDECIDED:
        res.update(status="undecided"); return res
    which = [d for d, c in viol if z3.is_true(m.eval(c, model_completion=True))]
    scm, mem_read = ilcheck.model_inputs(ctxa, m)
    sa, ea = ilcheck.concrete_run(f, scm, mem_read)
    sb, eb = ilcheck.concrete_run(g, scm, mem_read, ssa=True, phi=True)
    ta = [x for x in sa.trace if x[0] == "block"]; tb = [x for x in sb.trace if x[0] == "block"]
    n_ = min(len(ta), len(tb)); ns = min(len(sa.stores), len(sb.stores))
    differs = ea[0] != eb[0] or (ea[0] == "branch" and ea != eb) or ta[:n_] != tb[:n_] or sa.stores[:ns] != sb.stores[:ns]
    if not differs:
        # compare assigned values along the common trace: replay both, instruction by instruction
        differs = assigned_values_differ(f, g, scm, mem_read)
    res.update(status="sat", which=which[:4], reproduced=bool(differs), model={"scalars": scm, "endings": [list(map(str, ea)), list(map(str, eb))]},
               function=f, ssa=g)
    return res


def assigned_values_differ(f, g, scm, mem_read):
    """Lock-step concrete run comparing the value of every assignment."""
    sa = replay.CState({k: (v[0], v[1]) for k, v in scm.items()}, mem_read=mem_read)
    sb = replay.CState({k: (v[0], v[1]) for k, v in scm.items()}, mem_read=mem_read, ssa=True)
    ba = {b["index"]: b for b in f["cfg"]["blocks"]}; bb = {b["index"]: b for b in g["cfg"]["blocks"]}
    outa = {}
    for e in f["cfg"]["edges"]:
        outa.setdefault(e["head"], []).append(e)
    cur = f["cfg"]["entry"]; prev = None
    try:
        for step in range(300):
            blk = bb[cur]
            vals = []
            for p in blk.get("phis", []):
                src = None
                for bi, s in p["incoming"]:
                    if bi == prev: src = s
                if src is None and prev is None: src = p.get("entry")
                if src is None:
                    return True
                kx = sb.key(src)
                if kx not in sb.sc:
                    return True
                vals.append((sb.key(p["out"]), sb.sc[kx]))
            for kx, v in vals: sb.sc[kx] = v
            for ia, ib in zip(ba[cur]["instructions"], blk["instructions"]):
                ka, _ = replay.exec_op(sa, ia["op"]); kb, _ = replay.exec_op(sb, ib["op"])
                if ia["op"][0] in ("assign", "load"):
                    if sa.sc[sa.key(ia["op"][1])] != sb.sc[sb.key(ib["op"][1])]:
                        return True
                if ka != "fall":
                    return False
            nxt = None
            for e in outa.get(cur, []):
                if e["cond"] is None or replay.ev(sa, e["cond"])[0] == 1:
                    nxt = e; break
            if nxt is None:
                return False
            prev, cur = cur, nxt["tail"]
    except replay.Fault:
        return True
    return False


def guard_only(r):
    """Role: a scalar assigned on two or more paths whose stale version is read by an edge guard."""
    return any(w.startswith("edge ") for w in r.get("which", []))


def main():
    drv.build()
    rep = common.Report("C10", "translation_validation")
    n = 360 if rep.tier == "quick" else 2400
    fs = ilgen.corpus(4000 + rep.seed, n, profile="mixed", widths=(32, 8), extra=extra_ssa)
    fs += ilgen.corpus(4500 + rep.seed, n // 3, profile="const", widths=(32,), extra=extra_ssa)
    fs += ilgen.corpus(4700 + rep.seed, 6, profile="mixed", widths=(32,), skeletons=["unreachable_pred", "unreachable_block"])
    holed = ilgen.corpus(4800 + rep.seed, n // 6, profile="mixed", widths=(32,))
    hr = random.Random(rep.seed + 5)
    for f in holed:
        ilgen.add_holes(f, hr); f["meta"]["holes"] = True
    fs += holed + ilcheck.lifted_corpus(rep.tier)
    items = [{"f": f, "tier": rep.tier} for f in fs]
    results = common.pmap(check_one, items, chunksize=2)
    counts = {}
    for it, r in zip(items, results):
        if "crash" in r:
            rep.encoder_defect(f"{it['f']['meta']}: {r['crash']} {r.get('trace','')[-400:]}"); continue
        st = r["status"]; counts[st] = counts.get(st, 0) + 1
        rep.solver_s += r.get("solver_s", 0)
        sk = it["f"]["meta"]["skeleton"]
        if st == "unsat":
            rep.count("unsat")
            rep.sample({"function": it["f"]["meta"], "k": r["k"], "obligations": r["obligations"], "verdict": "unsat"}, cap=5)
        elif st == "undecided":
            rep.count("undecided"); rep.undecided.append(str(it["f"]["meta"]))
        elif st in ("panic", "error"):
            rep.ground["checked"] += 1; rep.ground["failed"] += 1
            role = "function with a block unreachable from the entry" if sk.startswith("unreachable") else f"skeleton {sk}"
            rep.violation(f"ssa/{st}/{role}", f"{it['f']['meta']}: {r.get('detail')}", {"function": it["f"], "result": r})
        elif st in ("ground-fail", "sorterr"):
            rep.ground["checked"] += 1; rep.ground["failed"] += 1
            sig = f"ssa/{st}"
            if st == "ground-fail":
                # role: do all complaints concern blocks that cannot be reached from the entry?
                import re as _re
                cfg = ilcheck.view(it["f"])["cfg"]
                reach = {cfg["entry"]}; changed = True
                while changed:
                    changed = False
                    for e in cfg["edges"]:
                        if e["head"] in reach and e["tail"] not in reach: reach.add(e["tail"]); changed = True
                named = {int(x) for x in _re.findall(r"block (\d+)", str(r.get("detail")))}
                if named and not (named & reach):
                    sig = "ssa/ground-fail/block unreachable from the entry is left unrenamed"
            rep.violation(sig, f"{it['f']['meta']}: {r.get('detail')}", {"function": r.get("function"), "ssa": r.get("ssa")})
        elif st == "sat":
            rep.count("sat")
            if not r["reproduced"]:
                rep.encoder_defect(f"model does not reproduce for {it['f']['meta']}: {r['which']}"); continue
            first = r["which"][0].split(" at ")[0].split(" taken")[0]
            role = "stale version read by an edge guard after a join (no phi for guard-only uses)" if guard_only(r) and only_guard_reads(r) else "behaviour differs: " + ("edge guard" if first.startswith("edge") else first)
            rep.violation("ssa/" + role, f"{it['f']['meta']}: {r['which'][:2]} (initial state {json.dumps(r['model']['scalars'])[:160]})",
                          {"function": r["function"], "ssa": r["ssa"], "model": r["model"], "which": r["which"]})
    rep.extra["status_counts"] = counts
    rep.functions_encoded = ["transformation::ssa_transformation (run concretely; original and SSA form encoded and compared in lock-step)"]
    rep.bounds = {"functions": len(items), "k_block_steps": "3x/6x longest acyclic path"}
    rep.finish({"programs": len(items), "disagreements_checked": counts.get("sat", 0),
                "explanation": "product run of f and ssa(f) from a common symbolic state; phi nodes evaluated on edge traversal"},
               assumptions=["input function runs without fault within k", "smt/ilsem.py is the IL's meaning (C04)"])


def only_guard_reads(r):
    """True when every differing observation is an edge guard (the listed defect role)."""
    return all(w.startswith("edge ") for w in r.get("which", []))


if __name__ == "__main__":
    main()
