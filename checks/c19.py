#!/usr/bin/env python3
"""C19 - ELF loading maps exactly the image and rebases uniformly.

Engine B (symbolic execution of the compiler's MIR of falcon's own loader code, z3 per path).
goblin's parser is foreign code: `Elf::elf()` / `goblin::elf::Elf::parse` are replaced by a stub that
returns ARBITRARY parsed structures (program headers, symbols, relocations, header fields are
symbolic), constrained only by what a well-formed ELF guarantees (gABI).  What is decided:

 A. Elf::memory - one inductive step of the PT_LOAD loop: arbitrary valid memory so far
    (Memory::new is replaced by an arbitrary byte map), one arbitrary program header, arbitrary
    file bytes and base; set_memory is replaced by the contract that C16 proves for it.
    Post: the byte map is overwritten exactly on [p_vaddr+base, +p_memsz) with the file bytes
    followed by zero fill and carries the translated R/W/X flags; other headers change nothing;
    no panic and no error on well-formed input.
 B. function_entries / symbols / exported_symbols / program_entry with <= 2 dynamic symbols,
    <= 2 static symbols, <= 1 PLT relocation and <= 1 user entry (all fields symbolic): the entries are exactly the
    defined function symbols, the program entry and the user entries, and every reported address
    is (value in the file) + base.
 C. Elf::new: the architecture object chosen is the one named by e_machine / EI_DATA.

Outside: goblin's parsing itself, ElfLinker (dependency loading and relocation), more symbols
than the stated bounds (the loops are uniform in the symbol), overlapping PT_LOAD segments."""
import sys, os, re, json
sys.path.insert(0, os.path.dirname(os.path.dirname(os.path.abspath(__file__))))
import z3
from checks import common
from smt import solve
from mirsym import interp as I, models as M, containers as K, pycont as PC, dump

R = M.R
val = M.val
MAXLEN = 1 << 20


def bv(n, w=64): return z3.BitVecVal(n, w)


R386 = {"R_386_32": 1, "R_386_PC32": 2, "R_386_GOT32": 3, "R_386_PLT32": 4, "R_386_COPY": 5, "R_386_GLOB_DAT": 6, "R_386_JMP_SLOT": 7, "R_386_RELATIVE": 8,
        "R_386_GOTOFF": 9, "R_386_GOTPC": 10, "R_386_TLS_TPOFF": 14, "R_386_IRELATIVE": 42}
GABI = {"goblin::elf::dynamic::DT_PLTGOT": (3, 64), "goblin::elf::reloc::R_MIPS_REL32": (3, 32),
        "goblin::elf::program_header::PT_LOAD": (1, 32), "goblin::elf::program_header::PF_X": (1, 32), "goblin::elf::program_header::PF_W": (2, 32),
        "goblin::elf::program_header::PF_R": (4, 32), "goblin::elf::sym::STB_GLOBAL": (1, 8), "goblin::elf::sym::STB_WEAK": (2, 8),
        "goblin::elf::header::EM_386": (3, 16), "goblin::elf::header::EM_MIPS": (8, 16), "goblin::elf::header::EM_PPC": (20, 16),
        "goblin::elf::header::EM_X86_64": (62, 16), "goblin::elf::header::EM_AARCH64": (183, 16)}


class AbsMem:
    """backing::Memory as a byte map given by layers (last wins): (addr, len, arr, off, perm)."""
    def __init__(self, layers): self.layers = list(layers)

    def mapped(self, q):
        return z3.Or(*[z3.And(z3.ULE(a, q), z3.ULT(q - a, n)) for a, n, _, _, _ in self.layers]) if self.layers else z3.BoolVal(False)

    def byte(self, q):
        v = bv(0, 8)
        for a, n, arr, off, _ in self.layers:
            v = z3.If(z3.And(z3.ULE(a, q), z3.ULT(q - a, n)), z3.Select(arr, off + (q - a)), v)
        return v

    def perm(self, q):
        v = bv(0, 32)
        for a, n, _, _, p in self.layers:
            v = z3.If(z3.And(z3.ULE(a, q), z3.ULT(q - a, n)), p, v)
        return v


def program():
    path, dt = dump.mir_path()
    want = lambda n: any(x in n for x in ("loader::", "backing::", "lib/loader/", "lib/memory/", "architecture::", "memory::", "const loader", "const memory", "const backing", "symbol::", "elf_linker::", "get_dynamic"))
    return I.Program(path, "/repo/lib", want), dt


def find(prog, pat):
    c = [n for n in prog.raw if re.search(pat, n)]
    if len(c) != 1:
        raise RuntimeError(f"cannot locate exactly one function for {pat}: {c[:4]}")
    return c[0]


class Harness:
    """Per-run symbolic inputs and the goblin / std stubs built on them."""

    def __init__(self, prog, nph=0, ndyn=0, nsym=0, nplt=0, nuser=0, pre_layers=0):
        self.prog = prog
        self.base = z3.BitVec("base", 64)
        self.flen = z3.BitVec("file_len", 64); self.farr = z3.Array("file", z3.BitVecSort(64), z3.BitVecSort(8))
        self.endian_big = z3.Bool("endian_big")
        self.ph = [dict(p_type=z3.BitVec(f"ph{i}_type", 32), p_flags=z3.BitVec(f"ph{i}_flags", 32), p_offset=z3.BitVec(f"ph{i}_offset", 64), p_vaddr=z3.BitVec(f"ph{i}_vaddr", 64),
                        p_paddr=z3.BitVec(f"ph{i}_paddr", 64), p_filesz=z3.BitVec(f"ph{i}_filesz", 64), p_memsz=z3.BitVec(f"ph{i}_memsz", 64), p_align=z3.BitVec(f"ph{i}_align", 64)) for i in range(nph)]
        mk = lambda t, i: dict(st_name=z3.BitVec(f"{t}{i}_name", 64), st_info=z3.BitVec(f"{t}{i}_info", 8), st_other=z3.BitVec(f"{t}{i}_other", 8), st_shndx=z3.BitVec(f"{t}{i}_shndx", 64),
                               st_value=z3.BitVec(f"{t}{i}_value", 64), st_size=z3.BitVec(f"{t}{i}_size", 64))
        self.dyn = [mk("dyn", i) for i in range(ndyn)]
        self.sym = [mk("sym", i) for i in range(nsym)]
        self.plt = [dict(r_offset=z3.BitVec(f"plt{i}_offset", 64), r_sym=z3.BitVec(f"plt{i}_sym", 64), r_type=z3.BitVec(f"plt{i}_type", 32)) for i in range(nplt)]
        self.user = [z3.BitVec(f"user{i}", 64) for i in range(nuser)]
        self.e_entry = z3.BitVec("e_entry", 64); self.e_machine = z3.BitVec("e_machine", 16)
        self.pre = AbsMem([(z3.BitVec(f"pre{i}_addr", 64), z3.BitVec(f"pre{i}_len", 64), z3.Array(f"pre{i}_data", z3.BitVecSort(64), z3.BitVecSort(8)), bv(0), z3.BitVec(f"pre{i}_perm", 32)) for i in range(pre_layers)])
        self.mem = None
        self.parse_ok = z3.Bool("goblin_parse_ok"); self.endianness_ok = z3.Bool("endianness_ok")

    # ---- aggregates with goblin 0.6 field order (checked against Cargo.lock in main)
    def sym_agg(self, s):
        return I.Agg("struct", "Sym", [s["st_name"], s["st_info"], s["st_other"], s["st_shndx"], s["st_value"], s["st_size"]])

    def elf_agg(self):
        header = I.Agg("struct", "Header", [I.Opaque("e_ident"), bv(2, 16), self.e_machine, bv(1, 32), self.e_entry] + [I.Opaque("hdr")] * 9)
        phs = K.VecVal([I.Agg("struct", "ProgramHeader", [p[k] for k in ("p_type", "p_flags", "p_offset", "p_vaddr", "p_paddr", "p_filesz", "p_memsz", "p_align")]) for p in self.ph])
        f = [header, phs, K.VecVal([]), StrTab("shdr_strtab"), StrTab("dynstrtab"), SymTab(self, "dyn"), SymTab(self, "sym"), StrTab("strtab"), M.none(),
             RelocSec(self, "none"), RelocSec(self, "none"), RelocSec(self), K.VecVal([]), M.none(), M.none(), K.VecVal([]), K.VecVal([]), K.VecVal([]),
             z3.BoolVal(True), z3.BoolVal(False), self.e_entry, z3.Not(self.endian_big), I.Opaque("ctx")]
        if getattr(self, "dynamic", None) is not None:
            f[8] = M.some(I.Agg("struct", "Dynamic", [PC.PVec([I.Agg("struct", "Dyn", [bv(tag), v_]) for tag, v_ in self.dynamic]), I.Opaque("info")]))
        if getattr(self, "dynrels", None) is not None:
            f[10] = RelocSec(self, "dynrels")
        return I.Agg("struct", "goblin::Elf", f)

    def elf_self(self):
        """loader::elf::elf::Elf { base_address, bytes, user_function_entries, architecture }"""
        return I.Agg("struct", "Elf", [self.base, K.ByteVec(self.flen, self.farr), K.VecVal(list(self.user)), I.Opaque("architecture")])


class StrTab:
    def __init__(self, name): self.name = name


class SymTab:
    def __init__(self, h, which): self.h = h; self.which = which
    def syms(self): return self.h.dyn if self.which == "dyn" else self.h.sym


class RelocSec:
    def __init__(self, h, which="plt"): self.h = h; self.which = which


class Name:
    """&str / String taken from a string table: identified by (table, index)."""
    def __init__(self, tab, idx): self.tab = tab; self.idx = idx
    def __repr__(self): return f"Name({self.tab}[{self.idx}])"

    def key(self):
        i = z3.simplify(self.idx) if z3.is_bv(self.idx) else self.idx
        if z3.is_bv(i) and not z3.is_bv_value(i):
            raise I.Unsupported("symbol name index is symbolic")
        return ("name", self.tab, i.as_long() if z3.is_bv(i) else i)


def models_for(h):
    def m_elf(it, c, a): return h.elf_agg()
    def m_endian(it, c, a):
        en = it.prog.enums["Endian"]
        return I.Agg("enum", "Endian", [], en.index("Big")) if it.branch(h.endian_big) else I.Agg("enum", "Endian", [], en.index("Little"))
    def m_mem_new(it, c, a):
        h.mem = AbsMem(h.pre.layers); return h.mem
    def m_set_memory(it, c, a):
        mem, addr, data, perm = val(a[0]), val(a[1]), val(a[2]), val(a[3])
        # contract proved by C16 (byte map overwritten on [addr, addr+len), nothing else changes; empty regions ignored)
        mem.layers.append((addr, data.len, data.arr, data.off, perm.fields[0]))
        return None
    def m_range_get(it, c, a):
        v = val(a[0]); r = val(a[1]); lo, hi = r.fields
        if it.branch(z3.And(z3.ULE(lo, hi), z3.ULE(hi, v.len))):
            return M.some(K.ByteVec(hi - lo, v.arr, v.off + lo))
        return M.none()
    def m_to_vec(it, c, a):
        v = val(a[0]); return K.ByteVec(v.len, v.arr, v.off)
    def m_from_elem(it, c, a):
        return K.ByteVec(val(a[1]), z3.K(z3.BitVecSort(64), val(a[0])), bv(0))
    def m_append(it, c, a):
        x, y = val(a[0]), val(a[1])
        i = z3.BitVec("i!", 64)
        x.arr = z3.Lambda([i], z3.If(z3.ULT(i, x.len), z3.Select(x.arr, x.off + i), z3.Select(y.arr, y.off + (i - x.len))))
        x.off = bv(0); x.len = x.len + y.len; y.len = bv(0)
        return None
    def m_symtab_iter(it, c, a):
        t = val(a[0])
        if isinstance(t, SymTab): return K.IterVal([h.sym_agg(s) for s in t.syms()])
        if isinstance(t, RelocSec): return K.IterVal([I.Agg("struct", "Reloc", [p["r_offset"], M.none(), p["r_sym"], p["r_type"]]) for p in (h.plt if t.which == "plt" else (getattr(h, "dynrels", None) or [] if t.which == "dynrels" else []))])
        if isinstance(t, K.IterVal): return t
        raise I.Unsupported(f"iter of {t!r}")
    def m_symtab_get(it, c, a):
        t = val(a[0]); i = val(a[1])
        for k, s in enumerate(t.syms()):
            if it.branch(i == bv(k)):
                return M.some(h.sym_agg(s))
        return M.none()
    def m_strtab_index(it, c, a):
        return Name(val(a[0]).name, val(a[1]))
    def m_is_function(it, c, a): return (val(a[0]).fields[1] & bv(0xf, 8)) == bv(2, 8)
    def m_st_bind(it, c, a): return z3.LShR(val(a[0]).fields[1], bv(4, 8))
    def m_vec_new(it, c, a): return K.VecVal([])
    def m_vec_push(it, c, a):
        val(a[0]).items.append(val(a[1])); return None
    def m_identity(it, c, a): return val(a[0])
    def m_none(it, c, a): return None
    def m_map_new(it, c, a): return K.MapVal([])
    def m_entry(it, c, a): return I.Agg("struct", "Entry", [a[0], val(a[1])])
    def m_or_insert_with(it, c, a):
        e = val(a[0]); m = val(e.fields[0]); key = e.fields[1]
        for k, v in m.entries:
            if it.branch(k == key):
                return I.ValRef(v)
        v = it.call_closure(a[1], [])
        m.entries.append([key, v]); return I.ValRef(v)
    def m_into_values(it, c, a): return K.IterVal([v for k, v in val(a[0]).entries])
    def m_slice_iter(it, c, a):
        v = val(a[0]); return K.IterVal([I.ValRef(x) for x in v.items])
    def m_parse(it, c, a):
        if it.branch(h.parse_ok): return I.Agg("enum", "Result", [h.elf_agg()], 0)
        return I.Agg("enum", "Result", [I.Opaque("goblin error")], 1)
    def m_endianness(it, c, a):
        if not it.branch(h.endianness_ok): return I.Agg("enum", "Result", [I.Opaque("goblin error")], 1)
        return I.Agg("enum", "Result", [I.Agg("enum", "goblin::Endian", [], 1 if it.branch(h.endian_big) else 0)], 0)
    def m_map_err(it, c, a):
        r = val(a[0])
        if r.variant == 0: return r
        return I.Agg("enum", "Result", [it.call_closure(a[1], [r.fields[0]])], 1)
    def m_map_insert(it, c, a):
        m = val(a[0]); key = val(a[1]); v = val(a[2])
        for e in m.entries:
            if it.branch(e[0] == key):
                old = e[1]; e[1] = v; return M.some(old)
        m.entries.append([key, v]); return M.none()
    def m_contains(it, c, a):
        m = val(a[0]); key = val(a[1])
        return z3.Or(*[k == key for k, _ in m.entries]) if m.entries else z3.BoolVal(False)
    return [
        (R(r"loader::elf::elf::Elf::elf$"), m_elf),
        (R(r"as loader::Loader>::architecture$"), lambda it, c, a: I.Opaque("dyn Architecture")),
        (R(r"<dyn architecture::Architecture as architecture::Architecture>::endian$"), m_endian),
        (R(r"backing::Memory::new$"), m_mem_new),
        (R(r"backing::Memory::set_memory$"), m_set_memory),
        (R(r"<impl \[u8\]>::get::<std::ops::Range<usize>>$"), m_range_get),
        (R(r"<impl \[u8\]>::to_vec$"), m_to_vec),
        (R(r"vec::from_elem::<u8>$"), m_from_elem),
        (R(r"Vec::<u8>::append$"), m_append),
        (R(r"Symtab<'_> as IntoIterator>::into_iter$|Symtab::<'_>::iter$|SymIterator<'_> as IntoIterator>::into_iter$|RelocSection::<'_>::iter$|RelocIterator<'_> as IntoIterator>::into_iter$"), m_symtab_iter),
        (R(r"Symtab::<'_>::get$"), m_symtab_get),
        (R(r"<Strtab<'_> as std::ops::Index<usize>>::index$"), m_strtab_index),
        (R(r"goblin::elf::Sym::is_function$"), m_is_function),
        (R(r"goblin::elf::Sym::st_bind$"), m_st_bind),
        (R(r"Vec::<loader::symbol::Symbol>::new$|Vec::<u64>::new$"), m_vec_new),
        (R(r"Vec::<loader::symbol::Symbol>::push$"), m_vec_push),
        (R(r"<str as ToString>::to_string$|<&str as Into<String>>::into$|<&str as Into<std::string::String>>::into$|<S as Into<std::string::String>>::into$|<String as From<&str>>::from$"), m_identity),
        (R(r"\[loader::symbol::Symbol\]>::sort$|Vec::<loader::symbol::Symbol>::dedup$"), m_none),
        (R(r"<Vec<loader::symbol::Symbol> as DerefMut>::deref_mut$"), m_identity),
        (R(r"BTreeMap::<u64, loader::FunctionEntry>::new$"), m_map_new),
        (R(r"BTreeMap::<u64, loader::FunctionEntry>::insert$"), m_map_insert),
        (R(r"BTreeMap::<u64, loader::FunctionEntry>::contains_key::<u64>$"), m_contains),
        (R(r"BTreeMap::<u64, loader::FunctionEntry>::entry$"), m_entry),
        (R(r"Entry::<'_, u64, loader::FunctionEntry>::or_insert_with::<"), m_or_insert_with),
        (R(r"BTreeMap::<u64, loader::FunctionEntry>::into_values$"), m_into_values),
        (R(r"<&Vec<u64> as IntoIterator>::into_iter$"), m_slice_iter),
        (R(r"goblin::elf::Elf::<'_>::parse$"), m_parse),
        (R(r"goblin::elf::Header::endianness$"), m_endianness),
        (R(r"Result::<goblin::elf::Elf<'_>, goblin::error::Error>::map_err::<"), m_map_err),
    ]


class Interp19(I.Interp):
    def const(self, text, ty_hint=None):
        t = text.strip()
        if t in GABI:
            v, w = GABI[t]; return z3.BitVecVal(v, w)
        if t.startswith("goblin::elf::reloc::") and t.split("::")[-1] in R386:
            return z3.BitVecVal(R386[t.split("::")[-1]], 32)
        m = re.match(r"^memory::MemoryPermissions::(\w+)$", t)
        if m:
            cands = [n for n in self.prog.raw if n.startswith("const memory::<impl at") and n.endswith(">::" + m.group(1))]
            cands = [n for n in cands if n.count("<impl at") == 1]          # the associated constant itself, not helper impls nested in it
            if len(cands) == 1:
                return self.call(cands[0], [])
            raise I.Unsupported("MemoryPermissions constant not found: " + t)
        return super().const(text, ty_hint)


def interp(prog, h):
    it = Interp19(prog, W=64, models=models_for(h) + K.CONTAINER_MODELS + PC.MODELS + M.MODELS, timeout_ms=20000)
    return it


# ------------------------------------------------------------------ A: memory --

def check_memory(item):
    prog, _ = program()
    fn = find(prog, r"^loader::elf::elf::<impl at lib/loader/elf/elf\.rs:\d+:1: \d+:20>::memory$")
    npre = item["npre"]
    h = Harness(prog, nph=1, pre_layers=npre)
    p = h.ph[0]
    # gABI well-formedness of one program header inside a file of file_len bytes, rebased without wrap-around
    wf = z3.And(z3.ULE(h.flen, bv(MAXLEN)), z3.ULE(p["p_offset"], h.flen), z3.ULE(p["p_filesz"], h.flen - p["p_offset"]), z3.ULE(p["p_filesz"], p["p_memsz"]), z3.ULE(p["p_memsz"], bv(MAXLEN)),
                z3.ULT(p["p_vaddr"], bv(1 << 62)), z3.ULT(h.base, bv(1 << 62)),
                *[z3.And(z3.ULT(a, bv(1 << 62)), z3.ULE(n, bv(MAXLEN))) for a, n, _, _, _ in h.pre.layers])
    out = {"what": f"Elf::memory step, {npre} earlier region(s)", "paths": 0, "unsat": 0, "findings": [], "undecided": [], "solver_s": 0.0, "fn": fn, "calls": set(), "validated": 0, "validation_failures": []}
    q = z3.BitVec("q", 64)
    start = p["p_vaddr"] + h.base
    inreg = z3.And(z3.ULE(start, q), z3.ULT(q - start, p["p_memsz"]))
    j = q - start
    is_load = p["p_type"] == bv(1, 32)
    exp_perm = (z3.If(p["p_flags"] & 4 != 0, bv(1, 32), bv(0, 32)) | z3.If(p["p_flags"] & 2 != 0, bv(2, 32), bv(0, 32)) | z3.If(p["p_flags"] & 1 != 0, bv(4, 32), bv(0, 32)))
    hit = z3.And(is_load, inreg)
    exp_mapped = z3.Or(hit, h.pre.mapped(q))
    exp_byte = z3.If(hit, z3.If(z3.ULT(j, p["p_filesz"]), z3.Select(h.farr, p["p_offset"] + j), bv(0, 8)), h.pre.byte(q))
    exp_p = z3.If(hit, exp_perm, h.pre.perm(q))

    def mk(it):
        it.solver.add(wf); it.pc.append(wf)
        return [I.ValRef(h.elf_self())]
    it = interp(prog, h)
    for r in I.explore(it, fn, mk, max_paths=600):
        out["paths"] += 1; out["calls"] |= set(r["calls"])
        pc = r["pc"]
        if r["outcome"] == "unsupported":
            out["undecided"].append("unsupported: " + r["msg"][:200]); continue
        if r["outcome"] == "panic":
            v, m, dt = solve.check(pc, 30000); out["solver_s"] += dt
            if v == solve.SAT: out["findings"].append({"kind": "panic on a well-formed header", "detail": r["msg"][:120], "model": model_of(m, h)})
            elif v == solve.UNDECIDED: out["undecided"].append("panic feasibility")
            else: out["unsat"] += 1
            continue
        res = val(r["value"])
        if res.variant != 0:
            v, m, dt = solve.check(pc, 30000); out["solver_s"] += dt
            if v == solve.SAT: out["findings"].append({"kind": "error on a well-formed header", "detail": "memory() returns Err", "model": model_of(m, h)})
            elif v == solve.UNDECIDED: out["undecided"].append("error feasibility")
            else: out["unsat"] += 1
            continue
        mem = val(res.fields[0])
        diff = z3.Or(mem.mapped(q) != exp_mapped, z3.And(exp_mapped, z3.Or(mem.byte(q) != exp_byte, mem.perm(q) != exp_p)))
        v, m, dt = solve.check(pc + [diff], 60000); out["solver_s"] += dt
        if v == solve.SAT:
            qv = solve.model_val(m, q)
            what = "mapped" if z3.is_true(m.eval(mem.mapped(q) != exp_mapped, model_completion=True)) else ("byte" if z3.is_true(m.eval(mem.byte(q) != exp_byte, model_completion=True)) else "permissions")
            out["findings"].append({"kind": f"image differs ({what})", "detail": f"at q={qv:#x}: mapped {m.eval(mem.mapped(q), model_completion=True)} (expected {m.eval(exp_mapped, model_completion=True)}), byte {m.eval(mem.byte(q), model_completion=True)} (expected {m.eval(exp_byte, model_completion=True)}), perm {m.eval(mem.perm(q), model_completion=True)} (expected {m.eval(exp_p, model_completion=True)})", "model": dict(model_of(m, h), q=qv)})
            if npre == 0:
                # replay before reporting: the same difference for a header small enough to be written into a real file
                small = [z3.ULE(p["p_offset"], bv(700)), z3.ULE(p["p_filesz"], bv(96)), z3.ULE(p["p_memsz"], bv(160)), z3.ULT(p["p_vaddr"], bv(1 << 40)), z3.ULT(h.base, bv(1 << 40)),
                         z3.ULE(p["p_align"], bv(1 << 16)), z3.ULT(p["p_paddr"], bv(1 << 40)), h.flen == bv(1024)]
                v2, m2, dt2 = solve.check(pc + [diff] + small, 30000); out["solver_s"] += dt2
                if v2 == solve.SAT:
                    mv = model_of(m2, h)
                    ok, detail = validate_memory(mv, 64, big=False, seed=1)
                    out["findings"][-1]["replay"] = "not reproduced" if ok else "confirmed"
                    if not ok: out["findings"][-1]["detail"] += "; " + detail[:200]; out["findings"][-1]["model"] = mv
                else:
                    out["findings"][-1]["replay"] = "not realisable as a small generated file"
        elif v == solve.UNDECIDED: out["undecided"].append("image query")
        else: out["unsat"] += 1
        # validation of the stubs: a solver-chosen header on this path, written into a real ELF file and loaded by the real code
        if npre == 0 and out["validated"] + len(out["validation_failures"]) < VALIDATE_CAP:
            k = out["validated"] + len(out["validation_failures"])
            cls = 64 if k % 2 == 0 else 32
            lim = bv(1 << 40) if cls == 64 else bv(1 << 30)
            small = [z3.UGE(p["p_offset"], bv(0)), z3.ULE(p["p_offset"], bv(700)), z3.ULE(p["p_filesz"], bv(96)), z3.ULE(p["p_memsz"], bv(160)), z3.ULT(p["p_vaddr"], lim), z3.ULT(h.base, lim),
                     z3.ULE(p["p_align"], bv(1 << 16)), z3.ULT(p["p_paddr"], lim), h.flen == bv(1024)]
            v, m, dt = solve.check(pc + small, 20000); out["solver_s"] += dt
            if v == solve.SAT:
                mv = model_of(m, h)
                ok, detail = validate_memory(mv, cls, big=(k % 4 >= 2), seed=k)
                if ok: out["validated"] += 1
                else: out["validation_failures"].append({"model": mv, "detail": detail})
    out["calls"] = sorted(out["calls"])
    return out


VALIDATE_CAP = 24


def validate_memory(mv, cls, big, seed):
    from smt import drv
    from gen import elfgen
    ph = mv["ph0"]
    mach = {(64, False): 62, (64, True): 183, (32, False): 3, (32, True): 8}[(cls, big)]
    data = elfgen.build(cls, big, mach, entry=0, phdrs=[ph], symbols=[], min_len=1024, seed=seed)
    r = drv.call({"cmd": "elf", "bytes": data.hex(), "base": mv["base"]})
    if not r.get("ok") or isinstance(r.get("memory"), dict):
        return False, f"real loader fails: {str(r)[:200]}"
    want = {}
    if ph["p_type"] == 1:
        seg = data[ph["p_offset"]:ph["p_offset"] + ph["p_filesz"]] + bytes(ph["p_memsz"] - ph["p_filesz"])
        perm = (1 if ph["p_flags"] & 4 else 0) | (2 if ph["p_flags"] & 2 else 0) | (4 if ph["p_flags"] & 1 else 0)
        for j, b in enumerate(seg):
            want[ph["p_vaddr"] + mv["base"] + j] = (b, perm)
    got = {}
    for a, hx, pm in r["memory"]:
        for j, b in enumerate(bytes.fromhex(hx)):
            got[a + j] = (b, pm)
    if got != want:
        return False, f"real image {sorted(got.items())[:6]}... expected {sorted(want.items())[:6]}..."
    return True, ""


def model_of(m, h):
    d = {"base": solve.model_val(m, h.base), "file_len": solve.model_val(m, h.flen)}
    for i, p in enumerate(h.ph):
        d[f"ph{i}"] = {k: solve.model_val(m, v) for k, v in p.items()}
    for nm, lst in (("dyn", h.dyn), ("sym", h.sym), ("plt", h.plt)):
        for i, s in enumerate(lst):
            d[f"{nm}{i}"] = {k: solve.model_val(m, v) for k, v in s.items()}
    for i, u in enumerate(h.user): d[f"user{i}"] = solve.model_val(m, u)
    d["e_entry"] = solve.model_val(m, h.e_entry); d["e_machine"] = solve.model_val(m, h.e_machine)
    return d


# ---------------------------------------------------- B: symbols and entries --

def defined_fn(s): return z3.And((s["st_info"] & bv(0xf, 8)) == bv(2, 8), s["st_value"] != 0, z3.UGT(s["st_shndx"], bv(0)))


def check_entries(item):
    prog, _ = program()
    what = item["fn"]
    pats = {"function_entries": r"elf\.rs:\d+:1: \d+:20>::function_entries$", "program_entry": r"elf\.rs:\d+:1: \d+:20>::program_entry$",
            "symbols": r"elf\.rs:\d+:1: \d+:9>::symbols$", "exported_symbols": r"elf\.rs:\d+:1: \d+:9>::exported_symbols$"}
    fn = find(prog, r"^loader::elf::elf::<impl at lib/loader/elf/" + pats[what])
    h = Harness(prog, ndyn=item["ndyn"], nsym=item["nsym"], nplt=item.get("nplt", 0), nuser=item.get("nuser", 0))
    nowrap = [z3.ULT(h.base, bv(1 << 62)), z3.ULT(h.e_entry, bv(1 << 62))] + [z3.ULT(s["st_value"], bv(1 << 62)) for s in h.dyn + h.sym] + [z3.ULT(u, bv(1 << 62)) for u in h.user] + \
             [z3.ULT(p["r_offset"], bv(1 << 62)) for p in h.plt]
    wf = z3.And(*nowrap)
    out = {"what": f"Elf::{what} dyn={item['ndyn']} sym={item['nsym']} plt={item.get('nplt', 0)} user={item.get('nuser', 0)}", "paths": 0, "unsat": 0, "findings": [], "undecided": [], "solver_s": 0.0, "fn": fn, "calls": set(), "validated": 0, "validation_failures": []}

    def mk(it):
        it.solver.add(wf); it.pc.append(wf)
        return [I.ValRef(h.elf_self())]
    it = interp(prog, h)

    def ask(pc, bad, kind, detail):
        v, m, dt = solve.check(pc + [bad], 30000); out["solver_s"] += dt
        if v == solve.SAT:
            f = {"kind": kind, "detail": detail(m), "model": model_of(m, h), "replay": "not realisable as a generated file"}
            # replay before reporting: the same violation on a parse result that a real file produces, run through the real loader
            v2, m2, dt2 = solve.check(pc + [bad] + file_realisable(h), 30000); out["solver_s"] += dt2
            if v2 == solve.SAT:
                mv = model_of(m2, h)
                real = run_real(mv, h)
                if not real.get("ok"):
                    f["replay"] = "real loader rejects the generated file: " + str(real)[:160]
                else:
                    kinds = concrete_oracle(what, mv, h, real)
                    f["model"] = mv; f["detail"] = detail(m2) + f"; real {what} = {str(real_result(what, real))[:200]}"
                    f["replay"] = "confirmed" if (kind in kinds or (kind in ("panic", "error") and kinds)) else "not reproduced"
            out["findings"].append(f)
        elif v == solve.UNDECIDED: out["undecided"].append(kind)
        else: out["unsat"] += 1

    def validate(pc, res):
        # every 7th path: a solver-chosen file for this path through the real loader; the symbolic result must agree
        out["vcount"] = out.get("vcount", 0) + 1
        if out["vcount"] % 7 != 1 or out["validated"] + len(out["validation_failures"]) >= 12: return
        v, m, dt = solve.check(pc + file_realisable(h), 20000); out["solver_s"] += dt
        if v != solve.SAT: return
        mv = model_of(m, h)
        real = run_real(mv, h)
        if not real.get("ok"):
            out["validation_failures"].append({"model": mv, "detail": f"real loader fails: {str(real)[:200]}"}); return
        exp = expected_from_run(what, m, res, h); got = real_result(what, real)
        if exp == got: out["validated"] += 1
        else: out["validation_failures"].append({"model": mv, "detail": f"real {what} = {str(got)[:200]}, symbolic run says {str(exp)[:200]}"})
    for r in I.explore(it, fn, mk, max_paths=3000):
        out["paths"] += 1; out["calls"] |= set(r["calls"])
        pc = r["pc"]
        if r["outcome"] == "unsupported":
            out["undecided"].append("unsupported: " + r["msg"][:200]); continue
        if r["outcome"] == "panic":
            ask(pc, z3.BoolVal(True), "panic", lambda m: r["msg"][:120]); continue
        res = val(r["value"])
        if what == "program_entry":
            validate(pc, r["value"])
            ask(pc, res != h.e_entry + h.base, "program entry not rebased", lambda m: f"program_entry() = {solve.model_val(m, res):#x}, e_entry = {solve.model_val(m, h.e_entry):#x}, base = {solve.model_val(m, h.base):#x}")
            continue
        if what == "function_entries":
            if res.variant != 0:
                ask(pc, z3.BoolVal(True), "error", lambda m: "function_entries() returns Err"); continue
            ents = [val(x) for x in val(res.fields[0]).items]
            addrs = [val(e.fields[0]) for e in ents]            # FunctionEntry { address, name }
            sources = [(defined_fn(s), s["st_value"]) for s in h.dyn + h.sym] + [(z3.BoolVal(True), h.e_entry)] + [(z3.BoolVal(True), u) for u in h.user]
            # every source appears rebased by exactly base ...
            missing = z3.Or(*[z3.And(c, z3.Not(z3.Or(*[a == v + h.base for a in addrs]) if addrs else z3.BoolVal(False))) for c, v in sources])
            ask(pc, missing, "function entry missing or not rebased by base", lambda m: f"entries {[hex(solve.model_val(m, a)) for a in addrs]} base {solve.model_val(m, h.base):#x}")
            # ... and nothing else is reported
            extra = z3.Or(*[z3.Not(z3.Or(*[z3.And(c, a == v + h.base) for c, v in sources])) for a in addrs]) if addrs else z3.BoolVal(False)
            ask(pc, extra, "function entry that is no defined function symbol, program entry or user entry", lambda m: f"entries {[hex(solve.model_val(m, a)) for a in addrs]} base {solve.model_val(m, h.base):#x}")
            dup = z3.Or(*[addrs[i] == addrs[k] for i in range(len(addrs)) for k in range(i + 1, len(addrs))]) if len(addrs) > 1 else z3.BoolVal(False)
            ask(pc, dup, "address reported twice", lambda m: f"entries {[hex(solve.model_val(m, a)) for a in addrs]}")
            validate(pc, r["value"])
            continue
        # symbols / exported_symbols: Vec<Symbol { name, address }>
        syms = [val(x) for x in val(res).items]
        addrs = [val(s.fields[0]) for s in syms]            # Symbol { address, name }
        validate(pc, r["value"])
        if what == "symbols":
            sources = [(s["st_value"] != 0, s["st_value"]) for s in h.dyn + h.sym]
            for pi, p in enumerate(h.plt):
                insym = z3.Or(*[p["r_sym"] == bv(k) for k in range(len(h.dyn))]) if h.dyn else z3.BoolVal(False)
                sources.append((insym, p["r_offset"]))
        else:
            sources = [(z3.And(s["st_value"] != 0, s["st_shndx"] != 0, z3.Or(z3.LShR(s["st_info"], bv(4, 8)) == 1, z3.LShR(s["st_info"], bv(4, 8)) == 2)), s["st_value"]) for s in h.dyn]
        missing = z3.Or(*[z3.And(c, z3.Not(z3.Or(*[a == v + h.base for a in addrs]) if addrs else z3.BoolVal(False))) for c, v in sources]) if sources else z3.BoolVal(False)
        ask(pc, missing, "symbol missing or not rebased by base", lambda m: f"symbol addresses {[hex(solve.model_val(m, a)) for a in addrs]} base {solve.model_val(m, h.base):#x}")
        extra = z3.Or(*[z3.Not(z3.Or(*[z3.And(c, a == v + h.base) for c, v in sources]) if sources else z3.BoolVal(False)) for a in addrs]) if addrs else z3.BoolVal(False)
        ask(pc, extra, "symbol address that is not (file value + base)", lambda m: f"symbol addresses {[hex(solve.model_val(m, a)) for a in addrs]} base {solve.model_val(m, h.base):#x}")
    out["calls"] = sorted(out["calls"])
    return out


def file_realisable(h):
    """constraints under which a parse result is one that a (generated) ELF64 file produces: 16-bit section indices, the
    dynamic symbol table at least as long as the largest relocation symbol index (goblin sizes it that way)"""
    lim = bv(1 << 40)
    c = [z3.ULT(h.base, lim), z3.ULT(h.e_entry, lim)] + [z3.ULT(u, lim) for u in h.user]
    for s_ in h.dyn + h.sym:
        c += [z3.ULT(s_["st_value"], lim), z3.ULT(s_["st_shndx"], bv(0xff00)), z3.ULT(s_["st_size"], lim)]
    for p in h.plt:
        c += [z3.ULT(p["r_offset"], lim), z3.ULT(p["r_sym"], bv(max(1, len(h.dyn)))), z3.ULT(p["r_type"], bv(256, 32))]
    return c


def run_real(mv, h):
    """build an ELF64 file with exactly the model's symbols/relocations and push it through the real loader"""
    from smt import drv
    from gen import elfgen
    syms = [dict(mv[f"sym{i}"], st_name=f"s{i}") for i in range(len(h.sym))]
    dyns = [dict(mv[f"dyn{i}"], st_name=f"d{i}") for i in range(len(h.dyn))]
    plts = [mv[f"plt{i}"] for i in range(len(h.plt))]
    data = elfgen.build(64, False, 62, entry=mv["e_entry"], phdrs=[], symbols=syms, min_len=256,
                        dynsyms=dyns if (dyns or plts) else None, pltrels=plts)
    return drv.call({"cmd": "elf", "bytes": data.hex(), "base": mv["base"], "user_entries": [mv[f"user{i}"] for i in range(len(h.user))]})


def concrete_oracle(what, mv, h, real):
    """the property's statement evaluated on the real loader's output for the concrete file; returns the violated kinds"""
    M64 = 2**64 - 1
    base = mv["base"]
    bad = []
    dyn = [mv[f"dyn{i}"] for i in range(len(h.dyn))]; sym = [mv[f"sym{i}"] for i in range(len(h.sym))]
    if what == "program_entry":
        if real["program_entry"] != (mv["e_entry"] + base) & M64: bad.append("program entry not rebased")
        return bad
    if what == "function_entries":
        if isinstance(real["function_entries"], dict): return ["error"]
        got = [a for a, _ in real["function_entries"]]
        want = {(s_["st_value"] + base) & M64 for s_ in dyn + sym if (s_["st_info"] & 0xf) == 2 and s_["st_value"] != 0 and s_["st_shndx"] > 0}
        want |= {(mv["e_entry"] + base) & M64} | {(mv[f"user{i}"] + base) & M64 for i in range(len(h.user))}
        if want - set(got): bad.append("function entry missing or not rebased by base")
        if set(got) - want: bad.append("function entry that is no defined function symbol, program entry or user entry")
        if len(got) != len(set(got)): bad.append("address reported twice")
        return bad
    got = {a for a, _ in real["symbols" if what == "symbols" else "exported_symbols"]}
    if what == "symbols":
        want = {(s_["st_value"] + base) & M64 for s_ in dyn + sym if s_["st_value"] != 0}
        want |= {(mv[f"plt{i}"]["r_offset"] + base) & M64 for i in range(len(h.plt)) if mv[f"plt{i}"]["r_sym"] < len(dyn)}
    else:
        want = {(s_["st_value"] + base) & M64 for s_ in dyn if s_["st_value"] != 0 and s_["st_shndx"] != 0 and (s_["st_info"] >> 4) in (1, 2)}
    if want - got: bad.append("symbol missing or not rebased by base")
    if got - want: bad.append("symbol address that is not (file value + base)")
    return bad


def expected_from_run(what, m, res, h):
    """what the symbolic run says the function returns under model m (a sorted address list, or the entry)"""
    if what == "program_entry": return solve.model_val(m, val(res))
    if what == "function_entries":
        r_ = val(res)
        if r_.variant != 0: return "error"
        return sorted(solve.model_val(m, val(val(x).fields[0])) for x in val(r_.fields[0]).items)
    return sorted(set(solve.model_val(m, val(val(x).fields[0])) for x in val(res).items))


def real_result(what, real):
    if what == "program_entry": return real["program_entry"]
    if what == "function_entries":
        return "error" if isinstance(real["function_entries"], dict) else sorted(a for a, _ in real["function_entries"])
    return sorted(set(a for a, _ in real["symbols" if what == "symbols" else "exported_symbols"]))


# -------------------------------------------------------------- C: Elf::new --

def check_new(item):
    prog, _ = program()
    fn = find(prog, r"^loader::elf::elf::<impl at lib/loader/elf/elf\.rs:\d+:1: \d+:9>::new$")
    h = Harness(prog)
    out = {"what": "Elf::new architecture selection", "paths": 0, "unsat": 0, "findings": [], "undecided": [], "solver_s": 0.0, "fn": fn, "calls": set(), "validated": 0, "validation_failures": []}
    want = {3: ("X86", None), 62: ("Amd64", None), 8: ("Mips", "Mipsel"), 20: ("Ppc", None), 183: ("AArch64Eb", "AArch64")}     # (big or only, little)

    def mk(it):
        return [K.ByteVec(h.flen, h.farr), h.base]
    it = interp(prog, h)
    for r in I.explore(it, fn, mk, max_paths=400):
        out["paths"] += 1; out["calls"] |= set(r["calls"])
        pc = r["pc"]
        if r["outcome"] == "unsupported":
            out["undecided"].append("unsupported: " + r["msg"][:200]); continue
        if r["outcome"] == "panic":
            v, m, dt = solve.check(pc, 30000); out["solver_s"] += dt
            if v == solve.SAT: out["findings"].append({"kind": "panic", "detail": r["msg"][:120], "model": model_of(m, h)})
            else: out["unsat"] += 1
            continue
        res = val(r["value"])
        if res.variant != 0:
            # an error is right when parsing failed, endianness is unknown, the machine is not supported, or PPC little-endian
            supported = z3.And(h.parse_ok, z3.Or(h.e_machine == 3, h.e_machine == 62, z3.And(h.endianness_ok, z3.Or(h.e_machine == 8, h.e_machine == 183, z3.And(h.e_machine == 20, h.endian_big)))))
            v, m, dt = solve.check(pc + [supported], 30000); out["solver_s"] += dt
            if v == solve.SAT: out["findings"].append({"kind": "supported machine rejected", "detail": f"e_machine={solve.model_val(m, h.e_machine)} big={m.eval(h.endian_big, model_completion=True)}", "model": model_of(m, h)})
            else: out["unsat"] += 1
            continue
        elf = val(res.fields[0])
        arch = val(elf.fields[3])
        while hasattr(arch, "get") or (isinstance(arch, I.Agg) and arch.name in ("Box", "Unique", "NonNull")):
            arch = val(arch.fields[0]) if isinstance(arch, I.Agg) else val(arch)
        name = getattr(arch, "name", None)
        if name is None:
            mm = re.search(r"architecture::(\w+)", getattr(arch, "what", ""))        # unit-struct constant
            name = mm.group(1) if mm else repr(arch)
        ok = z3.Or(*[z3.And(h.e_machine == k, z3.BoolVal(name == big) if little is None else z3.If(h.endian_big, z3.BoolVal(name == big), z3.BoolVal(name == little))) for k, (big, little) in want.items()])
        base_ok = val(elf.fields[0]) == h.base
        v, m, dt = solve.check(pc + [z3.Not(z3.And(ok, base_ok))], 30000); out["solver_s"] += dt
        if v == solve.SAT: out["findings"].append({"kind": "wrong architecture object", "detail": f"e_machine={solve.model_val(m, h.e_machine)} big={m.eval(h.endian_big, model_completion=True)} -> {name}", "model": model_of(m, h)})
        elif v == solve.UNDECIDED: out["undecided"].append("arch query")
        else: out["unsat"] += 1
        v, m, dt = solve.check(pc, 20000); out["solver_s"] += dt
        if v == solve.SAT:
            from smt import drv
            from gen import elfgen
            mach = solve.model_val(m, h.e_machine); big = bool(z3.is_true(m.eval(h.endian_big, model_completion=True)))
            cls = 64 if mach in (62, 183) else 32
            if mach in (3, 62): big = False
            r = drv.call({"cmd": "elf", "bytes": elfgen.build(cls, big, mach, entry=0x1000, phdrs=[], symbols=[], min_len=128).hex(), "base": 0})
            names = {"X86": "x86", "Amd64": "amd64", "Mips": "mips", "Mipsel": "mipsel", "Ppc": "ppc", "AArch64": "aarch64", "AArch64Eb": "aarch64eb"}
            if r.get("ok") and r.get("arch") == names.get(name):
                out["validated"] += 1
            else:
                out["validation_failures"].append({"detail": f"e_machine={mach} big={big}: symbolic run says {name}, real loader says {str(r)[:120]}"})
    out["calls"] = sorted(out["calls"])
    return out


# ------------------------------------------------ D: ElfLinker (one object) --

class LinkMem:
    """ElfLinker.memory seen through the contract of C16: a log of 32-bit writes over an arbitrary initial content."""
    def __init__(self):
        self.writes = []          # (addr, value32)
        self.old = z3.Array("linkmem0", z3.BitVecSort(64), z3.BitVecSort(32))
        self.mapped = z3.Array("linkmapped", z3.BitVecSort(64), z3.BoolSort())


def linker_models(h, lm, loaded_key="main"):
    def m_from_file(it, c, a):
        e = h.elf_self(); e.fields[0] = val(a[1]); h.loaded_base = val(a[1])
        return I.Agg("enum", "Result", [e], 0)
    def m_set32(it, c, a):
        lm.writes.append((val(a[1]), val(a[2]))); return I.Agg("enum", "Result", [None], 0)
    def m_get32(it, c, a):
        ad = val(a[1])
        for wa, wv in reversed(lm.writes):
            if it.branch(wa == ad): return M.some(wv)
        if it.branch(z3.Select(lm.mapped, ad)): return M.some(z3.Select(lm.old, ad))
        return M.none()
    return [
        (R(r"Option::<Vec<PathBuf>>::as_ref$"), lambda it, c, a: (M.some(I.ValRef(val(a[0]).fields[0])) if val(a[0]).variant == 1 else M.none())),
        (R(r"Option::<PathBuf>::unwrap_or_else::<"), lambda it, c, a: (val(a[0]).fields[0] if val(a[0]).variant == 1 else I.Opaque("path"))),
        (R(r"loader::elf::elf::Elf::from_file_with_base_address::<"), m_from_file),
        (R(r"as loader::Loader>::memory$"), lambda it, c, a: I.Agg("enum", "Result", [I.Agg("struct", "Memory", [None, PC.PMap()])], 0)),
        (R(r"backing::Memory::sections$"), lambda it, c, a: I.ValRef(val(a[0]).fields[1])),
        (R(r"Path::file_name$"), lambda it, c, a: M.some(loaded_key)),
        (R(r"OsStr::to_str$"), lambda it, c, a: M.some(val(a[0]))),
        (R(r"Path::new::<"), lambda it, c, a: I.Opaque("path")),
        (R(r"<std::string::String as Deref>::deref$|<String as Deref>::deref$|<std::string::String as Clone>::clone$|<String as Clone>::clone$|<u64 as ToOwned>::to_owned$"), lambda it, c, a: val(a[0])),
        (R(r"loader::elf::elf::Elf::dt_needed$"), lambda it, c, a: I.Agg("enum", "Result", [PC.PVec()], 0)),
        (R(r"backing::Memory::set32$"), m_set32),
        (R(r"backing::Memory::get32$"), m_get32),
        (R(r"<Level as PartialOrd<LevelFilter>>::le$"), lambda it, c, a: z3.BoolVal(False)),          # logging disabled
        (R(r"^max_level$|log::max_level$"), lambda it, c, a: I.Opaque("level")),
        (R(r"Option::<goblin::elf::Sym>::expect$"), M.m_unwrap),
    ]


def linker_self(h, symbols=None, loaded=None, do_reloc=False):
    return I.Agg("struct", "ElfLinker", [I.Opaque("filename"), PC.PMap(loaded or {}), I.Agg("struct", "Memory", [None, PC.PMap()]), PC.PMap(symbols or {}),
                                         bv(0x80000000), PC.PVec(), z3.BoolVal(do_reloc), z3.BoolVal(False), M.none()])


def concrete_names(h):
    """symbol names are outside the claim: give every symbol a distinct, concrete string-table index"""
    for i, s_ in enumerate(h.dyn): s_["st_name"] = bv(i + 1)
    for i, s_ in enumerate(h.sym): s_["st_name"] = bv(i + 1)


def check_linker_load(item):
    """ElfLinker::load_elf of one object without dependencies and relocations: every exported symbol is entered into the
    linker's symbol table at (file value + base), i.e. rebased once."""
    prog, _ = program()
    fn = find(prog, r"^elf_linker::<impl at lib/loader/elf/elf_linker\.rs:\d+:1: \d+:\d+>::load_elf$")
    h = Harness(prog, ndyn=item["ndyn"])
    concrete_names(h)
    lm = LinkMem()
    out = {"what": f"ElfLinker::load_elf dyn={item['ndyn']}", "paths": 0, "unsat": 0, "findings": [], "undecided": [], "solver_s": 0.0, "fn": fn, "calls": set()}
    nowrap = z3.And(z3.ULT(h.base, bv(1 << 62)), *[z3.ULT(s_["st_value"], bv(1 << 62)) for s_ in h.dyn])
    holder = {}

    def mk(it):
        it.solver.add(nowrap); it.pc.append(nowrap)
        ls = linker_self(h); holder["self"] = ls
        return [I.ValRef(ls), I.Opaque("path arg"), h.base]
    it = Interp19(prog, W=64, models=linker_models(h, lm) + models_for(h) + PC.MODELS + K.CONTAINER_MODELS + M.MODELS, timeout_ms=20000)
    seen = set()
    for r in I.explore(it, fn, mk, max_paths=2000):
        out["paths"] += 1; out["calls"] |= set(r["calls"])
        pc = r["pc"]
        if r["outcome"] == "unsupported":
            out["undecided"].append("unsupported: " + r["msg"][:200]); continue
        if r["outcome"] == "panic":
            v, m, dt = solve.check(pc, 20000); out["solver_s"] += dt
            if v == solve.SAT and "panic" not in seen:
                seen.add("panic"); out["findings"].append({"kind": "panic", "detail": r["msg"][:120], "model": model_of(m, h)})
            continue
        res = val(r["value"])
        if res.variant != 0:
            v, m, dt = solve.check(pc, 20000); out["solver_s"] += dt
            if v == solve.SAT and "err" not in seen:
                seen.add("err"); out["findings"].append({"kind": "error", "detail": "load_elf returns Err for an object without dependencies", "model": model_of(m, h)})
            continue
        symtab = val(holder["self"].fields[3])
        claims = []
        for s_ in h.dyn:
            exported = z3.And(s_["st_value"] != 0, s_["st_shndx"] != 0, z3.Or(z3.LShR(s_["st_info"], bv(4, 8)) == 1, z3.LShR(s_["st_info"], bv(4, 8)) == 2))
            k = ("name", "dynstrtab", z3.simplify(s_["st_name"]).as_long())
            present = k in symtab.d
            claims.append(("exported symbol missing from the linker's symbol table (or a non-exported one entered)", exported == z3.BoolVal(present)))
            if present:
                claims.append(("exported symbol is not entered at (file value + base): rebased twice or not at all", z3.Implies(exported, val(symtab.d[k][1]) == s_["st_value"] + h.base)))
        bad = z3.Or(*[z3.Not(c_) for _, c_ in claims]) if claims else z3.BoolVal(False)
        v, m, dt = solve.check(pc + [bad], 30000); out["solver_s"] += dt
        if v == solve.SAT:
            for kind, c_ in claims:
                if z3.is_false(m.eval(c_, model_completion=True)) and kind not in seen:
                    seen.add(kind)
                    got = {str(k_): solve.model_val(m, val(cell)) for k_, (cnd, cell) in symtab.d.items()}
                    out["findings"].append({"kind": kind, "detail": f"symbol table {got}", "model": model_of(m, h)}); break
        elif v == solve.UNDECIDED: out["undecided"].append("linker claims")
        else: out["unsat"] += len(claims)
    out["calls"] = sorted(out["calls"])
    return out


def check_linker_reloc(item):
    """ElfLinker::relocations_x86 with one relocation of symbolic type: the relocated word at (r_offset + base) holds the
    address the linker's symbol table gives for the symbol it names (R_386_32 / GLOB_DAT / JMP_SLOT) or old word + base (RELATIVE)."""
    prog, _ = program()
    fn = find(prog, r"^elf_linker::<impl at lib/loader/elf/elf_linker\.rs:\d+:1: \d+:\d+>::relocations_x86$")
    h = Harness(prog, ndyn=1, nplt=1)
    concrete_names(h)
    lm = LinkMem()
    symaddr = z3.BitVec("linker_symbol_address", 64)
    have = item["resolvable"]
    out = {"what": f"ElfLinker::relocations_x86 symbol {'in' if have else 'not in'} the symbol table", "paths": 0, "unsat": 0, "findings": [], "undecided": [], "solver_s": 0.0, "fn": fn, "calls": set()}
    p = h.plt[0]
    # 32-bit image: base, offsets and the relocated value stay inside the 32-bit address space (no wrap-around)
    nowrap = z3.And(z3.ULT(h.base, bv(1 << 31)), z3.ULT(p["r_offset"], bv(1 << 31)), z3.ULT(symaddr, bv(1 << 32)),
                    z3.ULT(z3.ZeroExt(32, z3.Select(lm.old, p["r_offset"] + h.base)) + h.base, bv(1 << 32)))

    def mk(it):
        it.solver.add(nowrap); it.pc.append(nowrap)
        lm.writes.clear()
        e = h.elf_self()
        syms = {("name", "dynstrtab", 1): symaddr} if have else {}
        ls = linker_self(h, symbols=syms, loaded={"main": e}, do_reloc=True)
        return [I.ValRef(ls), "main"]
    it = Interp19(prog, W=64, models=linker_models(h, lm) + models_for(h) + PC.MODELS + K.CONTAINER_MODELS + M.MODELS, timeout_ms=20000)
    seen = set()
    T32 = lambda x: z3.Extract(31, 0, x)
    for r in I.explore(it, fn, mk, max_paths=2000):
        out["paths"] += 1; out["calls"] |= set(r["calls"])
        pc = r["pc"]
        if r["outcome"] == "unsupported":
            out["undecided"].append("unsupported: " + r["msg"][:200]); continue
        rt = p["r_type"]; named = p["r_sym"] == bv(0)
        symbolic_types = z3.Or(rt == 1, rt == 6, rt == 7)
        if r["outcome"] == "panic":
            # the only documented panic: the relocation names a symbol index that does not exist
            v, m, dt = solve.check(pc + [z3.Not(z3.And(z3.Or(symbolic_types, rt == 2, rt == 4), z3.Not(named)))], 20000); out["solver_s"] += dt
            if v == solve.SAT and "panic" not in seen:
                seen.add("panic"); out["findings"].append({"kind": "panic", "detail": r["msg"][:120], "model": model_of(m, h)})
            else: out["unsat"] += 1
            continue
        res = val(r["value"])
        target = p["r_offset"] + h.base
        writes = list(lm.writes)
        if res.variant != 0:
            # errors are acceptable for unresolvable symbols and for relocation types falcon does not implement; never for a resolvable 32/GLOB_DAT/JMP_SLOT/RELATIVE
            must_work = z3.Or(z3.And(symbolic_types, named, z3.BoolVal(have)), z3.And(rt == 8, z3.Select(lm.mapped, target)))
            v, m, dt = solve.check(pc + [must_work], 20000); out["solver_s"] += dt
            if v == solve.SAT and "err" not in seen:
                seen.add("err"); out["findings"].append({"kind": "relocation fails although it is resolvable", "detail": f"r_type={solve.model_val(m, rt)}", "model": model_of(m, h)})
            elif v == solve.UNSAT: out["unsat"] += 1
            continue
        claims = []
        if not writes:
            claims.append(("a resolvable relocation writes nothing", z3.Not(z3.Or(z3.And(symbolic_types, named, z3.BoolVal(have)), rt == 8))))
        for wa, wv in writes:
            claims.append(("relocation writes at an address other than r_offset + base", wa == target))
            claims.append(("relocated word is not the address the symbol table gives for the named symbol (resp. old word + base)",
                           z3.If(rt == 8, wv == T32(h.base) + z3.Select(lm.old, target), z3.And(symbolic_types, wv == T32(symaddr)))))
        bad = z3.Or(*[z3.Not(c_) for _, c_ in claims]) if claims else z3.BoolVal(False)
        v, m, dt = solve.check(pc + [bad], 30000); out["solver_s"] += dt
        if v == solve.SAT:
            for kind, c_ in claims:
                if z3.is_false(m.eval(c_, model_completion=True)) and kind not in seen:
                    seen.add(kind); out["findings"].append({"kind": kind, "detail": f"r_type={solve.model_val(m, rt)} writes {[(hex(solve.model_val(m, a_)), hex(solve.model_val(m, v_))) for a_, v_ in writes]}", "model": model_of(m, h)}); break
        elif v == solve.UNDECIDED: out["undecided"].append("reloc claims")
        else: out["unsat"] += len(claims)
    out["calls"] = sorted(out["calls"])
    return out


def check_linker_mips(item):
    """ElfLinker::relocations_mips: GOT of local_gotno local and (symtabno - gotsym) global entries, <= 2 dynamic symbols.
    Every GOT word gets the base added; the slot of an undefined global symbol then holds the address the linker's symbol
    table gives for that symbol; the slot of a defined one keeps its rebased word; one R_MIPS_REL32 adds the base."""
    prog, _ = program()
    fn = find(prog, r"^elf_linker::<impl at lib/loader/elf/elf_linker\.rs:\d+:1: \d+:\d+>::relocations_mips$")
    h = Harness(prog, ndyn=2)
    concrete_names(h)
    lgot, gotsym, symtabno, pltgot = (z3.BitVec(n_, 64) for n_ in ("local_gotno", "gotsym", "symtabno", "pltgot"))
    h.dynamic = [(0x7000000a, lgot), (0x70000013, gotsym), (0x70000011, symtabno), (3, pltgot)]
    rel = dict(r_offset=z3.BitVec("rel_offset", 64), r_sym=bv(0), r_type=z3.BitVec("rel_type", 32))
    h.dynrels = [rel]
    lm = LinkMem()
    sa = [z3.BitVec(f"linker_symbol_address{i}", 64) for i in range(2)]
    out = {"what": "ElfLinker::relocations_mips", "paths": 0, "unsat": 0, "findings": [], "undecided": [], "solver_s": 0.0, "fn": fn, "calls": set()}
    ngot = lgot + (symtabno - gotsym)
    slot = lambda i: h.base + pltgot + bv(4) * i
    everything_mapped = z3.ForAll([z3.BitVec("a!", 64)], z3.Select(lm.mapped, z3.BitVec("a!", 64)))
    wf = z3.And(z3.ULE(lgot, bv(1)), z3.ULE(gotsym, symtabno), symtabno == bv(2), z3.ULT(h.base, bv(1 << 30)), z3.ULT(pltgot, bv(1 << 30)), z3.ULT(rel["r_offset"], bv(1 << 30)),
                (pltgot & 3) == 0, (rel["r_offset"] & 3) == 0, *[z3.ULT(a_, bv(1 << 32)) for a_ in sa],
                # the relocated word lies outside the GOT (otherwise two rules apply to one word) and sums stay in 32 bits
                z3.Or(z3.ULT(rel["r_offset"], pltgot), z3.UGE(rel["r_offset"], pltgot + bv(4) * ngot)),
                z3.ULT(z3.ZeroExt(32, z3.Select(lm.old, rel["r_offset"] + h.base)) + h.base, bv(1 << 32)))

    def mk(it):
        it.solver.add(wf); it.pc.append(wf)
        lm.writes.clear()
        e = h.elf_self()
        ls = linker_self(h, symbols={("name", "dynstrtab", 1): sa[0], ("name", "dynstrtab", 2): sa[1]}, loaded={"main": e}, do_reloc=True)
        return [I.ValRef(ls), "main"]
    extra = [(R(r"^get_dynamic$"), lambda it, c, a: it.call("get_dynamic", a)),
             (R(r"Option::<goblin::elf::Dynamic>::and_then::<|Option::<Dynamic>::and_then::<"), lambda it, c, a: (it.call_closure(a[1], [val(a[0]).fields[0]]) if val(a[0]).variant == 1 else M.none())),
             (R(r"Strtab::<'_>::get_at$"), lambda it, c, a: M.some(Name(val(a[0]).name, val(a[1])))),
             (R(r"<impl u32>::wrapping_add$"), lambda it, c, a: val(a[0]) + val(a[1])),
             (R(r"Option::<.*>::ok_or::<"), lambda it, c, a: (I.Agg("enum", "Result", [val(a[0]).fields[0]], 0) if val(a[0]).variant == 1 else I.Agg("enum", "Result", [I.Opaque("err")], 1))),
             (R(r"<Error as From<.*>>::from$|<.* as Into<Error>>::into$"), lambda it, c, a: I.Agg("enum", "Error", [I.Opaque("custom")], it.prog.enums["Error"].index("Custom")))]
    it = Interp19(prog, W=64, models=extra + linker_models(h, lm) + models_for(h) + PC.MODELS + K.CONTAINER_MODELS + M.MODELS, timeout_ms=20000)
    # every word is mapped in this scenario (get32 never fails)
    lm.mapped = z3.K(z3.BitVecSort(64), z3.BoolVal(True))
    seen = set()
    T32 = lambda x: z3.Extract(31, 0, x)
    for r in I.explore(it, fn, mk, max_paths=4000):
        out["paths"] += 1; out["calls"] |= set(r["calls"])
        pc = r["pc"]
        if r["outcome"] == "unsupported":
            out["undecided"].append("unsupported: " + r["msg"][:200]); continue
        if r["outcome"] == "panic":
            v, m, dt = solve.check(pc, 20000); out["solver_s"] += dt
            if v == solve.SAT and "panic" not in seen:
                seen.add("panic"); out["findings"].append({"kind": "panic", "detail": r["msg"][:120], "model": model_of(m, h)})
            continue
        res = val(r["value"])
        if res.variant != 0:
            v, m, dt = solve.check(pc, 20000); out["solver_s"] += dt
            if v == solve.SAT and "err" not in seen:
                seen.add("err"); out["findings"].append({"kind": "relocation fails although every symbol resolves and every word is mapped", "detail": "Err", "model": model_of(m, h)})
            continue
        # final content of a word = last write to it, else the old content
        def final(addr):
            v_ = z3.Select(lm.old, addr)
            for wa, wv in lm.writes:
                v_ = z3.If(wa == addr, wv, v_)
            return v_
        claims = []
        b32 = T32(h.base)
        for i in range(0, 3):
            inside = z3.ULT(bv(i), ngot)
            glob = z3.And(inside, z3.UGE(bv(i), lgot))
            word = final(slot(bv(i)))
            rebased = z3.Select(lm.old, slot(bv(i))) + b32
            for k_ in range(2):
                this = z3.And(glob, bv(i) - lgot + gotsym == bv(k_))
                undefined = h.dyn[k_]["st_shndx"] == 0
                claims.append((f"GOT slot of an undefined global symbol does not hold the address of the symbol it names", z3.Implies(z3.And(this, undefined), word == T32(sa[k_]))))
                claims.append((f"GOT slot of a defined global symbol is not the rebased original word", z3.Implies(z3.And(this, z3.Not(undefined)), word == rebased)))
            claims.append(("local GOT entry is not rebased exactly once", z3.Implies(z3.And(inside, z3.Not(glob)), word == rebased)))
            claims.append(("a word after the GOT is modified", z3.Implies(z3.And(z3.Not(inside), slot(bv(i)) != rel["r_offset"] + h.base), word == z3.Select(lm.old, slot(bv(i))))))
        tgt = rel["r_offset"] + h.base
        claims.append(("R_MIPS_REL32 word is not old word + base", z3.Implies(rel["r_type"] == 3, final(tgt) == z3.Select(lm.old, tgt) + b32)))
        bad = z3.Or(*[z3.Not(c_) for _, c_ in claims])
        v, m, dt = solve.check(pc + [bad], 60000); out["solver_s"] += dt
        if v == solve.SAT:
            for kind, c_ in claims:
                if z3.is_false(m.eval(c_, model_completion=True)) and kind not in seen:
                    seen.add(kind)
                    out["findings"].append({"kind": kind, "detail": f"local_gotno={solve.model_val(m, lgot)} gotsym={solve.model_val(m, gotsym)} symtabno={solve.model_val(m, symtabno)} writes {[(hex(solve.model_val(m, a_)), hex(solve.model_val(m, v_))) for a_, v_ in lm.writes]}", "model": model_of(m, h)}); break
        elif v == solve.UNDECIDED: out["undecided"].append("mips reloc claims")
        else: out["unsat"] += len(claims)
    out["calls"] = sorted(out["calls"])
    return out


def work(item):
    return {"link-mips": check_linker_mips, "memory": check_memory, "entries": check_entries, "new": check_new, "link-load": check_linker_load, "link-reloc": check_linker_reloc}[item["t"]](item)


def main():
    from smt import drv
    drv.build()
    rep = common.Report("C19", "model_checking")
    lock = open("/repo/Cargo.lock").read()
    m = re.search(r'name = "goblin"\nversion = "([^"]+)"', lock)
    if not m or not m.group(1).startswith("0.6."):
        rep.encoder_defect(f"goblin version {m.group(1) if m else '?'}: the stub's struct field order was written for goblin 0.6")
    path, dt = dump.mir_path()
    rep.extra["mir_dump_seconds"] = round(dt, 1)
    T = rep.tier == "thorough"
    items = [{"t": "memory", "npre": n} for n in ((0, 1, 2) if not T else (0, 1, 2, 3))]
    items += [{"t": "entries", "fn": "program_entry", "ndyn": 0, "nsym": 0}]
    for nd, ns, nu in ((0, 0, 0), (1, 0, 0), (0, 1, 0), (1, 1, 0), (0, 0, 1), (1, 1, 1)) + (((2, 1, 1), (1, 2, 1), (2, 2, 1)) if T else ((2, 0, 0),)):
        items.append({"t": "entries", "fn": "function_entries", "ndyn": nd, "nsym": ns, "nuser": nu})
    for nd, ns, npl in ((0, 0, 0), (1, 0, 0), (0, 1, 0), (1, 1, 0), (1, 0, 1), (1, 1, 1)) + (((2, 2, 1), (2, 1, 1)) if T else ((2, 0, 1),)):
        items.append({"t": "entries", "fn": "symbols", "ndyn": nd, "nsym": ns, "nplt": npl})
    for nd in (0, 1, 2) + ((3,) if T else ()):
        items.append({"t": "entries", "fn": "exported_symbols", "ndyn": nd, "nsym": 0})
    items.append({"t": "new"})
    for nd in (0, 1, 2):
        items.append({"t": "link-load", "ndyn": nd})
    items += [{"t": "link-reloc", "resolvable": True}, {"t": "link-reloc", "resolvable": False}, {"t": "link-mips"}]
    results = common.pmap(work, items, chunksize=1)
    fns = {}
    paths = 0
    validated = 0
    for it, r in zip(items, results):
        if "crash" in r:
            rep.encoder_defect(f"{it}: {r['crash']} {r.get('trace','')[-600:]}"); continue
        paths += r["paths"]; rep.solver_s += r["solver_s"]; rep.queries["unsat"] += r["unsat"]
        validated += r.get("validated", 0)
        for vf in r.get("validation_failures", []):
            rep.encoder_defect(f"{r['what']}: the real loader disagrees with the symbolic run on a solver-chosen ELF file: {json.dumps(vf)[:500]}")
        fns[r["fn"]] = 1
        for c in r["calls"]: fns.setdefault(c, "inlined")
        for u in r["undecided"]:
            rep.count("undecided"); rep.undecided.append(f"{r['what']}: {u}")
            if "unsupported" in u:
                rep.encoder_defect(f"{r['what']}: {u}")
        if r["unsat"] and not r["findings"]:
            rep.sample({"function": r["what"], "paths": r["paths"], "obligations_unsat": r["unsat"]}, cap=10)
        seen = set()
        for f in r["findings"]:
            rep.count("sat")
            role = r["what"].split(" ")[0]
            sig = f"elf/{role}/{f['kind']}"
            if f.get("replay") == "not reproduced":
                rep.encoder_defect(f"{r['what']}: {f['kind']}: model does not reproduce on the real loader: {f['detail']} [{json.dumps(f['model'])[:300]}]")
                continue
            if sig in seen: continue
            seen.add(sig)
            rep.violation(sig, f"{r['what']}: {f['kind']}: {f['detail']} [replay: {f.get('replay', 'symbolic run only')}] [{json.dumps(f['model'])[:300]}]", {"item": it, "finding": f})
    rep.functions_encoded = sorted(fns)[:60]
    rep.bounds = {"program_headers": "1 per inductive step, 0..2 (thorough 3) earlier regions", "symbols": "<= 2 dynamic, <= 2 static, <= 1 PLT relocation, <= 1 user entry", "sizes": f"segment and file sizes <= {MAXLEN}; addresses and base < 2^62 (no wrap-around)",
                  "outside": "goblin's parser (stubbed: arbitrary parsed structures), ElfLinker, overlapping PT_LOAD segments, names (carried as (table, index) pairs, not compared)"}
    rep.finish({"states": max(1, paths), "transitions": max(1, rep.queries["unsat"] + rep.queries["sat"]), "traces_validated_against_impl": validated,
                "explanation": "states = MIR paths through Elf::{memory,function_entries,symbols,exported_symbols,program_entry,new} with goblin's parse result symbolic; transitions = per-path obligations"},
               assumptions=["goblin 0.6 struct field order (checked against Cargo.lock) and gABI constants (PT_LOAD, PF_*, STT_FUNC, STB_*, EM_*)", "backing::Memory::set_memory behaves as C16 proves (contract stub); Memory::new replaced by an arbitrary byte map (inductive step of the PT_LOAD loop)",
                            "sort/dedup of the symbol vector do not change the set of addresses"])


if __name__ == "__main__":
    main()
