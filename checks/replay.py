#!/usr/bin/env python3
"""Show a replay file written by a check (the violating input, call site or history)."""
import json, sys
v = json.load(open(sys.argv[1]))
print("signature:", v["signature"])
print("what:", v["what"])
print(json.dumps(v["replay"], indent=1, default=str)[:6000])
