#!/usr/bin/env python3
"""C02 - MIPS and PowerPC lifters agree with the architecture manuals.

Per generated word (or branch + delay-slot pair): lift with the real translator, encode the IL
with il2smt, compare with the reference interpreters of specs/mips.py / specs/ppc.py (which decode
the raw word themselves) for ALL register/memory states (z3)."""
import sys, os, random, json
sys.path.insert(0, os.path.dirname(os.path.dirname(os.path.abspath(__file__))))
import z3
from checks import common, liftcheck
from smt import drv, replay
from specs import mips as MS, ppc as PS, encgen_mips as EM

ADDR = 0x400100
MIPS_OBS = (set(MS.REG) - {"$zero"}) | {"$hi", "$lo"}     # the lifter reads $zero as the constant 0; the scalar of that name is never read


def mips_items(tier, rnd):
    items = []
    T = tier == "thorough"
    plain = EM.plain_words(rnd, T) + EM.random_plain(rnd, 60 if not T else 600)
    for arch, little in (("mips", False), ("mipsel", True)):
        ws = plain if (T or arch == "mips") else [p for p in plain if p[0].split()[0] in ("lw", "sw", "lh", "sh", "lb", "lwl", "lwr", "swl", "swr", "ll", "sc", "lhu", "lbu", "sb", "addiu", "addu")]
        for lab, w in ws:
            b = w.to_bytes(4, "little" if little else "big")
            items.append({"arch": arch, "bytes": b.hex(), "address": ADDR, "words": [w], "label": f"{arch}: {lab}", "mn": lab.split()[0], "kind": "plain"})
        slots = EM.slot_words()
        if arch == "mips" or T:
            rslots = EM.random_slots(rnd, 8)
            for lab, w in EM.random_branches(rnd, 30 if not T else 300):
                slab, sw = rnd.choice(rslots + slots)
                b = w.to_bytes(4, "little" if little else "big") + sw.to_bytes(4, "little" if little else "big")
                items.append({"arch": arch, "bytes": b.hex(), "address": ADDR, "words": [w, sw], "label": f"{arch}: {lab} ; slot: {slab}", "mn": lab.split()[0], "kind": "branch",
                              "slot": slab.split()[0] if slab == "nop" else "interfering", "skip_shape": True})
        for lab, w in EM.branch_words(ADDR):
            use = slots if T else [slots[0]] + rnd.sample(slots[1:], 2)
            if arch == "mipsel" and not T:
                use = use[:2]
            for slab, sw in use:
                b = w.to_bytes(4, "little" if little else "big") + sw.to_bytes(4, "little" if little else "big")
                items.append({"arch": arch, "bytes": b.hex(), "address": ADDR, "words": [w, sw], "label": f"{arch}: {lab} ; slot: {slab}", "mn": lab.split()[0], "kind": "branch",
                              "slot": slab.split()[0], "skip_shape": True})
    return items


def ppc_items(tier, rnd=None):
    items = []
    for lab, w in PS.words(tier == "thorough") + (PS.random_words(rnd, 25 if tier != "thorough" else 300) if rnd is not None else []):
        items.append({"arch": "ppc", "bytes": w.to_bytes(4, "big").hex(), "address": ADDR, "words": [w], "label": f"ppc: {lab}", "mn": lab.split()[0], "kind": "plain"})
    return items


def specfn(ctx, item, lift):
    so = liftcheck.SpecOut()
    try:
        if item["arch"] == "ppc":
            st, out = PS.spec(item["words"][0], item["address"], ctx.input, ctx.mem0)
        else:
            st, out = MS.spec(item["words"], item["address"], ctx.input, ctx.mem0, "little" if item["arch"] == "mipsel" else "big")
    except (MS.Unsupported, PS.Unsupported) as e:
        raise NotImplementedError(str(e))
    so.regs.update(st.regs); so.mem = st.mem; so.next_pc = out.next_pc
    so.assume = out.assume; so.undef = out.undef; so.intrinsic = out.intrinsic; so.accessed = st.accessed
    so.classes = getattr(out, "classes", None)
    if out.trap is not None and not z3.is_false(z3.simplify(out.trap)):
        so.trap = out.trap
    return so


def observable(arch):
    if arch == "ppc":
        return lambda n: n.startswith("r") and n[1:].isdigit() or n in ("lr", "ctr") or n.startswith("cr")     # XER[CA] ("carry") is only ever read by the lifter; the property names LR/CTR/CR
    return lambda n: n in MIPS_OBS


def work(item):
    arch = item["arch"]
    endian = "little" if arch == "mipsel" else "big"
    item = dict(item); item["nowrap32"] = True
    r = liftcheck.analyse(arch, endian, item, specfn, k=(70 if item['mn'] in ('clz', 'clo') else 8), timeout_ms=int(os.environ.get("VERIF_QUERY_MS", "12000" if common.tier() == "quick" else "60000")), observables=observable(arch), k_is_bound=True,
                          flag_names=tuple(f"cr{i}-{f}" for i in range(8) for f in ("lt", "gt", "eq", "so")) + ("carry",))
    r["mn"] = item["mn"]
    return r


def concrete_confirm(item, r, f):
    """Concrete re-evaluation of the lifted IL on the model state (python ints) vs the reference post-state."""
    lift = drv.call({"cmd": "lift", "arch": item["arch"], "bytes": item["bytes"], "address": item["address"]})
    if not lift.get("ok"):
        return None, "re-lift failed"
    model = f["model"]
    endian = item.get("endian") or ("little" if item["arch"] == "mipsel" else "big")
    try:
        cst, ending = liftcheck.concrete_replay(lift, model, endian, None)
    except replay.Fault as e:
        return True, f"concrete IL run faults: {e}"
    bad = []
    undef = set(model.get("undef", []))
    for n, sv in model.get("spec_post", {}).items():
        if n in undef: continue
        iv = cst.sc.get(n, (model["scalars"].get(n, [None])[0],))[0]
        if iv != sv: bad.append(n)
    for n, (iv, w) in cst.sc.items():
        if n in model.get("spec_post", {}) or n not in model["scalars"] or n in undef or n.startswith("temp") or n == "branching_condition": continue
        if iv != model["scalars"][n][0]: bad.append(n)
    for a, sv in model.get("spec_mem", {}).items():
        if cst.mem.get(int(a), model["mem"].get(a, 0)) != sv: bad.append(f"mem[{int(a):#x}]")
    il_pc = None
    if ending[0] == "branch": il_pc = ending[1]
    elif ending[0] == "intrinsic": il_pc = "trap"
    else:
        for addr, c in lift["successors"]:
            try:
                if c is None or replay.ev(cst, c)[0] == 1:
                    il_pc = addr; break
            except replay.Fault:
                pass
    if "spec_pc" in model and il_pc != "trap" and il_pc != model["spec_pc"]:
        bad.append("pc")
    if "trap" in f["diffs"]:
        return True, f"IL {'traps' if il_pc == 'trap' else 'does not trap'} on the model state"
    return bool(bad), ("concrete IL evaluation differs from the reference in " + ",".join(bad[:5])) if bad else "concrete IL evaluation agrees with the reference"


def sig_of(item, f=None, status=None):
    unaligned = item["mn"] in ("lwl", "lwr", "swl", "swr")
    base = f"{item['arch'] if unaligned else item['arch'].replace('mipsel', 'mips')}/{item['mn']}"
    if item["kind"] == "branch":
        base += "+slot:" + ("nop" if item["slot"] == "nop" else "interfering")
    if f is not None:
        return f"{base}/{f['class']}/{f['group']}"
    return f"{base}/{status}"


def main():
    drv.build()
    rep = common.Report("C02", "translation_validation")
    rnd = random.Random(rep.seed * 31 + 5)
    items = mips_items(rep.tier, rnd) + ppc_items(rep.tier, rnd)
    results = common.pmap(work, items, chunksize=4)
    counts = {}
    for it, r in zip(items, results):
        if "crash" in r:
            rep.encoder_defect(f"{it['label']}: {r['crash']} {r.get('trace','')[-300:]}"); continue
        st = r["status"]; counts[st] = counts.get(st, 0) + 1
        rep.solver_s += r.get("solver_s", 0.0)
        if st == "unsat":
            rep.count("unsat")
            rep.sample({"bytes": it["bytes"], "label": it["label"], "verdict": "unsat: IL == reference for every state"}, cap=6)
        elif st == "undecided":
            rep.count("undecided"); rep.undecided.append(f"{it['label']} ({r.get('detail','')})")
        elif st in ("rejected", "nospec", "intrinsic-ok", "vacuous"):
            rep.ground["checked"] += 1
            if st == "rejected":
                rep.extra.setdefault("rejected", []).append(f"{it['label']}: {r.get('detail','')[:80]}")
        elif st == "mismatch":
            rep.extra.setdefault("shape_mismatch", []).append(f"{it['label']}: {r['detail']}")
        elif st == "sat" and r.get("findings"):
            rep.count("sat")
            for f in r["findings"]:
                ok, note = concrete_confirm(it, r, f)
                what = f"{it['label']} bytes={it['bytes']}: differs in {f['diffs']} (class {f['class']}); {note}"
                if ok is False:
                    rep.encoder_defect("model does not reproduce: " + what); continue
                rep.violation(sig_of(it, f), what, {"item": it, "finding": f})
        else:
            rep.count("sat")
            d0 = (r.get("diffs") or [st])[0]
            rep.violation(sig_of(it, None, d0 if st == "sat" else st), f"{it['label']} bytes={it['bytes']}: {st} {r.get('diffs','')} {r.get('detail','')}", {"item": it, "result": {k: v for k, v in r.items() if k != 'model'}})
    rep.extra["status_counts"] = counts
    rep.functions_encoded = ["translator::mips::{Mips,Mipsel}::translate_block, translator::ppc::Ppc::translate_block (run concretely per word; output IL encoded)"]
    rep.bounds = {"words": len(items), "outside": "words not generated; MIPS16/FPU/COP; PPC64/VMX; LL/SC modelled as always succeeding; crN-so (XER[SO]) not compared"}
    rep.finish({"programs": max(1, len(items)), "disagreements_checked": counts.get("sat", 0),
                "explanation": "one solver query per generated word / branch+slot pair: all registers and memory symbolic"},
               assumptions=["specs/mips.py and specs/ppc.py are my reading of the MIPS32 and Power ISA manuals (no hardware oracle for these ISAs); counterexamples are reported only after concrete replay",
                            "DIV by zero and MUL's HI/LO are UNPREDICTABLE and masked"])


if __name__ == "__main__":
    main()
