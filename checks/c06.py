#!/usr/bin/env python3
"""C06 - function recovery reproduces sequential machine-code execution.

(F) the real translate_function_extended output vs. (S) a stepping reference assembled here from
falcon's own single-instruction lifts (no windows, no sharing, no merge).  z3 decides, for every
initial state, whether the visited native-address sequence (ghost hash) or the final state differ
within the bound.  Ground: every address in exactly one block, entry block = function address,
no dangling edge."""
import sys, os, random, json
sys.path.insert(0, os.path.dirname(os.path.dirname(os.path.abspath(__file__))))
import z3
from checks import common, ilcheck, c15
from smt import drv, il2smt, fbmc, solve, replay
from gen import mc

BASE = 0x1000
P = 0x100000001b3


class AddrTrace:
    def on_instr(self, blk, ins, g, st):
        a = ins.get("address")
        if a is None:
            return
        last = st.ghost["last"]
        av = z3.BitVecVal(a, 64)
        same = last == av
        st.ghost["trace"] = z3.If(same, st.ghost["trace"], st.ghost["trace"] * z3.BitVecVal(P, 64) + av)
        st.ghost["last"] = av


def fresh(ctx):
    st = il2smt.initial_state(ctx)
    st.ghost["trace"] = z3.BitVecVal(0, 64)
    st.ghost["last"] = z3.BitVecVal(0, 64)
    return st


def lift(arch, code, addr, n):
    off = addr - BASE
    chunk = code[off:off + n]
    if not chunk:
        return None
    return drv.call({"cmd": "lift", "arch": arch, "bytes": chunk.hex(), "address": addr})


def unit_at(arch, code, addr):
    """Minimal lifting unit at addr: one instruction (x86) or branch + delay slot (MIPS)."""
    if arch in ("mips", "mipsel"):
        off = addr - BASE
        wb = code[off:off + 4]
        if len(wb) < 4:
            return None
        w = int.from_bytes(wb, "little" if arch == "mipsel" else "big")
        opc, funct = w >> 26, w & 0x3f
        # instructions with a delay slot (MIPS32 manual): J JAL BEQ BNE BLEZ BGTZ REGIMM branches, JR JALR, likely variants
        has_slot = opc in (2, 3, 4, 5, 6, 7, 0x14, 0x15, 0x16, 0x17) or (opc == 1) or (opc == 0 and funct in (8, 9))
        return lift(arch, code, addr, 8 if has_slot else 4)
    r = lift(arch, code, addr, 16)
    if r is None or not r.get("ok"):
        return r
    ins = r["instructions"]
    L = (ins[1][0] - addr) if len(ins) > 1 else r["length"]
    return lift(arch, code, addr, L)


def stepping_graph(arch, code, entry, extra_roots=()):
    """CFG assembled from single-unit lifts, following direct successors."""
    blocks = []; edges = []
    unit = {}      # addr -> (entry_block, exit_block, successors)
    work = [entry] + list(extra_roots)
    order = []
    while work:
        a = work.pop()
        if a in unit or not (BASE <= a < BASE + len(code)):
            continue
        r = unit_at(arch, code, a)
        if r is None or not r.get("ok"):
            unit[a] = None
            continue
        first = None; prev_exit = None
        for (ia, g) in r["instructions"]:
            bmap = {}
            for b in g["blocks"]:
                bmap[b["index"]] = len(blocks)
                blocks.append({"index": len(blocks), "instructions": [dict(x) for x in b["instructions"]], "phis": []})
            for e in g["edges"]:
                edges.append({"head": bmap[e["head"]], "tail": bmap[e["tail"]], "cond": e["cond"]})
            en, ex = bmap[g["entry"]], bmap[g["exit"]]
            if first is None: first = en
            if prev_exit is not None:
                edges.append({"head": prev_exit, "tail": en, "cond": None})
            prev_exit = ex
        unit[a] = (first, prev_exit, r["successors"])
        order.append(a)
        for sa, c in r["successors"]:
            work.append(sa)
    unliftable = sorted(a for a, u in unit.items() if u is None)
    for a in order:
        first, ex, succ = unit[a]
        for sa, c in succ:
            if unit.get(sa) is None:
                # successor outside the image / not liftable: an empty block stands for it
                nb = len(blocks); blocks.append({"index": nb, "instructions": [], "phis": []})
                unit[sa] = (nb, nb, [])
            edges.append({"head": ex, "tail": unit[sa][0], "cond": c})
    for b in blocks:
        for j, ins in enumerate(b["instructions"]):
            ins["index"] = j
    return {"entry": unit[entry][0] if unit.get(entry) else None, "exit": None, "blocks": blocks, "edges": edges, "unliftable": unliftable}, unit


def ground_F(F, entry_addr, manual=False):
    cfg = F["cfg"]
    errs = []
    bs = {b["index"] for b in cfg["blocks"]}
    for e in cfg["edges"]:
        if e["head"] not in bs or e["tail"] not in bs:
            errs.append(f"edge {e['head']}->{e['tail']} refers to a missing block")
    if cfg.get("entry") not in bs:
        errs.append("entry refers to a missing block")
    outs = {}
    for e in cfg["edges"]:
        outs.setdefault(e["head"], []).append(e)
    for h, es in outs.items():
        if not manual and len(es) > 1 and any(e["cond"] is None for e in es):
            errs.append(f"block {h} has an unguarded edge next to {len(es) - 1} other edge(s)")
    # (no duplicate lifting is checked against the single-unit lifts in check_one)
    eb = next((b for b in cfg["blocks"] if b["index"] == cfg.get("entry")), None)
    if eb is not None:
        adr = next((i.get("address") for i in eb["instructions"] if i.get("address") is not None), None)
        if adr is not None and adr != entry_addr:
            errs.append(f"entry block starts at {adr:#x}, function address is {entry_addr:#x}")
    return errs


def check_one(item):
    arch, code, name = item["arch"], bytes.fromhex(item["code"]), item["name"]
    res = {"id": f"{arch}:{name}", "arch": arch}
    req = {"cmd": "liftfn", "arch": arch, "segments": [[BASE, item["code"]]], "entry": item["entry"], "manual_edges": item.get("manual_edges", [])}
    r = drv.call(req)
    if "panic" in r or "died" in r:
        res.update(status="panic", detail=str(r)[:300]); return res
    if not r.get("ok"):
        # refusing is fine when some reachable instruction cannot be lifted on its own; otherwise the
        # failure is an artefact of function recovery (translation windows, block splitting)
        S0, _ = stepping_graph(arch, code, item["entry"], [])
        if S0["entry"] is not None and not S0.get("unliftable") and not item.get("manual_edges"):
            res.update(status="ground-fail", ground=[f"translate_function fails ({str(r.get('error'))[:120]}) although every reachable instruction lifts on its own"]); return res
        res.update(status="rejected", detail=r.get("error")); return res
    F = r["function"]
    errs = ground_F(F, item["entry"], bool(item.get("manual_edges")))
    res["ground"] = errs[:3]
    if errs:
        res.update(status="ground-fail", function=F); return res
    if item.get("manual_edges"):
        # a manual edge adds an unguarded edge next to whatever the block already has; only its presence is checked
        first_addr = {}
        for b in F["cfg"]["blocks"]:
            a0 = next((i.get("address") for i in b["instructions"] if i.get("address") is not None), None)
            if a0 is not None: first_addr[b["index"]] = a0
        contains = {b["index"]: {i.get("address") for i in b["instructions"]} for b in F["cfg"]["blocks"]}
        where = {}
        order = {}
        for b in F["cfg"]["blocks"]:
            for pos, i in enumerate(b["instructions"]):
                if i.get("address") is not None and i["address"] not in where:
                    where[i["address"]] = b["index"]; order[i["address"]] = pos
        succ = {}
        for e in F["cfg"]["edges"]:
            succ.setdefault(e["head"], []).append(e["tail"])
        for h, t, c in item["manual_edges"]:
            if t not in where or h not in where:
                errs.append(f"manual edge {h:#x}->{t:#x}: an endpoint was not lifted"); continue
            seen = set(); stack = list(succ.get(where[h], [])); ok = where[h] == where[t] and order[t] > order[h]
            while stack and not ok:
                n = stack.pop()
                if n in seen: continue
                seen.add(n)
                if n == where[t]: ok = True
                stack.extend(succ.get(n, []))
            if not ok:
                errs.append(f"manual edge {h:#x}->{t:#x}: the tail is not reachable from the head in the function graph")
        res["ground"] = errs[:3]
        res.update(status="ground-fail" if errs else "ground-ok", function=F if errs else None)
        return res
    roots = []
    S, units = stepping_graph(arch, code, item["entry"], roots)
    # manual edges are part of the requested graph: add them to the reference as well
    for h, t, c in item.get("manual_edges", []):
        uh, ut = units.get(h), units.get(t)
        if uh and ut and not any(e["head"] == uh[1] and e["tail"] == ut[0] for e in S["edges"]):
            S["edges"].append({"head": uh[1], "tail": ut[0], "cond": c})
    if S["entry"] is None:
        res.update(status="rejected", detail="entry not liftable"); return res
    # ground: every native instruction is lifted exactly once in F (same IL operations as its single lift)
    def by_addr(cfg):
        d = {}
        for b in cfg["blocks"]:
            for ins in b["instructions"]:
                if ins.get("address") is not None:
                    d.setdefault(ins["address"], []).append(json.dumps(ins["op"], sort_keys=True))
        return {a: sorted(v) for a, v in d.items()}
    fa, sa_ = by_addr(F["cfg"]), by_addr(S)
    for a in sorted(set(fa) | set(sa_)):
        if fa.get(a) != sa_.get(a):
            kind = "lifted more than once" if a in fa and a in sa_ and len(fa[a]) > len(sa_[a]) else ("missing from the function" if a not in fa else ("not reachable by stepping" if a not in sa_ else "lifted differently"))
            errs.append(f"instruction at {a:#x} {kind}")
    res["ground"] = errs[:3]
    if errs:
        res.update(status="ground-fail", function=F); return res
    endian = "big" if arch in ("mips", "ppc", "aarch64eb") else "little"
    ctx = il2smt.Ctx(endian=endian)
    kF = item["k"]
    maxins = max([len({i.get("address") for i in b["instructions"]}) for b in F["cfg"]["blocks"]] + [1])
    kS = kF * (maxins + 2) * 2
    kS = min(kS, 900)
    try:
        rf = il2smt.run_graph(ctx, F["cfg"], fresh(ctx), kF, hooks=AddrTrace(), stop_at_exit=False)
        rs = il2smt.run_graph(ctx, S, fresh(ctx), kS, hooks=AddrTrace(), stop_at_exit=False)
    except il2smt.SortError as e:
        res.update(status="sorterr", detail=str(e)); return res
    ff, tf = il2smt.final_merge(ctx, rf)
    fs, ts = il2smt.final_merge(ctx, rs)
    if ff is None or fs is None:
        res.update(status="no-terminating-path"); return res
    # ending kinds (branch targets) must agree as well
    def ending_term(run):
        t = z3.BitVecVal(0, 64)
        for g, tgt in run.events.branches:
            t = z3.If(g if g is not True else z3.BoolVal(True), tgt, t)
        return t
    diff = z3.Or(c15.states_differ(ctx, _strip(ff), _strip(fs)), ending_term(rf) != ending_term(rs))
    nofault = z3.Not(z3.Or(*[c for _, c in ctx.faults])) if ctx.faults else z3.BoolVal(True)
    q = z3.And(nofault, z3.Or(z3.And(tf, z3.Not(ts)), z3.And(tf, ts, diff)))
    v, m, dt = solve.check([q] + ctx.c04_assumptions, 60000)
    res["solver_s"] = dt; res["kF"] = kF; res["kS"] = kS
    res["blocks"] = [len(F["cfg"]["blocks"]), len(S["blocks"])]
    if v == solve.UNSAT:
        vv, _, dt2 = solve.check([nofault, tf, ts], 30000, want_model=False); res["solver_s"] += dt2
        res.update(status="unsat" if vv == solve.SAT else "vacuous"); return res
    if v == solve.UNDECIDED:
        res.update(status="undecided"); return res
    scm, mem_read = ilcheck.model_inputs(ctx, m)
    sa, ea = ilcheck.concrete_run(F, scm, mem_read, max_steps=3000, endian=endian)
    sb, eb = ilcheck.concrete_run({"cfg": S}, scm, mem_read, max_steps=6000, endian=endian)
    ta = addr_trace(F["cfg"], sa.trace); tb = addr_trace(S, sb.trace)
    n_ = min(len(ta), len(tb)) if "steps" in (ea[0], eb[0]) else max(len(ta), len(tb))
    differs = ta[:n_] != tb[:n_] or (ea[0] != "steps" and eb[0] != "steps" and (ea != eb or any(sa.sc.get(k) != sb.sc.get(k) for k in set(sa.sc) | set(sb.sc) if not k.startswith("temp"))))
    res.update(status="sat", reproduced=bool(differs), model=scm, traces=[[hex(x) for x in ta[:40]], [hex(x) for x in tb[:40]]], function=F, endings=[str(ea), str(eb)])
    return res


def _strip(st):
    """Drop per-instruction temporaries from the comparison."""
    s2 = il2smt.St({k: v for k, v in st.sc.items() if not k.startswith("temp")}, st.mem, dict(st.ghost))
    return s2


def addr_trace(cfg, trace):
    blocks = {b["index"]: b for b in cfg["blocks"]}
    out = []
    for t in trace:
        if t[0] != "ins": continue
        ins = next(i for i in blocks[t[1]]["instructions"] if i["index"] == t[2])
        a = ins.get("address")
        if a is not None and (not out or out[-1] != a):
            out.append(a)
    return out


def build_items(tier, seed):
    rnd = random.Random(seed + 77)
    items = []
    for mode, arch in ((64, "amd64"), (32, "x86")):
        for name, its, manual in mc.x86_programs(mode, rnd, 6 if tier == "quick" else 80):
            try:
                code, labels, _ = mc.assemble_x86(mode, its, BASE)
            except Exception as e:
                continue
            me = []
            for h, t, c in manual:
                me.append([labels[h] if h else BASE, labels[t], c])
            for entry in [BASE] + ([labels["M"]] if "M" in labels and tier == "thorough" else []):
                items.append({"arch": arch, "name": name, "code": code.hex(), "entry": entry, "manual_edges": me, "k": 26 if tier == "quick" else 40})
    for little, arch in ((False, "mips"), (True, "mipsel")):
        for name, ws in mc.mips_programs(rnd):
            code = b"".join(mc.mips_word(w, little) for w in ws)
            items.append({"arch": arch, "name": name, "code": code.hex(), "entry": BASE, "manual_edges": [], "k": 26 if tier == "quick" else 40})
    return items


def main():
    drv.build()
    rep = common.Report("C06", "translation_validation")
    items = build_items(rep.tier, rep.seed)
    # a random program whose guarded-merge terms explode is reported as undecided after this long, not waited for
    os.environ.setdefault("VERIF_ITEM_TIMEOUT", "300" if rep.tier == "quick" else "1800")
    results = common.pmap(check_one, items, chunksize=1)
    counts = {}
    for it, r in zip(items, results):
        if "crash" in r:
            rep.encoder_defect(f"{it['arch']}:{it['name']}: {r['crash']} {r.get('trace','')[-400:]}"); continue
        st = r["status"]; counts[st] = counts.get(st, 0) + 1
        rep.solver_s += r.get("solver_s", 0)
        if st == "unsat":
            rep.count("unsat")
            rep.sample({"program": r["id"], "bytes": it["code"][:80], "blocks_F_S": r["blocks"], "k": [r["kF"], r["kS"]], "verdict": "unsat"}, cap=6)
        elif st in ("rejected", "no-terminating-path", "vacuous", "ground-ok"):
            rep.ground["checked"] += 1
            rep.extra.setdefault(st, []).append(f"{r['id']}: {r.get('detail','')}"[:200])
        elif st == "undecided":
            rep.count("undecided"); rep.undecided.append(r["id"])
        elif st in ("ground-fail", "panic", "sorterr"):
            rep.ground["checked"] += 1; rep.ground["failed"] += 1
            what = (r.get("ground") or [r.get("detail")])[0]
            kind = "translate_function fails on liftable code" if str(what).startswith("translate_function fails") else "instruction " + str(what).split(" ", 3)[-1] if str(what).startswith("instruction at") else "unguarded edge next to other edges" if "unguarded edge" in str(what) else ("entry block is not the function address" if "entry block starts" in str(what) else st)
            rep.violation(f"function-recovery/{kind}", f"{r['id']}: {what}", {"program": it, "result": {k_: v_ for k_, v_ in r.items() if k_ != 'function'}})
        elif st == "sat":
            rep.count("sat")
            if not r["reproduced"]:
                rep.encoder_defect(f"model does not reproduce for {r['id']}: {r['endings']}"); continue
            rep.violation(f"function-recovery/{it['arch'].replace('mipsel', 'mips')}/execution differs from single-instruction stepping",
                          f"{r['id']}: address traces {r['traces'][0][:12]} vs {r['traces'][1][:12]} (initial state {json.dumps(r['model'])[:160]})",
                          {"program": it, "model": r["model"], "traces": r["traces"]})
    rep.extra["status_counts"] = counts
    rep.functions_encoded = ["translator::Translator::translate_function_extended (x86, amd64, mips, mipsel) incl. ControlFlowGraph::insert/merge",
                             "Translator::translate_block on single instructions (reference stepping machine built from its output)"]
    rep.bounds = {"programs": len(items), "k_blocks_F": "26 quick / 40 thorough", "outside": "indirect branches end a path; programs not generated",
                  "note": "address sequences compared through a 64-bit polynomial ghost hash"}
    rep.finish({"programs": len(items), "disagreements_checked": counts.get("sat", 0),
                "explanation": "function-level CFG vs. chained single-instruction lifts of the same bytes, common symbolic initial state"},
               assumptions=["both sides use falcon's per-instruction IL, so per-instruction lifting errors (C01/C02) cancel out", "paths compared when both terminate within their bounds"])


if __name__ == "__main__":
    main()
