#!/usr/bin/env python3
"""C05 - lifting any bytes is total and yields well-formed, deterministic IL.

Two halves.
 * solver half (deciding step for "in every state exactly one edge is enabled"): every distinct
   set of outgoing-edge guards / successor guards that the real translators emit over the corpus
   is alpha-normalised and z3 decides  forall scalars. exactly-one(g_1..g_n)  as unsat of its negation.
 * ground half (totality and width rules): the real translate_block (and blockify) is run under
   catch_unwind on byte strings from the driver's `scan` command; every returned graph is checked
   against falcon's own sort rules.  The byte-string quantifier is enumerated (stated bound), not
   symbolic: the decoders are capstone (C, behind FFI) and bad64's generated tables, which no
   solver in this sandbox can take in."""
import sys, os, json, random, subprocess, time
sys.path.insert(0, os.path.dirname(os.path.dirname(os.path.abspath(__file__))))
import z3
from checks import common
from smt import drv, il2smt, solve

ARCHS = [("x86", False, 32), ("amd64", False, 64), ("mips", True, 32), ("mipsel", False, 32), ("ppc", True, 32), ("aarch64", False, 64), ("aarch64eb", False, 64)]
SCAN_TIMEOUT = int(os.environ.get("VERIF_SCAN_TIMEOUT", "600"))


def run_scan(req):
    """One fdriver process per task with a wall-clock limit (a hang is a finding, not a stall)."""
    t0 = time.time()
    try:
        p = subprocess.run([drv.BIN], input=json.dumps(req) + "\n", capture_output=True, text=True, timeout=SCAN_TIMEOUT)
    except subprocess.TimeoutExpired:
        return {"hang": True, "secs": time.time() - t0}
    line = p.stdout.strip().split("\n")[-1] if p.stdout.strip() else ""
    if not line:
        return {"died": p.returncode}
    r = json.loads(line)
    r["secs"] = time.time() - t0
    return r


def bisect(req, key):
    """Find one item of an explicit item list that makes the driver hang/die."""
    items = req.get("items")
    if not items:
        return None
    lo = list(items)
    while len(lo) > 1:
        half = lo[:len(lo) // 2]
        r = run_scan(dict(req, items=half, lcg=None))
        lo = half if key in r else lo[len(lo) // 2:]
    return lo[0]


def lcg_items(seed, count, nbytes, big, mask=0xffffffff, fixed=0):
    """Python twin of the driver's generator, used only to bisect a failing chunk."""
    out = []
    x = seed
    for _ in range(count):
        v = b""
        while len(v) < nbytes:
            x = (x * 6364136223846793005 + 1442695040888963407) & (2**64 - 1)
            w = ((x >> 32) & mask) | fixed
            v += w.to_bytes(4, "big" if big else "little")
        out.append(v[:nbytes].hex())
    return out


def work(task):
    req = task["req"]
    r = run_scan(req)
    if "hang" in r or "died" in r:
        key = "hang" if "hang" in r else "died"
        if req.get("lcg"):
            g = req["lcg"]
            req2 = dict(req, lcg=None, items=lcg_items(g["seed"], g["count"], g.get("nbytes", 4), g.get("big", False), g.get("mask", 0xffffffff), g.get("fixed", 0)))
        else:
            req2 = req
        r["culprit"] = bisect(req2, key)
    r["task"] = task["label"]
    r["arch"] = req["arch"]
    return r


def structured(arch, tier, rnd):
    """Hand-built and check-shared corpora: every encoding the semantic checks use, all of its
    proper prefixes (truncation), and hostile strings."""
    out = []
    if arch in ("x86", "amd64"):
        from checks import c01
        its = c01.build_items(64 if arch == "amd64" else 32, tier, random.Random(5))
        for it in its:
            b = it["bytes"]
            out.append(b)
            for n in range(2, len(b), 2):
                out.append(b[:n])
            out.append(b + "c3")
            out.append(b + b)
        for pre in ("66", "67", "f2", "f3", "f0", "2e", "64", "65", "40", "48", "4f"):
            for n in (1, 2, 3, 7, 14, 15, 16):
                for tail in ("90", "c3", "01c8", "a4", "ab", "e800000000", "ff", "0f", ""):
                    out.append(pre * n + tail)
        for b in ("", "00", "ff", "0f", "0f0f", "0fff", "c4", "c5", "62", "d6", "f1", "cc", "cd80", "0f05", "0f34", "f4", "ea", "9a", "c8", "0f0b", "d9", "dbe3", "0f01", "0fc7", "8f", "8e", "8c"):
            out.append(b)
            out.append(b + "00" * 15)
            out.append(b + "ff" * 15)
    else:
        if arch.startswith("mips"):
            from checks import c02
            its = [i for i in c02.mips_items(tier, random.Random(5)) if i["arch"] == arch]
        elif arch == "ppc":
            from checks import c02
            its = c02.ppc_items(tier)
        else:
            from checks import c03
            its = [i for i in c03.items_for(tier) if i["arch"] == arch]
        for it in its:
            b = it["bytes"]
            out.append(b)
            out.append(b[:8])             # a branch without its delay slot
            for n in (2, 4, 6):
                out.append(b[:n])
            out.append(b + b)
            out.append(b + "00000000")
        out += ["", "00", "0000", "000000", "ffffffff", "00000000", "ffffffff" * 4, "00000000" * 4]
    return sorted(set(out))


def tasks_for(tier, seed):
    T = tier == "thorough"
    tasks = []
    rnd = random.Random(seed * 977 + 3)
    scale = int(os.environ.get("C05_SCALE", "16" if T else "1"))
    for arch, big, bits in ARCHS:
        top = (1 << bits) - 4
        x86 = arch in ("x86", "amd64")
        st = structured(arch, tier, rnd)
        for intr in (False, True):
            base = {"cmd": "scan", "arch": arch, "intrinsics": intr, "blockify": True}
            for ci in range(0, len(st), 4000):
                tasks.append({"label": f"{arch}/intr={int(intr)}/structured[{ci}]", "req": dict(base, address=0x400100, items=st[ci:ci + 4000])})
            # hostile addresses on a slice of the structured corpus
            for addr in (0, top, (1 << bits) - 1, 1 << 63 if bits == 64 else 0x7ffffffe):
                tasks.append({"label": f"{arch}/intr={int(intr)}/structured@{addr:#x}", "req": dict(base, address=addr, items=st[::7][:3000]), "hostile_addr": True})
            # random byte strings
            chunks = (3 if x86 else 4) * scale
            per = 100000 if x86 else 250000
            for c in range(chunks):
                s = (seed * 1000003 + c * 7919 + (1 if intr else 0) * 104729 + sum(map(ord, arch))) & 0xffffffff
                nb = (15, 16, 6, 3)[c % 4] if x86 else (4, 4, 8, 4)[c % 4]
                tasks.append({"label": f"{arch}/intr={int(intr)}/lcg[{c}]x{nb}", "req": dict(base, address=(0x400100, 0x1000, 0x7fff0000, 0x400100)[c % 4], blockify=(c % 2 == 0),
                              lcg={"seed": s, "count": per, "nbytes": nb, "big": big})})
            if x86:
                # opcode sweep: every one- and two-byte opcode x every ModRM byte under each width-changing prefix
                tails = ("0102030405060708", "24f0e0d0c0b0a090")
                pres = ["", "66", "67", "f3", "f2", "6667", "67f3", "67f2", "66f3", "66f2", "f367", "f267", "6667f3", "2ef3", "f0"] + (["48", "41", "6648", "4f", "f348", "f248", "67f348", "67f248", "66f348"] if arch == "amd64" else [])
                for pre in pres:
                    for esc in ("", "0f"):
                        its = [f"{pre}{esc}{op:02x}{modrm:02x}{tails[(op + modrm) & 1]}" for op in range(256) for modrm in (range(256) if (T or pre in ("", "66", "67")) else range(0, 256, 9))]
                        tasks.append({"label": f"{arch}/intr={int(intr)}/opsweep[{pre}|{esc}]", "req": dict(base, address=0x400100, blockify=False, items=its)})
            if not x86:
                # field sweeps: fix the major-opcode bits to every value, randomise the rest
                shift, nvals = (26, 64) if not arch.startswith("aarch64") else (24, 256)
                per2 = (4000 if not T else 40000)
                for v0 in range(0, nvals, 16):
                    tasks.append({"label": f"{arch}/intr={int(intr)}/sweep[{v0}]", "multi": [dict(base, address=0x400100, blockify=False,
                                  lcg={"seed": (seed * 31 + v * 17 + 5) & 0xffffffff, "count": per2, "nbytes": 4, "big": big,
                                       "mask": (1 << shift) - 1 if shift == 26 else 0x00ffffff, "fixed": (v << shift) & 0xffffffff}) for v in range(v0, v0 + 16)]})
    return tasks


def work_any(task):
    if "multi" in task:
        rs = [work({"label": task["label"], "req": rq}) for rq in task["multi"]]
        return rs
    return [work(task)]


# ---------------------------------------------------------------- solver half --

def alpha(gs):
    """Rename scalars by first occurrence (keeps distinct names distinct): guard sets that differ
    only in register names are one query."""
    names = {}

    def ren(e):
        if e is None:
            return None
        if e[0] == "scalar":
            k = (e[1], e[2])
            if k not in names:
                names[k] = f"v{len(names)}"
            return ["scalar", names[k], e[2], None]
        if e[0] == "const":
            return e
        return [e[0]] + [ren(x) if isinstance(x, list) else x for x in e[1:]]
    return [ren(g) for g in gs]


def decide_guards(gs, timeout_ms):
    """exactly one guard true for every valuation?  -> (verdict, model dict or None, secs)"""
    ctx = il2smt.Ctx(endian="little")
    st = il2smt.initial_state(ctx)
    terms = []
    for g in gs:
        if g is None:
            terms.append(z3.BoolVal(True))
        else:
            v = il2smt.ev(ctx, st, g)
            if v.size() != 1:
                return "illsorted", None, 0.0
            terms.append(v == 1)
    bad = z3.Not(z3.PbEq([(t, 1) for t in terms], 1))
    v, m, dt = solve.check([bad], timeout_ms)
    if v == solve.SAT:
        model = {k: m.eval(v, model_completion=True).as_long() for k, v in ctx.inputs.items()}
        enabled = [bool(z3.is_true(m.eval(t, model_completion=True))) for t in terms]
        return "sat", {"valuation": model, "enabled": enabled}, dt
    return ("unsat" if v == solve.UNSAT else "undecided"), None, dt


def guard_work(item):
    key, gs = item
    try:
        v, m, dt = decide_guards(gs, 20000)
    except il2smt.SortError as e:
        return key, "illsorted", {"error": str(e)}, 0.0
    return key, v, m, dt


def replay_guard(gs, model):
    """Concrete re-evaluation of the guards (python ints) on the solver's valuation."""
    from smt import replay
    cst = replay.CState(endian="little")
    for n, v in model["valuation"].items():
        cst.sc[n] = (v, None)
    en = []
    for g in gs:
        if g is None:
            en.append(True); continue
        # widths: take from the expression
        en.append(replay.ev(fill(cst, g), g)[0] == 1)
    return en


def fill(cst, e):
    if isinstance(e, list):
        if e and e[0] == "scalar":
            v = cst.sc.get(e[1], (0, None))[0]
            cst.sc[e[1]] = (v, e[2])
        else:
            for x in e[1:]:
                if isinstance(x, list): fill(cst, x)
    return cst


def split_role(what):
    if what.endswith("]") and " [" in what:
        i = what.rindex(" [")
        return what[:i], what[i + 2:-1]
    return what, ""


def main():
    drv.build()
    rep = common.Report("C05", "other")
    tasks = tasks_for(rep.tier, rep.seed)
    results = common.pmap(work_any, tasks, chunksize=1)
    tot = {"n": 0, "lifted": 0, "errors": 0}
    guards = {}
    per_arch = {}
    info = {}
    for task, rs in zip(tasks, results):
        if isinstance(rs, dict) and "crash" in rs:
            rep.encoder_defect(f"{task['label']}: {rs['crash']} {rs.get('trace','')[-300:]}"); continue
        for r in rs:
            arch = r.get("arch", "?")
            fam = {"mipsel": "mips", "aarch64eb": "aarch64"}.get(arch, arch)
            if "hang" in r or "died" in r:
                kind = "hang" if "hang" in r else f"abort(rc={r['died']})"
                rep.violation(f"{fam}/{kind}", f"{r['task']}: translate_block {kind} on bytes={r.get('culprit')}", {"task": r["task"], "bytes": r.get("culprit")})
                continue
            if "fatal" in r or "panic" in r or not r.get("ok"):
                rep.encoder_defect(f"{r.get('task')}: driver failure {str(r)[:300]}"); continue
            for k in tot: tot[k] += r[k]
            pa = per_arch.setdefault(arch, {"n": 0, "lifted": 0, "errors": 0, "secs": 0.0})
            for k in ("n", "lifted", "errors"): pa[k] += r[k]
            pa["secs"] += r.get("secs", 0)
            rep.ground["checked"] += r["n"]
            hostile = task.get("hostile_addr", False)
            for p in r["panics"]:
                what, role = split_role(p["what"])
                sig = f"{fam}/panic: {what}/address-at-top-of-space" if (hostile and "overflow" in what) else f"{fam}/panic: {what} [{role}]"
                rep.ground["failed"] += p["count"]
                rep.violation(sig, f"{r['task']}: translate_block panics ({what}) on {p['count']} input(s), e.g. bytes={p['example']}", {"arch": arch, "bytes": p["example"], "task": r["task"], "what": p["what"]})
            for p in r["bad"]:
                what, role = split_role(p["what"])
                if what.startswith("assign:"):
                    import re
                    w2 = re.sub(r"into (?:[re]?[abcd]x|[re]?[sd]i|[re]?[sb]p|r#[dwb]?|[abcd][lh]|[sd]il|[sb]pl):", "into gpr:", what)
                    w2 = re.sub(r"into [cdefgs]s_base:", "into sreg_base:", w2)
                    sig = f"{fam}/{w2} [{role.split(':')[-1].split('/')[0]}]"
                else:
                    sig = f"{fam}/{what} [{role}]"
                rep.ground["failed"] += p["count"]
                rep.violation(sig, f"{r['task']}: ill-formed IL ({what}; opcode role {role}) on {p['count']} input(s), e.g. {p['example']}", {"arch": arch, "example": p["example"], "task": r["task"], "what": p["what"]})
            for p in r["info"]:
                what, role = split_role(p["what"])
                info[f"{fam}/{what}"] = info.get(f"{fam}/{what}", 0) + p["count"]
            for gs, gex in r["guards"]:
                a = alpha(gs)
                k = json.dumps(a)
                if k not in guards:
                    guards[k] = (a, arch, gs, gex)
    # ---- solver half
    items = [(k, v[0]) for k, v in guards.items()]
    gres = common.pmap(guard_work, items, chunksize=8) if items else []
    for res in gres:
        if isinstance(res, dict) and "crash" in res:
            rep.encoder_defect(f"guard query: {res['crash']}"); continue
        k, v, m, dt = res
        a, arch, orig, gex = guards[k]
        fam = {"mipsel": "mips", "aarch64eb": "aarch64"}.get(arch, arch)
        rep.solver_s += dt
        if v == "unsat":
            rep.count("unsat")
            rep.sample({"arch": arch, "guards": orig, "verdict": "unsat: exactly one guard holds for every valuation"}, cap=6)
        elif v == "undecided":
            rep.count("undecided"); rep.undecided.append(f"{arch}: guard set {json.dumps(orig)[:200]}")
        elif v == "illsorted":
            rep.count("sat")
            rep.violation(f"{fam}/guard ill-sorted", f"{arch}: bytes={gex}: guard set not 1-bit / ill-sorted: {json.dumps(orig)[:300]}", {"arch": arch, "bytes": gex, "guards": orig})
        else:
            rep.count("sat")
            en = replay_guard(a, m)
            if en != m["enabled"] or sum(en) == 1:
                rep.encoder_defect(f"guard model does not reproduce: {arch} {json.dumps(orig)[:200]} {m}"); continue
            n_en = sum(en)
            shape = f"{len(a)} guards, {n_en} enabled"
            rep.violation(f"{fam}/edges: {shape}", f"{arch}: bytes={gex}: guards {json.dumps(orig)[:300]}: {n_en} of {len(a)} edges enabled under {m['valuation']}", {"arch": arch, "bytes": gex, "guards": orig, "model": m})
    rep.extra["per_arch"] = per_arch
    rep.extra["address_width_notes"] = info
    rep.extra["distinct_guard_sets"] = len(items)
    rep.functions_encoded = ["guards of il::Edge conditions and BlockTranslationResult::successors emitted by translator::{x86,mips,ppc,aarch64}::translate_block (encoded per distinct alpha-normalised set)",
                             "ground: translate_block + BlockTranslationResult::blockify under catch_unwind, sort rules of lib/il/expression.rs re-implemented in driver/src/cmds4.rs"]
    rep.bounds = {"byte_strings": tot["n"], "lifted": tot["lifted"], "errors_returned": tot["errors"], "per_task_timeout_s": SCAN_TIMEOUT,
                  "outside": "byte strings not generated (the 2^32 words of each fixed-width ISA are sampled: uniform LCG streams plus a sweep that fixes the major-opcode field to every value; x86 strings are random 3..16-byte strings, every encoding of the C01 corpus with all its truncations, and prefix-stuffed strings); load addresses other than 0x400100, 0x1000, 0x7fff0000, 0, top-of-space; guard determinism is decided for every valuation of the scalars in the guards, treating them as independent inputs"}
    rep.finish({"programs": tot["n"], "disagreements_checked": rep.queries.get("sat", 0),
                "explanation": "solver: one query per distinct guard set (all valuations). ground: every generated byte string lifted by the real translators under catch_unwind and sort-checked"},
               assumptions=["load/store/branch-target address widths other than the word size are recorded as notes, not violations: the IL does not require them (executor converts any width <= 64)",
                            "a panic that is an arithmetic overflow exists only in builds with overflow checks (the driver is built in the dev profile, as `cargo test` is)"])


if __name__ == "__main__":
    main()
