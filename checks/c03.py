#!/usr/bin/env python3
"""C03 - the AArch64 lifter agrees with the Arm ARM for the instruction classes it accepts.

Per generated word: lift with the real translator, encode the IL with il2smt, compare with the
reference interpreter of specs/a64.py (decodes the raw word itself) for ALL register/flag/memory
states (z3)."""
import sys, os, random, json
sys.path.insert(0, os.path.dirname(os.path.dirname(os.path.abspath(__file__))))
import z3
from checks import common, liftcheck, c02
from smt import drv
from specs import a64 as AS

ADDR = 0x400100
OBS = {f"x{i}" for i in range(31)} | {"sp", "n", "z", "c", "v"}


def items_for(tier, seed=0):
    items = []
    T = tier == "thorough"
    ws = AS.words(T, random.Random(seed * 7919 + 17), 400 if not T else 3000)
    for arch in ("aarch64", "aarch64eb"):
        for lab, w in ws:
            mn = lab.split()[0]
            if arch == "aarch64eb" and not T and not (mn.startswith(("ldst", "pair", "ldar", "stlur"))):
                continue        # only data accesses depend on the data endianness
            items.append({"arch": arch, "endian": "big" if arch == "aarch64eb" else "little", "bytes": w.to_bytes(4, "little").hex(), "address": ADDR, "words": [w],
                          "label": f"{arch}: {lab} ({w:#010x})", "mn": mn.split(".")[0] if not mn.startswith(("ldst", "pair", "ldar")) else mn, "kind": "plain", "lab": lab,
                          # translate_block does not count a terminating instruction in BlockTranslationResult::length (observed; outside C03's statement)
                          "skip_shape": mn.split(".")[0] in ("b", "br", "ret", "cbz", "cbnz", "tbz", "tbnz")})
    return items


def specfn(ctx, item, lift):
    so = liftcheck.SpecOut()
    try:
        st, out = AS.spec(item["words"][0], item["address"], ctx.input, ctx.mem0, item["endian"])
    except AS.Unsupported as e:
        raise NotImplementedError(str(e))
    so.regs.update(st.regs); so.mem = st.mem; so.next_pc = out.next_pc
    so.assume = out.assume; so.undef = out.undef; so.intrinsic = out.intrinsic; so.accessed = st.accessed
    so.classes = out.classes
    return so


def work(item):
    r = liftcheck.analyse(item["arch"], item["endian"], item, specfn, k=8,
                          timeout_ms=int(os.environ.get("VERIF_QUERY_MS", "12000" if common.tier() == "quick" else "60000")),
                          observables=lambda n: n in OBS, k_is_bound=True, flag_names=("n", "z", "c", "v"),
                          groupfn=lambda n: f"flag-{n}" if n in ("n", "z", "c", "v") else None)
    r["mn"] = item["mn"]
    return r


def role(item):
    """Role of the word: mnemonic class plus the structural facts findings depend on (register-31 use, aliasing, width)."""
    w = item["words"][0]
    rd, rn, rm = w & 31, (w >> 5) & 31, (w >> 16) & 31
    facts = []
    lab = item["lab"]
    mn = item["mn"]
    if mn in ("add", "adds", "sub", "subs"):
        form = "imm" if (w >> 24) & 0x1f == 0b10001 else ("ext" if (w >> 21) & 1 else "shift")
        facts.append(form)
        facts.append("x" if w >> 31 else "w")
        if rd != 31 and (rd == rn or (form != "imm" and rd == rm)): facts.append("rd-aliases-src")
    elif mn.startswith(("ldst", "pair", "ldar", "stlur")):
        if rd == 31: facts.append("rt31")
        if rn == 31: facts.append("rn31")
        if rd == rn: facts.append("rt=rn")
        if mn.startswith("pair"):
            rt2 = (w >> 10) & 31
            if rt2 == 31: facts.append("rt2-31")
            if rt2 == rn: facts.append("rt2=rn")
            if rt2 == rd: facts.append("rt=rt2")
        if mn.startswith("ldst"):
            if (w >> 24) & 1: facts.append("uoff")
            elif (w >> 21) & 1: facts.append(f"regoff-opt{(w >> 13) & 7}-S{(w >> 12) & 1}")
            else: facts.append(f"k{(w >> 10) & 3}")
    else:
        if rd == 31: facts.append("rd31")
        if mn in ("mov",):
            facts.append("x" if w >> 31 else "w")
            if "bitmask" in lab: facts.append("bitmask")
            elif rm == 31: facts.append("rm31")
        if mn in ("br", "blr", "ret", "cbz", "cbnz", "tbz", "tbnz") and (rn == 31 or (mn[0] in "ct" and rd == 31)): facts.append("r31")
        if mn in ("cbz", "cbnz"): facts.append("x" if w >> 31 else "w")
        if mn == "blr" and rn == 30: facts.append("rn30")
    return f"{mn}[{','.join(facts)}]"


def sig_of(item, f=None, status=None):
    base = f"{item['arch']}/{role(item)}" if item["mn"].startswith(("ldst", "pair", "ldar", "stlur")) else f"a64/{role(item)}"
    if f is not None:
        return f"{base}/{f['class']}/{f['group']}"
    return f"{base}/{status}"


def main():
    drv.build()
    rep = common.Report("C03", "translation_validation")
    items = items_for(rep.tier, rep.seed)
    results = common.pmap(work, items, chunksize=8)
    counts = {}
    for it, r in zip(items, results):
        if "crash" in r:
            rep.encoder_defect(f"{it['label']}: {r['crash']} {r.get('trace','')[-300:]}"); continue
        st = r["status"]; counts[st] = counts.get(st, 0) + 1
        rep.solver_s += r.get("solver_s", 0.0)
        if st == "unsat":
            rep.count("unsat")
            rep.sample({"bytes": it["bytes"], "label": it["label"], "verdict": "unsat: IL == reference for every state"}, cap=6)
        elif st == "undecided":
            rep.count("undecided"); rep.undecided.append(f"{it['label']} ({r.get('detail','')})")
        elif st in ("rejected", "nospec", "intrinsic-ok", "vacuous"):
            rep.ground["checked"] += 1
            if st == "rejected":
                rep.extra.setdefault("rejected", {}).setdefault(it["mn"], 0)
                rep.extra["rejected"][it["mn"]] += 1
        elif st == "mismatch":
            rep.extra.setdefault("shape_mismatch", []).append(f"{it['label']}: {r['detail']}")
        elif st == "sat" and r.get("findings"):
            rep.count("sat")
            for f in r["findings"]:
                ok, note = c02.concrete_confirm(it, r, f)
                what = f"{it['label']} bytes={it['bytes']}: differs in {f['diffs']} (class {f['class']}); {note}"
                if ok is False:
                    rep.encoder_defect("model does not reproduce: " + what); continue
                rep.violation(sig_of(it, f), what, {"item": it, "finding": f})
        else:
            rep.count("sat")
            d0 = (r.get("diffs") or [st])[0]
            rep.violation(sig_of(it, None, d0 if st == "sat" else st), f"{it['label']} bytes={it['bytes']}: {st} {r.get('diffs','')} {r.get('detail','')}", {"item": it, "result": {k: v for k, v in r.items() if k != 'model'}})
    rep.extra["status_counts"] = counts
    rep.functions_encoded = ["translator::aarch64::{AArch64,AArch64Eb}::translate_block and translator::aarch64::semantics::* (run concretely per word; output IL encoded)"]
    rep.bounds = {"words": len(items), "outside": "words not generated; SIMD/FP, system, atomics, exclusive monitors (LDAR/STLR ordering is not an IL-visible effect); CONSTRAINED UNPREDICTABLE encodings (writeback with base in the transfer list, LDP Rt==Rt2) are skipped"}
    rep.finish({"programs": max(1, len(items)), "disagreements_checked": counts.get("sat", 0),
                "explanation": "one solver query per generated word: all registers, flags and memory symbolic"},
               assumptions=["specs/a64.py is my reading of the Arm ARM pseudocode (no hardware oracle for this ISA in the sandbox); counterexamples are reported only after concrete replay of the lifted IL"])


if __name__ == "__main__":
    main()
