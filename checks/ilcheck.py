"""Shared helpers for the IL-function properties (C09-C15, C17): corpora, driver calls, replay."""
import os, sys, random, json
import z3
from smt import drv, il2smt, fbmc, solve, replay
from gen import ilgen


def strip_meta(f):
    if "_send" in f:
        return f["_send"]
    out = {"address": f["address"], "cfg": f["cfg"]}
    if "remove" in f:
        out["remove"] = f["remove"]
    return out


def view(f):
    """If the function carries post-construction edits ("remove"), return the function as falcon
    sees it (emitted back, with non-dense instruction indices); commands keep receiving the recipe."""
    if "remove" not in f:
        return f
    r = drv.call({"cmd": "roundtrip", "function": strip_meta(f)})
    if "fatal" in r:
        raise RuntimeError(r["fatal"])
    g = r["function"]
    g["meta"] = f.get("meta")
    g["_send"] = strip_meta(f)
    return g


def call_fn(cmd, f, **kw):
    req = {"cmd": cmd, "function": strip_meta(f)}
    req.update(kw)
    r = drv.call(req)
    if "fatal" in r:
        raise RuntimeError(f"driver rejected the request: {r['fatal']}")
    return r


def normalize(f):
    """Renumber blocks 0..n-1 and instruction indices 0..m-1 (the reader builds graphs through
    ControlFlowGraph::new_block / Block::assign.., which hand out indices in order)."""
    cfg = f["cfg"]
    bmap = {b["index"]: i for i, b in enumerate(cfg["blocks"])}
    blocks = []
    for b in cfg["blocks"]:
        ins = [dict(x, index=j) for j, x in enumerate(b["instructions"])]
        phis = []
        for p in b.get("phis", []):
            phis.append({"out": p["out"], "entry": p.get("entry"), "incoming": [[bmap[bi], s] for bi, s in p["incoming"] if bi in bmap]})
        blocks.append({"index": bmap[b["index"]], "instructions": ins, "phis": phis})
    edges = [{"head": bmap[e["head"]], "tail": bmap[e["tail"]], "cond": e["cond"]} for e in cfg["edges"]]
    out = {"address": f["address"], "cfg": {"entry": bmap.get(cfg.get("entry")), "exit": bmap.get(cfg.get("exit")), "blocks": blocks, "edges": edges}}
    if "meta" in f:
        out["meta"] = f["meta"]
    return out


def model_inputs(ctx, m):
    """(scalars dict name->[val,bits], mem_read callback) from a model over ctx inputs."""
    sc = {}
    for k, v in ctx.inputs.items():
        sc[k] = [solve.model_val(m, v), v.size()]

    def mem_read(a):
        return solve.model_val(m, z3.Select(ctx.mem0, z3.BitVecVal(a & ((1 << 64) - 1), 64)))
    # values the model gives to what declared intrinsics write (consumed by replay.py through CState.havoc)
    mem_read.havoc = {k: solve.model_val(m, v) for k, v in getattr(ctx, "havocs", {}).items()} if getattr(ctx, "intrinsic_havoc", False) else None
    return sc, mem_read


def concrete_run(f, scalars, mem_read, max_steps=400, ssa=False, phi=False, endian="little"):
    """Run a function concretely with replay.py. Returns (CState, ending)."""
    st = replay.CState({k: (v[0], v[1]) for k, v in scalars.items()}, mem_read=mem_read, endian=endian, ssa=ssa)
    st.havoc = getattr(mem_read, "havoc", None)
    try:
        ending = replay.run_cfg(st, f["cfg"], max_steps=max_steps, stop_at_exit=False, phi=phi)
    except replay.Fault as e:
        ending = ("fault", e.kind)
    return st, ending


def real_exec(f, scalars, mem_bytes, steps, report, watch=(), arch="amd64", endian="little"):
    """Run through falcon's real executor::Driver."""
    return drv.call({"cmd": "exec", "function": strip_meta(f), "arch": arch, "endian": endian,
                     "scalars": {k: [str(v[0]), v[1]] for k, v in scalars.items()},
                     "mem": [[a, b] for a, b in mem_bytes.items()], "steps": steps,
                     "report": list(report), "watch": list(watch)})


def touched_memory(cst):
    return dict(cst.mem)


def k_for(f, tier):
    la = fbmc.longest_acyclic(f["cfg"])
    return (3 if tier == "quick" else 6) * max(la, 2)


def lifted_corpus(tier):
    """IL functions lifted by falcon itself from small machine-code programs (amd64 / x86)."""
    progs = []
    # amd64: prologue/epilogue, loop with dec/jnz, diamond on cmp
    progs.append(("amd64", "554889e54883ec10c745fc0000000048c7c003000000ffc883f80075f9c9c3"))
    progs.append(("amd64", "4839d8740548ffc0eb0348ffc34801d8c3"))
    progs.append(("amd64", "50534883ec084889e04883c4085b58c3"))
    progs.append(("x86", "5589e583ec08b9030000004975fdc9c3"))
    progs.append(("x86", "39d8740340eb01434801d8c3"[:22] + "c3"))
    out = []
    for arch, hx in progs:
        r = drv.call({"cmd": "liftfn", "arch": arch, "segments": [[0x1000, hx]], "entry": 0x1000})
        if r.get("ok"):
            f = normalize(r["function"])
            f["meta"] = {"skeleton": "lifted:" + arch, "profile": "lifted", "id": hx[:12], "arch": arch}
            out.append(f)
    return out
