#!/usr/bin/env python3
"""C16 - backing memory is a permissioned byte map under overlapping writes.

Engine B, one inductive step: the MIR of backing::Memory::set_memory (and get8, permissions,
get32, set32, get) is executed symbolically from an ARBITRARY valid pre-state (n <= 3 sections
with symbolic keys, lengths, contents and permissions, constrained only by the representation
invariant sorted + disjoint) and arbitrary arguments.  z3 decides per path: no panic, invariant
re-established, and for a fresh address q: byte/permission/mappedness = the byte-map model."""
import sys, os, random, json, time, re
sys.path.insert(0, os.path.dirname(os.path.dirname(os.path.abspath(__file__))))
import z3
from checks import common
from smt import drv, solve
from mirsym import interp as I, models as M, containers as K, dump

IMPL = "backing::<impl at lib/memory/backing.rs:64:1: 64:12>::"
MAXLEN = 1 << 16
_prog = None


def program():
    global _prog
    if _prog is None:
        path, _ = dump.mir_path()
        want = lambda n: ("lib/memory/backing.rs" in n and "serialize" not in n) or n.startswith(("backing::", "constant::", "executor::eval", "expression::", "il::", "const backing::", "const constant::", "const expression::", "const il::", "const executor::"))
        _prog = I.Program(path, "/repo/lib", want)
    return _prog


def find(prog, meth):
    c = [n for n in prog.raw if re.search(r"^backing::<impl at lib/memory/backing\.rs:\d+:1: \d+:12>::" + meth + "$", n)]
    if len(c) != 1:
        raise RuntimeError(f"cannot locate backing::Memory::{meth}: {c}")
    return c[0]


def bv(n, w=64): return z3.BitVecVal(n, w)


class Pre:
    """Symbolic valid pre-state with n sections."""

    def __init__(self, n, endian):
        self.n = n
        self.keys = [z3.BitVec(f"k{i}", 64) for i in range(n)]
        self.lens = [z3.BitVec(f"l{i}", 64) for i in range(n)]
        self.arrs = [z3.Array(f"d{i}", z3.BitVecSort(64), z3.BitVecSort(8)) for i in range(n)]
        self.perms = [z3.BitVec(f"p{i}", 32) for i in range(n)]
        self.endian = endian
        inv = []
        for i in range(n):
            inv += [z3.ULT(self.keys[i], bv(1 << 62)), z3.ULE(self.lens[i], bv(MAXLEN))]
            if i + 1 < n:
                inv.append(z3.ULE(self.keys[i] + self.lens[i], self.keys[i + 1]))
                inv.append(z3.ULT(self.keys[i], self.keys[i + 1]))        # BTreeMap keys are distinct
        self.inv = z3.And(*inv) if inv else z3.BoolVal(True)

    def memory(self, prog):
        entries = []
        for i in range(self.n):
            sec = I.Agg("struct", "Section", [K.ByteVec(self.lens[i], self.arrs[i]), I.Agg("struct", "MemoryPermissions", [self.perms[i]])])
            entries.append([self.keys[i], sec])
        en = prog.enums["Endian"]
        return I.Agg("struct", "Memory", [I.Agg("enum", "Endian", [], en.index("Big" if self.endian == "big" else "Little")), K.MapVal(entries)])

    def abstract(self):
        return [(self.keys[i], self.lens[i], self.arrs[i], bv(0), self.perms[i]) for i in range(self.n)]


def abstract_of(mem):
    out = []
    for k, sec in mem.fields[1].entries:
        d = sec.fields[0]
        out.append((k, d.len, d.arr, d.off, sec.fields[1].fields[0]))
    return out


def mapped(ab, q):
    return z3.Or(*[z3.And(z3.ULE(k, q), z3.ULT(q - k, ln)) for k, ln, _, _, _ in ab]) if ab else z3.BoolVal(False)


def byte_at(ab, q):
    v = bv(0, 8)
    for k, ln, arr, off, _ in reversed(ab):
        v = z3.If(z3.And(z3.ULE(k, q), z3.ULT(q - k, ln)), z3.Select(arr, off + (q - k)), v)
    return v


def perm_at(ab, q):
    v = bv(0, 32)
    for k, ln, _, _, p in reversed(ab):
        v = z3.If(z3.And(z3.ULE(k, q), z3.ULT(q - k, ln)), p, v)
    return v


def disjoint(ab):
    cs = []
    for i in range(len(ab)):
        ki, li = ab[i][0], ab[i][1]
        cs.append(z3.ULE(li, bv(1 << 62)))
        cs.append(z3.ULE(ki, ki + li))                 # no wrap
        for j in range(i + 1, len(ab)):
            kj, lj = ab[j][0], ab[j][1]
            cs.append(z3.Or(z3.ULE(ki + li, kj), z3.ULE(kj + lj, ki), li == 0, lj == 0))
            cs.append(ki != kj)
    return z3.And(*cs) if cs else z3.BoolVal(True)


def interp_for(prog):
    it = I.Interp(prog, W=200, models=K.CONTAINER_MODELS + M.MODELS, timeout_ms=20000)
    it.div_mode = "exact"
    return it


VALIDATE_CAP = 16


def check_set_memory(item):
    n, endian = item["n"], item["endian"]
    prog = program()
    fn = find(prog, "set_memory")
    pre = Pre(n, endian)
    addr = z3.BitVec("addr", 64); dlen = z3.BitVec("dlen", 64); darr = z3.Array("data", z3.BitVecSort(64), z3.BitVecSort(8)); nperm = z3.BitVec("nperm", 32)
    assume = z3.And(pre.inv, z3.ULT(addr, bv(1 << 62)), z3.ULE(dlen, bv(MAXLEN)))
    holder = {}

    def mk(it):
        it.solver.add(assume); it.pc.append(assume)
        mem = pre.memory(prog)
        holder["mem"] = mem
        return [I.ValRef(mem), addr, K.ByteVec(dlen, darr), I.Agg("struct", "MemoryPermissions", [nperm])]
    q = z3.BitVec("q", 64)
    pre_ab = pre.abstract()
    innew = z3.And(z3.ULE(addr, q), z3.ULT(q - addr, dlen))
    exp_mapped = z3.Or(innew, mapped(pre_ab, q))
    exp_byte = z3.If(innew, z3.Select(darr, q - addr), byte_at(pre_ab, q))
    exp_perm = z3.If(innew, nperm, perm_at(pre_ab, q))
    out = {"what": f"set_memory n={n} {endian}", "paths": 0, "unsat": 0, "findings": [], "undecided": [], "solver_s": 0.0, "fn": fn, "hash": prog.func(fn).text_hash, "calls": set(), "validated": 0, "validation_failures": []}
    it = interp_for(prog)
    for r in I.explore(it, fn, mk, max_paths=3000):
        out["paths"] += 1; out["calls"] |= set(r["calls"])
        pc = r["pc"]
        if r["outcome"] == "unsupported":
            out["undecided"].append("unsupported: " + r["msg"][:140]); continue
        if r["outcome"] == "panic":
            v, m, dt = solve.check(pc, 30000); out["solver_s"] += dt
            if v == solve.SAT:
                out["findings"].append({"kind": "panic", "detail": r["msg"][:100], "model": dump_model(m, pre, addr, dlen, darr, nperm, None)})
            elif v == solve.UNDECIDED: out["undecided"].append("panic feasibility")
            continue
        mem = holder["mem"]
        post = abstract_of(mem)
        # (b) invariant re-established
        v, m, dt = solve.check(pc + [z3.Not(disjoint(post))], 60000); out["solver_s"] += dt
        if v == solve.SAT:
            out["findings"].append({"kind": "invariant", "detail": "sections overlap or a key is duplicated after set_memory", "model": dump_model(m, pre, addr, dlen, darr, nperm, None)})
        elif v == solve.UNDECIDED: out["undecided"].append("invariant query")
        else: out["unsat"] += 1
        # (c) byte map
        diff = z3.Or(mapped(post, q) != exp_mapped, z3.And(exp_mapped, z3.Or(byte_at(post, q) != exp_byte, perm_at(post, q) != exp_perm)))
        v, m, dt = solve.check(pc + [diff], 60000); out["solver_s"] += dt
        if v == solve.SAT:
            qv = solve.model_val(m, q)
            role = "empty region written at the key of an existing section" if solve.model_val(m, dlen) == 0 else "byte map differs"
            out["findings"].append({"kind": "bytemap", "role": role, "detail": f"at q={qv:#x}: mapped {z3.is_true(m.eval(mapped(post, q), model_completion=True))} (expected {z3.is_true(m.eval(exp_mapped, model_completion=True))}), "
                                                                              f"byte {solve.model_val(m, byte_at(post, q)):#x} (expected {solve.model_val(m, exp_byte):#x})",
                                    "model": dump_model(m, pre, addr, dlen, darr, nperm, qv)})
        elif v == solve.UNDECIDED: out["undecided"].append("bytemap query")
        else: out["unsat"] += 1
        # (d) validation of the encoding itself: one solver-chosen concrete state on this path, replayed through the
        #     real set_memory (driver); the real byte map must equal the one the symbolic post-state denotes
        if out["validated"] + len(out["validation_failures"]) < VALIDATE_CAP:
            small = [z3.ULE(dlen, bv(12))] + [z3.And(z3.UGE(l, bv(1)), z3.ULE(l, bv(12))) for l in pre.lens] + [z3.ULT(p_, z3.BitVecVal(8, 32)) for p_ in pre.perms] + [z3.ULT(nperm, z3.BitVecVal(8, 32))]
            v, m, dt = solve.check(pc + small, 20000); out["solver_s"] += dt
            if v == solve.SAT:
                model = dump_model(m, pre, addr, dlen, darr, nperm, None)
                want = {}
                for k, ln, arr, off, pm in post:
                    kv, lv, ov, pv = (solve.model_val(m, x) for x in (k, ln, off, pm))
                    for j in range(min(lv, 64)):
                        want[kv + j] = (solve.model_val(m, z3.Select(arr, bv(ov + j))), pv & 7)
                real = replay_set_memory(model, endian)
                got = {}
                if real and real.get("ok"):
                    for a, hx, pm in real["sections"]:
                        for j, b in enumerate(bytes.fromhex(hx)):
                            got[a + j] = (b, pm & 7)
                if real and real.get("ok") and got == want:
                    out["validated"] += 1
                else:
                    out["validation_failures"].append({"model": model, "expected": sorted(want.items())[:40], "real": (real or {}).get("sections")})
    out["calls"] = sorted(out["calls"])
    return out


def dump_model(m, pre, addr, dlen, darr, nperm, qv):
    secs = []
    for i in range(pre.n):
        k = solve.model_val(m, pre.keys[i]); l = solve.model_val(m, pre.lens[i])
        data = [solve.model_val(m, z3.Select(pre.arrs[i], bv(j))) for j in range(min(l, 24))]
        secs.append([k, l, data, solve.model_val(m, pre.perms[i])])
    d = {"sections": secs}
    if addr is not None:
        a = solve.model_val(m, addr); l = solve.model_val(m, dlen)
        d.update(address=a, length=l, data=[solve.model_val(m, z3.Select(darr, bv(j))) for j in range(min(l, 24))], perm=solve.model_val(m, nperm))
    if qv is not None:
        d["q"] = qv
    return d


def replay_set_memory(model, endian):
    """Rebuild the model through real set_memory calls (driver) and read back."""
    ops = []
    for k, l, data, p in model["sections"]:
        if l > 4096: return None
        ops.append(["set_memory", k, bytes((data + [0] * l)[:l]).hex(), p & 7])
    if model.get("length", 0) > 4096: return None
    ops.append(["set_memory", model["address"], bytes((model["data"] + [0] * model["length"])[:model["length"]]).hex(), model["perm"] & 7])
    probes = [model["q"]] if model.get("q") is not None else []
    for pq in probes:
        ops += [["get8", pq], ["perm", pq]]
    ops.append(["sections"])
    r = drv.call({"cmd": "backing", "endian": endian, "ops": ops})
    return r


def check_reads(item):
    """get8 / permissions / get32 / set32 / get on an arbitrary valid state."""
    n, endian, what = item["n"], item["endian"], item["what"]
    prog = program()
    pre = Pre(n, endian)
    q = z3.BitVec("q", 64)
    ab = pre.abstract()
    assume = z3.And(pre.inv, z3.ULT(q, bv(1 << 62)))
    holder = {}
    bits = item.get("bits", 32)
    val32 = z3.BitVec("val", 32)

    def mk(it):
        it.solver.add(assume); it.pc.append(assume)
        mem = pre.memory(prog); holder["mem"] = mem
        if what == "get": return [I.ValRef(mem), q, bv(bits)]
        if what == "set32": return [I.ValRef(mem), q, val32]
        return [I.ValRef(mem), q]
    fn = find(prog, {"get8": "get8", "permissions": "permissions", "get32": "get32", "set32": "set32", "get": "get"}[what])
    out = {"what": f"{what}{bits if what == 'get' else ''} n={n} {endian}", "paths": 0, "unsat": 0, "findings": [], "undecided": [], "solver_s": 0.0, "fn": fn, "hash": prog.func(fn).text_hash, "calls": set()}
    it = interp_for(prog)

    def assembled(nbytes):
        bs = [byte_at(ab, q + i) for i in range(nbytes)]
        if endian == "little": bs = list(reversed(bs))
        return bs[0] if nbytes == 1 else z3.Concat(*bs)

    def allmapped(nbytes):
        return z3.And(*[mapped(ab, q + i) for i in range(nbytes)])

    def same_section(nbytes):
        return z3.Or(*[z3.And(z3.ULE(k, q), z3.ULE(q - k + nbytes, ln), z3.ULE(bv(nbytes), ln)) for k, ln, _, _, _ in ab]) if ab else z3.BoolVal(False)
    for r in I.explore(it, fn, mk, max_paths=3000):
        out["paths"] += 1; out["calls"] |= set(r["calls"])
        pc = r["pc"]
        if r["outcome"] == "unsupported":
            out["undecided"].append("unsupported: " + r["msg"][:140]); continue
        if r["outcome"] == "panic":
            # set32 is only specified for accesses lying within one region
            v, m, dt = solve.check(pc + ([same_section(4)] if what == "set32" else []), 30000); out["solver_s"] += dt
            if v == solve.SAT:
                role = "panic"
                if what == "get":
                    role = "get runs past a mapped section into unmapped bytes and panics" if not z3.is_true(m.eval(allmapped(bits // 8), model_completion=True)) else "panic"
                if what == "set32" and not z3.is_true(m.eval(mapped(ab, q), model_completion=True)):
                    role = "set32 on an unmapped address panics"
                out["findings"].append({"kind": "panic", "role": role, "detail": r["msg"][:100], "model": dump_model(m, pre, None, None, None, None, solve.model_val(m, q))})
            elif v == solve.UNDECIDED: out["undecided"].append("panic feasibility")
            continue
        res = r["value"]
        if what in ("get8", "permissions"):
            got_some = res.variant == 1
            exp_some = mapped(ab, q)
            if got_some:
                gv = M.val(res.fields[0])
                gv = gv.fields[0] if isinstance(gv, I.Agg) else gv
                want = byte_at(ab, q) if what == "get8" else perm_at(ab, q)
                wrong = z3.Or(z3.Not(exp_some), gv != want)
            else:
                wrong = exp_some
        elif what == "get32":
            got_some = res.variant == 1
            if got_some:
                wrong = z3.Or(z3.Not(allmapped(4)), M.val(res.fields[0]) != assembled(4))
            else:
                wrong = same_section(4)
        elif what == "get":
            got_some = res.variant == 1
            nb = bits // 8
            if got_some:
                c = res.fields[0]
                wrong = z3.Or(z3.Not(allmapped(nb)), z3.Extract(bits - 1, 0, c.fields[0].t) != assembled(nb), c.fields[1] != bv(bits))
            else:
                wrong = allmapped(nb)
        elif what == "set32":
            ok = res.variant == 0
            post = abstract_of(holder["mem"])
            x = z3.BitVec("x", 64)
            inw = z3.And(z3.ULE(q, x), z3.ULT(x - q, bv(4)))
            idx = x - q
            lanes = [z3.Extract(8 * i + 7, 8 * i, val32) for i in range(4)]
            if endian == "big": lanes = list(reversed(lanes))
            wb = lanes[3]
            for i in (2, 1, 0):
                wb = z3.If(idx == i, lanes[i], wb)
            if ok:
                exp_b = z3.If(inw, wb, byte_at(ab, x))
                wrong = z3.Or(z3.Not(same_section(4)), mapped(post, x) != mapped(ab, x), z3.And(mapped(ab, x), z3.Or(byte_at(post, x) != exp_b, perm_at(post, x) != perm_at(ab, x))))
            else:
                wrong = same_section(4)
        v, m, dt = solve.check(pc + [wrong], 60000); out["solver_s"] += dt
        if v == solve.UNSAT: out["unsat"] += 1
        elif v == solve.UNDECIDED: out["undecided"].append("value query")
        else:
            out["findings"].append({"kind": "wrong-result", "role": f"{what} disagrees with the byte map", "detail": f"q={solve.model_val(m, q):#x} result {'Some' if res.variant == 1 else 'None/Err'}",
                                    "model": dump_model(m, pre, None, None, None, None, solve.model_val(m, q))})
    out["calls"] = sorted(out["calls"])
    return out


def work(item):
    return check_set_memory(item) if item["t"] == "set_memory" else check_reads(item)


def main():
    drv.build()
    rep = common.Report("C16", "model_checking")
    path, dt = dump.mir_path()
    rep.extra["mir_dump_seconds"] = round(dt, 1)
    nmax = 2 if rep.tier == "quick" else 3
    items = []
    for endian in ("little", "big"):
        for n in range(0, nmax + 1):
            if endian == "little" or n == nmax:
                items.append({"t": "set_memory", "n": n, "endian": endian})
        for n in range(0, 3):
            for what in ("get8", "permissions", "get32", "set32"):
                items.append({"t": "read", "what": what, "n": n, "endian": endian})
            for bits in ((16, 32) if rep.tier == "quick" else (8, 16, 32, 64)):
                if n <= 2:
                    items.append({"t": "read", "what": "get", "bits": bits, "n": n, "endian": endian})
    results = common.pmap(work, items, chunksize=1)
    fns = {}
    paths = 0
    validated = 0
    for it, r in zip(items, results):
        if "crash" in r:
            rep.encoder_defect(f"{it}: {r['crash']} {r.get('trace','')[-500:]}"); continue
        paths += r["paths"]; rep.solver_s += r["solver_s"]; rep.queries["unsat"] += r["unsat"]
        validated += r.get("validated", 0)
        for vf in r.get("validation_failures", []):
            rep.encoder_defect(f"{r['what']}: real set_memory disagrees with the symbolic post-state on a solver-chosen state: {json.dumps(vf)[:400]}")
        fns[r["fn"]] = r["hash"]
        for c in r["calls"]: fns.setdefault(c, "inlined")
        for u in r["undecided"]:
            rep.count("undecided"); rep.undecided.append(f"{r['what']}: {u}")
            if "unsupported" in u:
                rep.encoder_defect(f"{r['what']}: {u}")
        if r["unsat"] and not r["findings"]:
            rep.sample({"function": r["what"], "paths": r["paths"], "obligations_unsat": r["unsat"]}, cap=8)
        for f in r["findings"]:
            rep.count("sat")
            role = f.get("role") or f["kind"]
            rp = None
            if it["t"] == "set_memory":
                rp = replay_set_memory(f["model"], it["endian"])
            sig = f"backing/{r['what'].split(' ')[0]}/{role}"
            rep.violation(sig, f"{r['what']}: {f['detail']} [pre-state {json.dumps(f['model'])[:300]}]" + (f" real code: {json.dumps(rp)[:200]}" if rp else ""),
                          {"item": it, "finding": f, "real_code": rp})
    rep.functions_encoded = [f"{k} [{v}]" for k, v in sorted(fns.items())][:60]
    rep.bounds = {"pre_state_sections": f"0..{nmax} for set_memory, 0..2 for the reads", "lengths": f"<= {MAXLEN}", "addresses": "< 2^62 (no u64 wrap-around)",
                  "outside": "more than the stated number of pre-existing sections touched by one call; address arithmetic wrapping at 2^64"}
    rep.extra["models"] = [p.pattern for p, _ in K.CONTAINER_MODELS]
    rep.finish({"states": max(1, paths), "transitions": max(1, rep.queries["unsat"] + rep.queries["sat"]), "traces_validated_against_impl": validated + rep.queries["sat"],
                "explanation": "states = MIR paths through set_memory/get8/permissions/get32/set32/get from an arbitrary valid pre-state; transitions = per-path obligations (no panic, invariant, byte-map equality at a fresh address)"},
               assumptions=["std BTreeMap/Vec/iterator calls behave as documented (models in mirsym/containers.py)", "pre-state satisfies sorted + pairwise disjoint; the post-condition re-establishes it (inductive step)"])


if __name__ == "__main__":
    main()
