#!/usr/bin/env python3
"""C17 - stack-pointer offsets hold on every execution, for every architecture.

Real `stack_pointer_offsets(function, architecture)` runs for the seven architectures on lifted
and generated functions; z3 decides, over all executions <= k block-steps from any initial state,
whether the stack pointer after a location can differ from entry value + reported offset."""
import sys, os, random, json
sys.path.insert(0, os.path.dirname(os.path.dirname(os.path.abspath(__file__))))
import z3
from checks import common, ilcheck
from smt import drv, il2smt, fbmc, solve, replay
from gen import ilgen

S, C = ilgen.S, ilgen.C
ARCHS = ["x86", "amd64", "mips", "mipsel", "ppc", "aarch64", "aarch64eb"]

MACHINE = {
    "amd64": ["554889e54883ec10c745fc00000000c9c3", "50534883ec084883c4085b58c3", "4883ec204839d8740448ffc0904883c420c3",
              "554889e54883ec104889ec5dc3", "4883ec084839d874044883ec084883c408c3", "488b2424c3"],
    "x86": ["5589e583ec08c9c3", "505383ec0483c4045b58c3", "83ec1039d87401409083c410c3", "8b2424c3", "5589e583ec1089ec5dc3"],
    "mips": ["27bdffe0afbf001c8fbf001c27bd002003e0000800000000", "27bdfff027bd001003e0000800000000", "8fbd000003e0000800000000"],
    "mipsel": ["e0ffbd271c00bfaf1c00bf8f2000bd270800e00300000000", "f0ffbd271000bd270800e00300000000"],
    "ppc": ["9421fff0382100104e800020", "9421ffe0382100204e800020"],
    "aarch64": ["ff8300d1fd7bbfa9fd7bc1a8ff830091c0035fd6", "ff4300d1ff430091c0035fd6"],
    "aarch64eb": ["ff8300d1fd7bbfa9fd7bc1a8ff830091c0035fd6", "ff4300d1ff430091c0035fd6"],   # instruction fetch is little-endian
}


def extra_sp(spn, spw):
    def f(gen, blocks):
        r = gen.rnd
        w = spw
        b = r.choice(blocks)
        k = r.random()
        if k < 0.2:      # frame-pointer style copy
            b["instructions"].append({"op": ["assign", S(spn, w), S("fp", w)], "address": 0x2200})
        elif k < 0.35:   # loaded
            b["instructions"].append({"op": ["load", S(spn, w), S(spn, w)], "address": 0x2204})
        elif k < 0.5:    # balanced push/pop around
            b["instructions"].insert(0, {"op": ["assign", S(spn, w), ["sub", S(spn, w), C(w // 8, w)]], "address": 0x2208})
            b["instructions"].append({"op": ["assign", S(spn, w), ["add", S(spn, w), C(w // 8, w)]], "address": 0x220c})
        elif k < 0.6:    # aligned
            b["instructions"].append({"op": ["assign", S(spn, w), ["and", S(spn, w), C((1 << w) - 16, w)]], "address": 0x2210})
    return f


def check_one(item):
    f = ilcheck.view(item["f"]); tier = item["tier"]; arch = item["arch"]
    res = {"id": f["meta"], "arch": arch}
    r = ilcheck.call_fn("spoffsets", f, arch=arch)
    entry_has_pred = any(e["tail"] == f["cfg"]["entry"] for e in f["cfg"]["edges"])
    res["entry_has_pred"] = entry_has_pred
    if "panic" in r or "died" in r:
        res.update(status="panic", detail=r.get("panic", str(r))); return res
    if not r.get("ok"):
        res.update(status="error", detail=f"{r.get('kind')}: {r.get('error')}"); return res
    sp = r["sp"]
    table = {tuple(row[0]): row[1] for row in r["table"]}
    nvals = sum(1 for v in table.values() if isinstance(v, int))
    res["values"] = nvals; res["locations"] = len(table)
    if nvals == 0:
        res.update(status="no-values"); return res
    k = ilcheck.k_for(f, tier)
    ctx = il2smt.Ctx(endian=item.get("endian", "little"))
    lane = fbmc.Lane(f["cfg"], ctx)
    viol = []
    spn, spw = sp[1], sp[2]
    sp0 = ctx.input(spn, spw)

    def ob(loc, g, st):
        v = table.get(loc)
        if not isinstance(v, int):
            return
        gg = z3.BoolVal(True) if g is True else g
        cur = st.sc.get(spn, sp0)
        if cur.size() != spw:
            viol.append((f"{loc}: stack pointer width", gg)); return
        viol.append((f"{loc}: sp == entry {v:+d}", z3.And(gg, cur != sp0 + z3.BitVecVal(v & ((1 << spw) - 1), spw))))

    class H(fbmc.Hooks):
        def after(self, b, pos, ins, g, sts, kinds):
            ob(("ins", b, ins[0]["index"]), g, sts[0])

        def edge_taken(self, e, ge, sts):
            ob(("edge", e["head"], e["tail"]), ge, sts[0])

        def empty_block(self, b, g, sts):
            ob(("empty", b), g, sts[0])
    try:
        fbmc.run([lane], k, H())
    except il2smt.SortError as e:
        res.update(status="sorterr", detail=str(e)); return res
    res["k"] = k; res["obligations"] = len(viol)
    v, m, dt = solve.check(list(ctx.c04_assumptions) + [z3.Or(*[c for _, c in viol])], 60000)
    res["solver_s"] = dt
    if v == solve.UNSAT:
        res.update(status="unsat"); return res
    if v == solve.UNDECIDED:
        res.update(status="undecided"); return res
    which = [d for d, c in viol if z3.is_true(m.eval(c, model_completion=True))]
    scm, mem_read = ilcheck.model_inputs(ctx, m)
    ok, note = concrete_confirm(f, table, spn, spw, scm, mem_read, k, ctx.endian)
    res.update(status="sat", which=which[:3], reproduced=ok, note=note, model={"scalars": scm}, function=f)
    return res


def concrete_confirm(f, table, spn, spw, scm, mem_read, k, endian):
    st = replay.CState({kk: (v[0], v[1]) for kk, v in scm.items()}, mem_read=mem_read, endian=endian)
    if spn not in st.sc:
        st.sc[spn] = (0, spw)
    sp0 = st.sc[spn][0]
    blocks = {b["index"]: b for b in f["cfg"]["blocks"]}
    out = {}
    for e in f["cfg"]["edges"]:
        out.setdefault(e["head"], []).append(e)

    def chk(loc):
        v = table.get(loc)
        if isinstance(v, int) and st.sc[spn][0] != (sp0 + v) & ((1 << spw) - 1):
            return f"after {loc} sp = entry {((st.sc[spn][0] - sp0) & ((1 << spw) - 1)):#x} but the analysis reports {v}"
        return None
    b = f["cfg"]["entry"]
    try:
        for step in range(4 * k + 50):
            blk = blocks[b]
            if not blk["instructions"]:
                r = chk(("empty", b))
                if r: return True, r
            for ins in blk["instructions"]:
                kind, _ = replay.exec_op(st, ins["op"])
                r = chk(("ins", b, ins["index"]))
                if r: return True, r
                if kind != "fall":
                    return False, "path ended at " + kind
            nxt = None
            for e in out.get(b, []):
                if e["cond"] is None or replay.ev(st, e["cond"])[0] == 1:
                    nxt = e; break
            if nxt is None:
                return False, "path ended"
            r = chk(("edge", nxt["head"], nxt["tail"]))
            if r: return True, r
            b = nxt["tail"]
    except replay.Fault as e:
        return False, f"fault {e}"
    return False, "no contradiction within the replay bound"


def non_additive(f, spn):
    """True if some assignment to the stack pointer uses it under an operator other than sp +/- constant."""
    def additive(e):
        if e[0] == "scalar" or e[0] == "const":
            return True
        if e[0] in ("add", "sub"):
            l, r_ = e[1], e[2]
            if l[0] == "scalar" and l[1] == spn and r_[0] == "const": return True
            if e[0] == "add" and r_[0] == "scalar" and r_[1] == spn and l[0] == "const": return True
        return spn not in {x[1] for x in il2smt.scalars_of(e)}
    for b in f["cfg"]["blocks"]:
        for ins in b["instructions"]:
            op = ins["op"]
            if op[0] == "assign" and op[1][1] == spn and not additive(op[2]):
                return True
    return False


def main():
    drv.build()
    rep = common.Report("C17", "model_checking")
    n = 40 if rep.tier == "quick" else 300
    items = []
    descr = {}
    for arch in ARCHS:
        a = drv.call({"cmd": "arch", "arch": arch})
        descr[arch] = a
        spn, spw = a["stack_pointer"][1], a["stack_pointer"][2]
        for i, hx in enumerate(MACHINE[arch] if rep.tier == "thorough" else MACHINE[arch][:4]):
            r = drv.call({"cmd": "liftfn", "arch": arch, "segments": [[0x1000, hx]], "entry": 0x1000})
            if r.get("ok"):
                f = ilcheck.normalize(r["function"]); f["meta"] = {"skeleton": "lifted", "profile": arch, "id": hx[:16]}
                items.append({"f": f, "tier": rep.tier, "arch": arch, "endian": a["endian"]})
            else:
                rep.extra.setdefault("not_lifted", []).append(f"{arch} {hx}: {r.get('error', r)}")
        fs = ilgen.corpus(6000 + rep.seed + 13 * ARCHS.index(arch), n, profile="sp", widths=(spw,), sp=(spn, spw), extra=extra_sp(spn, spw))
        for f in fs:
            f["meta"]["arch"] = arch
            items.append({"f": f, "tier": rep.tier, "arch": arch, "endian": a["endian"]})
    results = common.pmap(check_one, items, chunksize=2)
    counts = {}
    states = trans = 0
    for it, r in zip(items, results):
        if "crash" in r:
            rep.encoder_defect(f"{it['f']['meta']}: {r['crash']} {r.get('trace','')[-300:]}"); continue
        st = r["status"]; counts[st] = counts.get(st, 0) + 1
        rep.solver_s += r.get("solver_s", 0)
        states += r.get("locations", 0); trans += r.get("obligations", 0)
        if st == "unsat":
            rep.count("unsat")
            rep.sample({"arch": it["arch"], "function": it["f"]["meta"], "offsets_reported": r["values"], "k": r["k"], "verdict": "unsat"}, cap=7)
        elif st == "no-values":
            rep.ground["checked"] += 1
        elif st == "undecided":
            rep.count("undecided"); rep.undecided.append(str(it["f"]["meta"]))
        elif st in ("error", "panic", "sorterr"):
            rep.ground["checked"] += 1
            if r.get("entry_has_pred") and st == "error":
                rep.extra["errors_with_entry_predecessor"] = rep.extra.get("errors_with_entry_predecessor", 0) + 1
                continue       # completion is only required when the entry block has no incoming edge
            rep.ground["failed"] += 1
            rep.violation(f"sp-offsets/{st}/{it['arch']}", f"{it['arch']} {it['f']['meta']}: {r.get('detail')}", {"function": it["f"], "arch": it["arch"], "result": r})
        elif st == "sat":
            rep.count("sat")
            if not r["reproduced"]:
                rep.encoder_defect(f"model does not reproduce for {it['arch']} {it['f']['meta']}: {r['which']} ({r['note']})"); continue
            role = "wrong-offset"
            if non_additive(r["function"], descr[it["arch"]]["stack_pointer"][1]):
                role = "non-additive update of the stack pointer (and/or/mul/shift of sp) evaluated on the offset"
            rep.violation(f"sp-offsets/{role}", f"{it['arch']} {it['f']['meta']}: {r['note']}",
                          {"function": r["function"], "arch": it["arch"], "model": r["model"], "which": r["which"]})
    rep.extra["status_counts"] = counts
    rep.extra["architectures"] = {a: {"sp": descr[a]["stack_pointer"][1:3], "word": descr[a]["word_size"], "endian": descr[a]["endian"]} for a in ARCHS}
    rep.functions_encoded = ["analysis::stack_pointer_offsets::stack_pointer_offsets x 7 architecture::Architecture objects (run concretely; table checked against all executions <= k)"]
    rep.bounds = {"functions": len(items), "k_block_steps": "3x/6x longest acyclic path"}
    rep.finish({"states": max(1, states), "transitions": max(1, trans), "traces_validated_against_impl": counts.get("sat", 0),
                "explanation": "states = analysed locations, transitions = solver obligations (location with a numeric offset) over all executions <= k"},
               assumptions=["smt/ilsem.py is the IL's meaning (C04)", "offsets compared modulo 2^width of the stack pointer"])


if __name__ == "__main__":
    main()
