#!/usr/bin/env python3
"""C08 - paged memory is a byte-addressed array with independent clones.

Histories of store/load/clone/eq/set_permissions are applied to the REAL
memory::paged::Memory<il::Expression> (falcon's own symbolic instance: every stored value is a
fresh scalar v_i), so each load returns an expression over the v_i.  z3 decides, for all values
of the v_i, whether that expression equals the byte-array reference model.  Shapes (addresses,
widths) are enumerated in a window straddling a 1024-byte page boundary."""
import sys, os, random, json, itertools
sys.path.insert(0, os.path.dirname(os.path.dirname(os.path.abspath(__file__))))
import z3
from checks import common
from smt import drv, il2smt, solve

PAGE = 1024
WIDTHS = [8, 16, 32, 64, 128]


def sc(name, w):
    return ["scalar", name, w, None]


class Ref:
    """Byte-array reference: addr -> z3 8-bit term (or absent)."""

    def __init__(self, endian, backing=None):
        self.endian = endian
        self.bytes = {}
        self.backing = dict(backing or {})     # addr -> int

    def copy(self):
        r = Ref(self.endian, self.backing); r.bytes = dict(self.bytes); return r

    def store(self, addr, term):
        n = term.size() // 8
        for i in range(n):
            lane = i if self.endian == "little" else n - 1 - i
            self.bytes[addr + i] = z3.Extract(8 * lane + 7, 8 * lane, term)

    def byte(self, a):
        if a in self.bytes:
            return self.bytes[a]
        if a in self.backing:
            return z3.BitVecVal(self.backing[a], 8)
        return None

    def load(self, addr, bits):
        bs = [self.byte(addr + i) for i in range(bits // 8)]
        if any(b is None for b in bs):
            return None
        if self.endian == "little":
            bs = list(reversed(bs))
        return bs[0] if len(bs) == 1 else z3.Concat(*bs)


def run_history(item):
    """item: dict(endian, backing(list of [addr, hex]) or None, stores=[(mem, addr, bits)], plan)"""
    endian = item["endian"]
    ops = [["new", "m", endian, {"segments": item["backing"]} if item["backing"] else None]]
    bk = {}
    if item["backing"]:
        for seg in item["backing"]:
            a, hx = seg[0], seg[1]
            for i in range(len(hx) // 2):
                bk[a + i] = int(hx[2 * i:2 * i + 2], 16)
    refs = {"m": Ref(endian, bk)}
    ctx = il2smt.Ctx(endian=endian)
    expect = []      # per op: None or ("load", mem, addr, bits) / ("eq", a, b) / ("perm", expected)
    nv = 0
    perms = {"m": {}}     # explicit page permissions set: page -> perm
    for step in item["plan"]:
        t = step[0]
        if t == "store":
            _, m, addr, bits = step
            name = f"v{nv}"; nv += 1
            ops.append(["store", m, addr, sc(name, bits)]); expect.append(None)
            refs[m].store(addr, ctx.input(name, bits))
        elif t == "load":
            _, m, addr, bits = step
            ops.append(["load", m, addr, bits]); expect.append(("load", m, addr, bits))
        elif t == "clone":
            _, m, n = step
            ops.append(["clone", m, n]); expect.append(None)
            refs[n] = refs[m].copy(); perms[n] = dict(perms[m])
        elif t == "eq":
            a, b = step[1], step[2]
            ops.append(["eq", a, b]); expect.append(("eq", a, b))
        elif t == "setperm":
            _, m, addr, ln, p = step
            ops.append(["setperm", m, addr, ln, p]); expect.append(None)
            a = addr & ~(PAGE - 1)
            while a < addr + ln:
                perms[m][a] = p; a += PAGE
        elif t == "perm":
            _, m, addr = step
            ops.append(["perm", m, addr])
            page = addr & ~(PAGE - 1)
            exp = perms[m].get(page)
            if exp is None:
                exp = item.get("backing_perm") if any(sg[0] <= addr < sg[0] + len(sg[1]) // 2 for sg in (item["backing"] or [])) else None
            expect.append(("perm", exp))
    # snapshot of references at the time of each load is needed: recompute by replaying
    r = drv.call({"cmd": "pagedmem", "ops": ops})
    out = {"history": item["label"], "loads": 0, "unsat": 0, "sat": [], "ground_fail": [], "undecided": 0, "solver_s": 0.0}
    if "panic" in r or "died" in r or "fatal" in r:
        out["ground_fail"].append(("panic", str(r)[:300])); return out
    results = r["results"][1:]
    # replay the reference alongside the results
    refs = {"m": Ref(endian, bk)}
    nv = 0
    eq_true_pairs = []
    for step, res, exp in zip(item["plan"], results, expect):
        t = step[0]
        if t == "store":
            refs[step[1]].store(step[2], ctx.input(f"v{nv}", step[3])); nv += 1
            if not res.get("ok"):
                out["ground_fail"].append(("store-error", f"{step}: {res.get('error')}"))
        elif t == "clone":
            refs[step[2]] = refs[step[1]].copy()
        elif t == "load":
            out["loads"] += 1
            ref = refs[step[1]].load(step[2], step[3])
            if not res.get("ok"):
                out["ground_fail"].append(("load-error", f"{step}: {res.get('error')}")); continue
            got = res["value"]
            if (got is None) != (ref is None):
                out["ground_fail"].append(("absence", f"{step}: falcon {'absent' if got is None else 'present'}, reference {'absent' if ref is None else 'present'}")); continue
            if got is None:
                continue
            try:
                term = il2smt.ev(ctx, il2smt.initial_state(ctx), got)
            except il2smt.SortError as e:
                out["ground_fail"].append(("ill-sorted", f"{step}: {e}")); continue
            if term.size() != step[3]:
                out["ground_fail"].append(("width", f"{step}: loaded {term.size()} bits")); continue
            v, m, dt = solve.check([term != ref], 20000)
            out["solver_s"] += dt
            if v == solve.UNSAT: out["unsat"] += 1
            elif v == solve.UNDECIDED: out["undecided"] += 1
            else:
                vals = {k: solve.model_val(m, x) for k, x in ctx.inputs.items()}
                out["sat"].append({"step": list(step), "values": vals, "falcon": solve.model_val(m, term), "reference": solve.model_val(m, ref), "expr": got})
        elif t == "eq":
            a, b = step[1], step[2]
            # reference equality: same bytes everywhere (stored and backing) - decided syntactically on the models
            same = refs[a].bytes.keys() == refs[b].bytes.keys() and all(refs[a].bytes[k] is refs[b].bytes[k] or z3.eq(refs[a].bytes[k], refs[b].bytes[k]) for k in refs[a].bytes)
            if step[-1] == "reflexive" and not res["value"]:
                out["ground_fail"].append(("eq-not-reflexive", f"{item['label']}: memory != its unmodified clone"))
            if res["value"] and not same:
                out["ground_fail"].append(("eq-implies-loads", f"{item['label']}: memories compare equal but hold different bytes"))
        elif t == "perm":
            if res["value"] != exp[1]:
                out["ground_fail"].append(("permissions", f"{step}: falcon {res['value']} expected {exp[1]}"))
    return out


def histories(tier, rnd):
    base = PAGE - 6
    offs = list(range(0, 12))
    out = []
    bk = [[PAGE - 16, "a0a1a2a3a4a5a6a7a8a9aaabacadaeaf" + "b0b1b2b3b4b5b6b7"]]     # backing covers [1008, 1032)
    def loads(m="m"):
        ls = []
        for w in (8, 16, 32, 64):
            for o in offs:
                ls.append(("load", m, base + o, w))
        for o in (0, 2, 5):
            ls.append(("load", m, base - 8 + o, 128))
        return ls
    stores = [(w, o) for w in WIDTHS for o in offs]
    for endian in ("little", "big"):
        for backing in (None, bk):
            tag = f"{endian}/{'backed' if backing else 'bare'}"
            for (w, o) in stores:
                out.append({"label": f"{tag}: store{w}@{o}", "endian": endian, "backing": backing,
                            "plan": [("store", "m", base + o, w)] + loads()})
            pairs = list(itertools.product(stores, stores))
            rnd.shuffle(pairs)
            for (a, b) in pairs[: (40 if tier == "quick" else 600)]:
                out.append({"label": f"{tag}: store{a[0]}@{a[1]}, store{b[0]}@{b[1]}", "endian": endian, "backing": backing,
                            "plan": [("store", "m", base + a[1], a[0]), ("store", "m", base + b[1], b[0])] + loads()})
            triples = [tuple(rnd.choice(stores) for _ in range(3)) for _ in range(25 if tier == "quick" else 400)]
            for tr in triples:
                out.append({"label": f"{tag}: " + ", ".join(f"store{w}@{o}" for w, o in tr), "endian": endian, "backing": backing,
                            "plan": [("store", "m", base + o, w) for w, o in tr] + loads()})
            # clones: store, clone, diverge, load from both
            for _ in range(10 if tier == "quick" else 100):
                a, b, c = (rnd.choice(stores) for _ in range(3))
                out.append({"label": f"{tag}: clone-diverge {a} | {b} | {c}", "endian": endian, "backing": backing,
                            "plan": [("store", "m", base + a[1], a[0]), ("clone", "m", "n"), ("eq", "m", "n", "reflexive"),
                                     ("store", "n", base + b[1], b[0]), ("store", "m", base + c[1], c[0]), ("eq", "m", "n")] + loads("m") + loads("n")})
            for far in (5 * PAGE + 3, 0, 2 * PAGE - 1):
                for first in (True, False):
                    pl = ([("store", "m", base, 32)] if first else []) + [("clone", "m", "n"), ("store", "n", far, 16), ("eq", "m", "n"), ("eq", "n", "m"),
                                                                          ("clone", "n", "k"), ("eq", "n", "k", "reflexive"), ("eq", "k", "n", "reflexive"),
                                                                          ("load", "m", far, 16), ("load", "n", far, 16)]
                    out.append({"label": f"{tag}: clone then store only into the clone at {far:#x}" + (" (original non-empty)" if first else ""), "endian": endian, "backing": backing, "plan": pl})
            out.append({"label": f"{tag}: empty clone eq", "endian": endian, "backing": backing, "plan": [("clone", "m", "n"), ("eq", "m", "n", "reflexive")]})
            # windows at 0 and at the top of the address space
            out.append({"label": f"{tag}: window at 0", "endian": endian, "backing": backing,
                        "plan": [("store", "m", 0, 32), ("store", "m", 2, 16), ("load", "m", 0, 32), ("load", "m", 1, 8), ("load", "m", 0, 64)]})
            top = (1 << 64) - 8
            out.append({"label": f"{tag}: window at top", "endian": endian, "backing": backing,
                        "plan": [("store", "m", top, 64), ("store", "m", top + 4, 16), ("load", "m", top, 64), ("load", "m", top + 3, 32), ("load", "m", top + 4, 16)]})
        # permissions
        for backing, bperm in ((None, None), (bk, 5)):
            tag = f"{endian}/{'backed' if backing else 'bare'}"
            segs = [[a, hx, bperm] for a, hx in backing] if backing else None
            for addr, ln in ((0, 16), (PAGE - 4, 8), (3 * PAGE + 10, 2 * PAGE), (0x7000, 1), (5 * PAGE, PAGE)):
                probes = [addr, addr + ln - 1, addr + ln // 2, (addr & ~(PAGE - 1)) + PAGE - 1, addr + ln + PAGE + 5, 1010, 1030]
                out.append({"label": f"{tag}: setperm [{addr:#x},+{ln:#x})", "endian": endian, "backing": segs, "backing_perm": bperm,
                            "plan": [("perm", "m", p) for p in probes] + [("setperm", "m", addr, ln, 3)] + [("perm", "m", p) for p in probes] +
                                    [("store", "m", addr + 1, 16), ("store", "m", 1012, 32)] + [("perm", "m", p) for p in probes]})
    return out


def main():
    drv.build()
    rep = common.Report("C08", "model_checking")
    rnd = random.Random(rep.seed + 4242)
    items = histories(rep.tier, rnd)
    results = common.pmap(run_history, items, chunksize=8)
    loads = 0
    for it, r in zip(items, results):
        if "crash" in r:
            rep.encoder_defect(f"{it['label']}: {r['crash']} {r.get('trace','')[-300:]}"); continue
        loads += r["loads"]
        rep.solver_s += r["solver_s"]
        rep.queries["unsat"] += r["unsat"]; rep.queries["undecided"] += r["undecided"]; rep.queries["sat"] += len(r["sat"])
        rep.ground["checked"] += 1
        if r["unsat"] and len(rep.samples) < 5:
            rep.sample({"history": it["label"], "loads_proved_for_all_stored_values": r["unsat"]})
        for kind, msg in r["ground_fail"]:
            rep.ground["failed"] += 1
            sig = f"paged/{kind}"
            if kind == "panic" and "window at top" in it["label"] and "overflow" in msg:
                sig = "paged/panic/access whose last byte is the top of the address space (2^64-1)"
            rep.violation(sig, msg, {"history": it})
        for s in r["sat"]:
            step = s["step"]
            rep.violation("paged/load returns bytes that differ from the byte-array model",
                          f"{it['label']}: {step[0]} {step[3]} bits at {step[2]:#x} gives {s['falcon']:#x}, reference {s['reference']:#x} (stored values {s['values']})",
                          {"history": it, "finding": s})
    rep.functions_encoded = ["memory::paged::Memory<il::Expression>::{new, new_with_backing, store, load, clone, eq, set_permissions, permissions} (real code, symbolic values)",
                             "memory::value impl Value for Expression (through the expressions it builds)"]
    rep.bounds = {"histories": len(items), "window": "addresses 1018..1029 around the 1024-byte page boundary (+ windows at 0 and 2^64-8)", "widths": WIDTHS,
                  "outside": "address/width shapes are enumerated, values are symbolic; V = il::Constant is tied to V = Expression by C04's value-algebra obligations"}
    rep.finish({"states": max(1, len(items)), "transitions": max(1, loads), "traces_validated_against_impl": len(items),
                "explanation": "states = histories applied to the real paged memory, transitions = loads compared with the byte-array model for all stored values"},
               assumptions=["smt/ilsem.py is the IL's meaning (C04)", "shapes enumerated in the stated windows"])


if __name__ == "__main__":
    main()
