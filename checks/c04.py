#!/usr/bin/env python3
"""C04 - IL expression evaluation is exact fixed-width bit-vector arithmetic.

Engine B: the MIR of falcon's own `Constant` methods, `executor::eval` and the `Expression`
constructors (dumped by the nightly compiler from /repo's current tree) is executed symbolically:
operand VALUES are symbolic for a fixed width, foreign num-bigint calls are stated models, every
path's result is proved equal to the smt/ilsem.py term by z3 (or a panic/mismatch is reported
with a model and replayed through the real code by the driver).
Engine A: the derived builders sra/rotl and replace_scalar are called for real (driver) on scalar
leaves and the returned trees are proved equal to their meaning for all values."""
import sys, os, random, json, time, re
sys.path.insert(0, os.path.dirname(os.path.dirname(os.path.abspath(__file__))))
import z3
from checks import common
from smt import drv, il2smt, ilsem, solve
from mirsym import interp as I, models as M, dump

IMPL = "constant::<impl at lib/il/constant.rs:"
BIN = ["add", "sub", "mul", "divu", "modu", "divs", "mods", "and", "or", "xor", "shl", "shr", "ashr", "cmpeq", "cmpneq", "cmpltu", "cmplts"]
_prog = None


def program():
    global _prog
    if _prog is None:
        path, _ = dump.mir_path()
        want = lambda n: n.startswith(("constant::", "executor::eval", "expression::", "scalar::", "il::", "const constant::", "const expression::", "const executor::", "const il::")) or "lib/memory/value.rs" in n
        _prog = I.Program(path, "/repo/lib", want)
    return _prog


def impl_fn(prog, meth):
    c = [n for n in prog.raw if n.startswith(IMPL) and n.endswith(">::" + meth) and ":1: " in n]
    c = [n for n in c if re.search(r"constant\.rs:\d+:1: \d+:14>::" + meth + "$", n)]
    if len(c) != 1:
        raise RuntimeError(f"cannot locate Constant::{meth} in the MIR dump ({c})")
    return c[0]


def const_val(bits, term):
    return I.Agg("struct", "Constant", [I.BigU(term), z3.BitVecVal(bits, 64)])


def Wfor(op, bits):
    if op in ("mul", "shl", "ashr"): return max(2 * bits + 8, 72)
    return max(bits + 8, 72)


def shift_classes(bits, b):
    """Partition of the shift amount (the rhs value, `bits` wide)."""
    W = b.size()
    cls = {"amount<width": z3.ULT(b, bits) if bits < (1 << W) else z3.BoolVal(True)}
    if bits < (1 << W):
        cls["amount=width"] = b == bits
        cls["width<amount<2^64"] = z3.And(z3.UGT(b, bits), z3.ULT(b, z3.BitVecVal(1 << 64, W))) if W > 64 else z3.UGT(b, bits)
    if W > 64:
        cls["amount>=2^64"] = z3.UGE(b, z3.BitVecVal(1 << 64, W))
    return cls


def check_binop(item):
    op, bits, rbits = item["op"], item["bits"], item["rbits"]
    prog = program()
    fn = impl_fn(prog, op)
    W = Wfor(op, max(bits, rbits))
    it = I.Interp(prog, W=W, models=M.MODELS)
    it.div_mode = "exact" if bits <= 12 else "uf"
    A = z3.BitVec("A", W); B = z3.BitVec("B", W)
    inv = z3.And(z3.ULT(A, z3.BitVecVal(1 << bits, W)), z3.ULT(B, z3.BitVecVal(1 << rbits, W)))

    def mk(it_):
        it_.solver.add(inv); it_.pc.append(inv)
        return [I.ValRef(const_val(bits, A)), I.ValRef(const_val(rbits, B))]
    a = z3.Extract(bits - 1, 0, A); b = z3.Extract(rbits - 1, 0, B)
    out = {"op": op, "bits": bits, "rbits": rbits, "paths": 0, "unsat": 0, "findings": [], "undecided": [], "solver_s": 0.0, "fn": fn, "hash": prog.func(fn).text_hash,
           "calls": set(), "div_mode": it.div_mode}
    expected = None
    tie = None
    if bits == rbits:
        if op in ("divu", "modu", "divs", "mods") and it.div_mode == "uf":
            f = M.uf(it, {"divu": "udiv", "modu": "urem", "divs": "sdiv", "mods": "srem"}[op])
            ext = z3.ZeroExt if op in ("divu", "modu") else z3.SignExt
            xa, xb = ext(W - bits, a), ext(W - bits, b)
            expected = z3.Extract(bits - 1, 0, f(xa, xb))
            # tie the uninterpreted function to real division for the reference's own operands, so that code
            # which divides natively is compared with the real quotient (possibly undecided), never with a free symbol
            real = {"divu": z3.UDiv(xa, xb), "modu": z3.URem(xa, xb), "divs": xa / xb, "mods": z3.SRem(xa, xb)}[op]
            tie = z3.Implies(xb != 0, f(xa, xb) == real)
        else:
            expected = ilsem.z3_binop(op, a, b)
    classes = shift_classes(bits, b) if op in ("shl", "shr", "ashr") and bits == rbits else {"any": z3.BoolVal(True)}
    for r in I.explore(it, fn, mk):
        out["paths"] += 1
        out["calls"] |= {c for c in r["calls"]}
        pc = r["pc"]
        for cname, cpred in classes.items():
            t0 = time.time()
            if r["outcome"] == "unsupported":
                out["undecided"].append(f"{cname}: unsupported: {r['msg'][:120]}"); break
            # side conditions of the models (bigint window overflow) must be unreachable
            sides = [c[1] for c in r["side"] if c[0].startswith("bigint-model-overflow")]
            if sides:
                v, m, dt = solve.check(pc + [cpred, z3.Or(*sides)], 30000); out["solver_s"] += dt
                if v != solve.UNSAT:
                    out["undecided"].append(f"{cname}: model window W={W} too small or timeout"); continue
            big = [c[2] for c in r["side"] if c[0] == "shl-amount"]
            if big:
                v, m, dt = solve.check(pc + [cpred, z3.Or(*big)], 30000); out["solver_s"] += dt
                if v == solve.SAT:
                    out["findings"].append({"class": cname, "kind": "unbounded-allocation", "detail": "a left shift of a big integer by an amount >= the model window is reachable",
                                            "a": solve.model_val(m, A), "b": solve.model_val(m, B)}); continue
            if r["outcome"] == "panic":
                v, m, dt = solve.check(pc + [cpred], 30000); out["solver_s"] += dt
                if v == solve.SAT:
                    out["findings"].append({"class": cname, "kind": "panic", "detail": r["msg"][:100], "a": solve.model_val(m, A), "b": solve.model_val(m, B)})
                elif v == solve.UNDECIDED:
                    out["undecided"].append(f"{cname}: panic path feasibility")
                continue
            val = r["value"]
            if val.variant == 1:     # Err(e)
                en = val.fields[0]
                ename = prog.enums["Error"][en.variant]
                # expected: Sort iff widths differ; DivideByZero iff divisor == 0 (same widths)
                if bits != rbits:
                    ok_cond = z3.BoolVal(ename == "Sort")
                elif op in ("divu", "modu", "divs", "mods") and ename == "DivideByZero":
                    ok_cond = (b == 0)
                else:
                    ok_cond = z3.BoolVal(False)
                v, m, dt = solve.check(pc + [cpred, z3.Not(ok_cond)], 30000); out["solver_s"] += dt
                if v == solve.SAT:
                    out["findings"].append({"class": cname, "kind": "wrong-error", "detail": f"returns Err({ename})", "a": solve.model_val(m, A), "b": solve.model_val(m, B)})
                elif v == solve.UNSAT: out["unsat"] += 1
                else: out["undecided"].append(f"{cname}: error path")
                continue
            c = val.fields[0]
            got, gbits = c.fields[0].t, c.fields[1]
            if bits != rbits:
                v, m, dt = solve.check(pc + [cpred], 30000); out["solver_s"] += dt
                if v == solve.SAT:
                    out["findings"].append({"class": cname, "kind": "missing-sort-error", "detail": "returns Ok for operands of different widths", "a": solve.model_val(m, A), "b": solve.model_val(m, B)})
                continue
            if op in ("divu", "modu", "divs", "mods"):
                pass
            wrong = z3.Or(got != z3.ZeroExt(W - expected.size(), expected), gbits != z3.BitVecVal(expected.size(), 64))
            extra = [b != 0] if op in ("divu", "modu", "divs", "mods") else []
            v, m, dt = solve.check(pc + [cpred, wrong] + extra, 60000); out["solver_s"] += dt
            if v != solve.UNSAT and tie is not None:
                # only now bring in the real divider (needed when the code divides natively)
                v, m, dt = solve.check(pc + [cpred, wrong, tie] + extra, 120000); out["solver_s"] += dt
            if v == solve.UNSAT:
                out["unsat"] += 1
            elif v == solve.UNDECIDED:
                out["undecided"].append(f"{cname}: value query timeout")
            else:
                out["findings"].append({"class": cname, "kind": "wrong-value", "detail": f"got {solve.model_val(m, got):#x} expected {solve.model_val(m, expected):#x}",
                                        "a": solve.model_val(m, A), "b": solve.model_val(m, B)})
    # missing outcomes: with equal widths a division must report DivideByZero for b == 0 (covered: every
    # path with b == 0 is either that error or flagged above).
    out["calls"] = sorted(out["calls"])
    return out


def check_unary(item):
    op, bits, tbits = item["op"], item["bits"], item["tbits"]
    prog = program()
    fn = impl_fn(prog, op)
    W = bits + tbits + 72
    it = I.Interp(prog, W=W, models=M.MODELS)
    A = z3.BitVec("A", W)
    inv = z3.ULT(A, z3.BitVecVal(1 << bits, W))

    def mk(it_):
        it_.solver.add(inv); it_.pc.append(inv)
        return [I.ValRef(const_val(bits, A)), z3.BitVecVal(tbits, 64)]
    a = z3.Extract(bits - 1, 0, A)
    legal = (tbits < bits and tbits > 0) if op == "trun" else (tbits > bits)
    out = {"op": op, "bits": bits, "rbits": tbits, "paths": 0, "unsat": 0, "findings": [], "undecided": [], "solver_s": 0.0, "fn": fn, "hash": prog.func(fn).text_hash, "calls": set(), "div_mode": "-"}
    for r in I.explore(it, fn, mk):
        out["paths"] += 1; out["calls"] |= set(r["calls"])
        pc = r["pc"]
        if r["outcome"] == "unsupported":
            out["undecided"].append("unsupported: " + r["msg"][:120]); continue
        if r["outcome"] == "panic":
            v, m, dt = solve.check(pc, 30000); out["solver_s"] += dt
            if v == solve.SAT:
                out["findings"].append({"class": "any", "kind": "panic", "detail": r["msg"][:100], "a": solve.model_val(m, A), "b": tbits})
            continue
        val = r["value"]
        if val.variant == 1:
            ename = prog.enums["Error"][val.fields[0].variant]
            if legal or ename != "Sort":
                v, m, dt = solve.check(pc, 30000); out["solver_s"] += dt
                if v == solve.SAT:
                    out["findings"].append({"class": "any", "kind": "wrong-error", "detail": f"returns Err({ename}) for {op} {bits}->{tbits}", "a": solve.model_val(m, A), "b": tbits})
            else:
                out["unsat"] += 1
            continue
        if not legal:
            v, m, dt = solve.check(pc, 30000); out["solver_s"] += dt
            if v == solve.SAT:
                out["findings"].append({"class": "any", "kind": "missing-sort-error", "detail": f"{op} {bits}->{tbits} accepted", "a": solve.model_val(m, A), "b": tbits})
            continue
        c = val.fields[0]
        got, gbits = c.fields[0].t, c.fields[1]
        exp = ilsem.z3_ext(op, tbits, a)
        wrong = z3.Or(got != z3.ZeroExt(W - tbits, exp), gbits != z3.BitVecVal(tbits, 64))
        sides = [cc[1] for cc in r["side"] if cc[0].startswith("bigint-model-overflow")]
        if sides:
            v, m, dt = solve.check(pc + [z3.Or(*sides)], 30000); out["solver_s"] += dt
            if v != solve.UNSAT:
                out["undecided"].append("model window"); continue
        v, m, dt = solve.check(pc + [wrong], 60000); out["solver_s"] += dt
        if v == solve.UNSAT: out["unsat"] += 1
        elif v == solve.UNDECIDED: out["undecided"].append("value query")
        else:
            out["findings"].append({"class": "any", "kind": "wrong-value", "detail": f"got {solve.model_val(m, got):#x} expected {solve.model_val(m, exp):#x}", "a": solve.model_val(m, A), "b": tbits})
    out["calls"] = sorted(out["calls"])
    return out


EXPR_VARIANTS = ["Scalar", "Constant", "Add", "Sub", "Mul", "Divu", "Modu", "Divs", "Mods", "And", "Or", "Xor", "Shl", "Shr", "AShr",
                 "Cmpeq", "Cmpneq", "Cmplts", "Cmpltu", "Zext", "Sext", "Trun", "Ite"]


def check_eval(item):
    """executor::eval on Variant(Constant a, Constant b): must be the Constant method of the same name applied in that order."""
    vname, bits = item["variant"], item["bits"]
    prog = program()
    ev = prog.enums["Expression"]
    W = Wfor("mul", bits)
    it = I.Interp(prog, W=W, models=M.MODELS)
    it.div_mode = "exact" if bits <= 12 else "uf"
    A = z3.BitVec("A", W); B = z3.BitVec("B", W); Cc = z3.BitVec("C", W)
    inv = z3.And(z3.ULT(A, z3.BitVecVal(1 << bits, W)), z3.ULT(B, z3.BitVecVal(1 << bits, W)), z3.ULT(Cc, z3.BitVecVal(2, W)))

    def leaf(t, b_=bits):
        return I.box(I.Agg("enum", "Expression", [const_val(b_, t)], ev.index("Constant")))

    def mk(it_):
        it_.solver.add(inv); it_.pc.append(inv)
        if vname in ("Zext", "Sext", "Trun"):
            tb = bits * 2 if vname != "Trun" else max(1, bits // 2)
            e = I.Agg("enum", "Expression", [z3.BitVecVal(tb, 64), leaf(A)], ev.index(vname))
        elif vname == "Ite":
            e = I.Agg("enum", "Expression", [leaf(Cc, 1), leaf(A), leaf(B)], ev.index(vname))
        elif vname == "Constant":
            e = I.Agg("enum", "Expression", [const_val(bits, A)], ev.index(vname))
        elif vname == "Scalar":
            e = I.Agg("enum", "Expression", [I.Agg("struct", "Scalar", [I.Opaque("name"), z3.BitVecVal(bits, 64), I.Agg("enum", "Option", [], 0)])], ev.index(vname))
        else:
            e = I.Agg("enum", "Expression", [leaf(A), leaf(B)], ev.index(vname))
        return [I.ValRef(e)]
    a = z3.Extract(bits - 1, 0, A); b = z3.Extract(bits - 1, 0, B)
    out = {"op": "eval:" + vname, "bits": bits, "rbits": bits, "paths": 0, "unsat": 0, "findings": [], "undecided": [], "solver_s": 0.0, "fn": "executor::eval::eval",
           "hash": prog.func("executor::eval::eval").text_hash, "calls": set(), "div_mode": it.div_mode}
    opn = vname.lower()
    for r in I.explore(it, "executor::eval::eval", mk):
        out["paths"] += 1; out["calls"] |= set(r["calls"])
        pc = r["pc"]
        if r["outcome"] == "unsupported":
            out["undecided"].append("unsupported: " + r["msg"][:120]); continue
        # which Constant method did eval call? (the dispatch obligation)
        called = {c.split(">::")[-1] for c in r["calls"] if c.startswith(IMPL)}
        if vname not in ("Scalar", "Constant", "Ite") and opn not in called:
            v, m, dt = solve.check(pc, 20000)
            if v == solve.SAT:
                out["findings"].append({"class": "any", "kind": "wrong-dispatch", "detail": f"eval({vname}) did not call Constant::{opn} (called {sorted(called)})", "a": solve.model_val(m, A), "b": solve.model_val(m, B)})
            continue
        if r["outcome"] == "panic":
            v, m, dt = solve.check(pc, 30000); out["solver_s"] += dt
            if v == solve.SAT and not (vname == "AShr"):
                out["findings"].append({"class": "any", "kind": "panic", "detail": r["msg"][:100], "a": solve.model_val(m, A), "b": solve.model_val(m, B)})
            continue
        val = r["value"]
        if vname == "Scalar":
            if not (val.variant == 1 and prog.enums["Error"][val.fields[0].variant] == "ExecutorScalar"):
                out["findings"].append({"class": "any", "kind": "wrong-value", "detail": "eval(Scalar) must fail with ExecutorScalar", "a": 0, "b": 0})
            else: out["unsat"] += 1
            continue
        if val.variant == 1:
            out["unsat"] += 1     # error propagation paths are judged by the Constant-method obligations
            continue
        c = val.fields[0]
        got = c.fields[0].t
        if vname == "Constant": exp = a
        elif vname == "Ite": exp = z3.If(z3.Extract(0, 0, Cc) == 1, a, b)
        elif vname in ("Zext", "Sext"): exp = ilsem.z3_ext(opn, bits * 2, a)
        elif vname == "Trun": exp = ilsem.z3_ext("trun", max(1, bits // 2), a) if bits > 1 else None
        elif opn in ("divu", "modu", "divs", "mods") and it.div_mode == "uf":
            f = M.uf(it, {"divu": "udiv", "modu": "urem", "divs": "sdiv", "mods": "srem"}[opn])
            ext = z3.ZeroExt if opn in ("divu", "modu") else z3.SignExt
            xa, xb = ext(W - bits, a), ext(W - bits, b)
            exp = z3.Extract(bits - 1, 0, f(xa, xb))
            real = {"divu": z3.UDiv(xa, xb), "modu": z3.URem(xa, xb), "divs": xa / xb, "mods": z3.SRem(xa, xb)}[opn]
            tie_e = z3.Implies(xb != 0, f(xa, xb) == real)
        else:
            exp = ilsem.z3_binop(opn, a, b)
        if exp is None:
            continue
        extra = [b != 0] if opn in ("divu", "modu", "divs", "mods") else []
        if opn == "ashr":
            extra.append(z3.ULE(b, bits))      # Constant::ashr's own deviation is reported by its obligations
        v, m, dt = solve.check(pc + extra + [got != z3.ZeroExt(W - exp.size(), exp)], 60000); out["solver_s"] += dt
        if v != solve.UNSAT and opn in ("divu", "modu", "divs", "mods") and it.div_mode == "uf":
            v, m, dt = solve.check(pc + extra + [tie_e, got != z3.ZeroExt(W - exp.size(), exp)], 120000); out["solver_s"] += dt
        if v == solve.UNSAT: out["unsat"] += 1
        elif v == solve.UNDECIDED: out["undecided"].append("value query")
        else:
            out["findings"].append({"class": "any", "kind": "wrong-value", "detail": f"eval({vname}) got {solve.model_val(m, got):#x} expected {solve.model_val(m, exp):#x}",
                                    "a": solve.model_val(m, A), "b": solve.model_val(m, B)})
    out["calls"] = sorted(out["calls"])
    return out


def S(n, w): return ["scalar", n, w, None]
def C(v, w): return ["const", str(v & ((1 << w) - 1)), w]


def check_builder(item):
    """Engine A: sra / rotl / replace_scalar / constructors through the driver on scalar leaves."""
    kind, bits = item["kind"], item["bits"]
    out = {"op": "builder:" + kind, "bits": bits, "rbits": bits, "paths": 1, "unsat": 0, "findings": [], "undecided": [], "solver_s": 0.0, "fn": "il::Expression::" + kind, "hash": "-", "calls": [], "div_mode": "-"}
    ctx = il2smt.Ctx()
    st = il2smt.initial_state(ctx)
    a, b = ctx.input("a", bits), ctx.input("b", bits)
    if kind in ("sra", "rotl"):
        r = drv.call({"cmd": "exprop", "op": kind, "lhs": S("a", bits), "rhs": S("b", bits)})
        if not r.get("ok"):
            out["findings"].append({"class": "any", "kind": "error", "detail": str(r)[:150], "a": 0, "b": 0}); return out
        try:
            term = il2smt.ev(ctx, st, r["expr"])
        except il2smt.SortError as e:
            out["findings"].append({"class": "any", "kind": "ill-sorted", "detail": str(e), "a": 0, "b": 0}); return out
        if kind == "sra":
            exp = ilsem.z3_binop("ashr", a, b)
            classes = {"amount<=width": z3.ULE(b, bits), "amount>width": z3.UGT(b, bits)} if bits < (1 << bits) else {"amount<=width": z3.BoolVal(True)}
        else:
            exp = z3.RotateLeft(a, b)
            classes = {"amount<width": z3.ULT(b, bits)}      # for b >= width the builder saturates (stated in the property)
        for cn, cp in classes.items():
            v, m, dt = solve.check([cp, term != exp] + ctx.c04_assumptions, 60000); out["solver_s"] += dt
            if v == solve.UNSAT: out["unsat"] += 1
            elif v == solve.UNDECIDED: out["undecided"].append(cn)
            else:
                av, bv_ = solve.model_val(m, a), solve.model_val(m, b)
                out["findings"].append({"class": cn, "kind": "wrong-value", "detail": f"{kind}(a,b) = {solve.model_val(m, term):#x}, expected {solve.model_val(m, exp):#x}", "a": av, "b": bv_, "expr": r["expr"]})
        return out
    if kind == "replace_scalar":
        rnd = random.Random(item["seed"])
        from gen import ilgen
        g = ilgen.Gen(rnd, "mixed", (bits,))
        g.vars = [("a", bits), ("b", bits), ("s", bits)]
        e = g.expr(bits, 3)
        # make sure the substituted scalar occurs, also under shifts
        e = [rnd.choice(["ashr", "shr", "add", "xor"]), e, ["ashr", S("s", bits), C(rnd.choice([1, 3, bits - 1]), bits)]]
        t = g.expr(bits, 1)
        r = drv.call({"cmd": "exprop", "op": "replace_scalar", "expr": e, "scalar": S("s", bits), "with": t})
        if not r.get("ok"):
            out["findings"].append({"class": "any", "kind": "error", "detail": str(r)[:150], "a": 0, "b": 0}); return out
        try:
            tv = il2smt.ev(ctx, st, t)
            st2 = st.copy(); st2.sc["s"] = tv
            lhs = il2smt.ev(ctx, st, r["expr"])
            rhs = il2smt.ev(ctx, st2, e)
        except il2smt.SortError as ex:
            out["findings"].append({"class": "any", "kind": "ill-sorted", "detail": str(ex), "a": 0, "b": 0}); return out
        if "s" in {x[1] for x in il2smt.scalars_of(r["expr"])} and "s" not in {x[1] for x in il2smt.scalars_of(t)}:
            out["findings"].append({"class": "any", "kind": "wrong-value", "detail": "substituted scalar still occurs", "a": 0, "b": 0, "expr": r["expr"]}); return out
        v, m, dt = solve.check([lhs != rhs] + ctx.c04_assumptions, 60000); out["solver_s"] += dt
        if v == solve.UNSAT: out["unsat"] += 1
        elif v == solve.UNDECIDED: out["undecided"].append("substitution")
        else:
            out["findings"].append({"class": "any", "kind": "wrong-value", "detail": f"eval(e[s:=t]) = {solve.model_val(m, lhs):#x} but eval(e)[s->eval(t)] = {solve.model_val(m, rhs):#x}",
                                    "a": solve.model_val(m, a), "b": solve.model_val(m, b), "expr": e, "with": t})
        return out
    if kind == "constructors":
        # width rules: Err(Sort) iff the documented rule is violated (ground over a grid of widths, through the real constructors)
        ws = [1, 8, bits, bits + 1]
        bad = []
        for op in BIN:
            for wl in ws:
                for wr in ws:
                    r = drv.call({"cmd": "exprop", "op": op, "lhs": S("a", wl), "rhs": S("b", wr)})
                    want_ok = wl == wr
                    if bool(r.get("ok")) != want_ok or (not r.get("ok") and r.get("kind") != "Sort"):
                        bad.append(f"{op}({wl},{wr}) -> {r.get('kind', 'Ok')}")
                    elif r.get("ok") and r["bits"] != (1 if op.startswith("cmp") else wl):
                        bad.append(f"{op}({wl},{wr}) has {r['bits']} bits")
        for op in ("zext", "sext", "trun"):
            for wl in ws:
                for t in ws + [0, 3, 12]:
                    r = drv.call({"cmd": "exprop", "op": op, "lhs": S("a", wl), "bits": t})
                    want_ok = (t < wl and t > 0) if op == "trun" else (t > wl)
                    if bool(r.get("ok")) != want_ok or (not r.get("ok") and r.get("kind") != "Sort"):
                        bad.append(f"{op}({wl}->{t}) -> {r.get('kind', 'Ok')}")
        for wc in (1, 8):
            for wl in ws:
                for wr in ws:
                    r = drv.call({"cmd": "exprop", "op": "ite", "cond": S("c", wc), "lhs": S("a", wl), "rhs": S("b", wr)})
                    if bool(r.get("ok")) != (wc == 1 and wl == wr):
                        bad.append(f"ite({wc};{wl},{wr}) -> {r.get('kind', 'Ok')}")
        out["paths"] = len(BIN) * 16 + 3 * 4 * 7 + 2 * 16
        out["unsat"] = 0
        for x in bad[:5]:
            out["findings"].append({"class": "any", "kind": "sort-rule", "detail": x, "a": 0, "b": 0})
        return out
    raise KeyError(kind)


def work(item):
    return {"bin": check_binop, "un": check_unary, "eval": check_eval, "builder": check_builder}[item["t"]](item)


def replay_finding(op, bits, rbits, f):
    """Re-run the model through the real code (driver: executor::eval on constants)."""
    if op.startswith("eval:") or op.startswith("builder:"):
        return None
    if op in BIN:
        e = [op, C(f["a"], bits), C(f["b"], rbits)]
    else:
        e = [op, f["b"], C(f["a"], bits)]
    r = drv.call({"cmd": "exprop", "op": "eval", "expr": e})
    if "panic" in r:
        return ("panic", r["panic"])
    if not r.get("ok"):
        return ("err", r.get("kind"))
    return ("ok", int(r["value"][1]), r["value"][2])


def main():
    drv.build()
    rep = common.Report("C04", "model_checking")
    t0 = time.time()
    path, dt = dump.mir_path()
    rep.extra["mir_dump_seconds"] = round(dt, 1)
    widths = [1, 2, 3, 7, 8, 9, 16, 31, 32, 33, 64] if rep.tier == "quick" else [1, 2, 3, 4, 7, 8, 9, 15, 16, 17, 31, 32, 33, 63, 64, 65, 127, 128, 129, 256]
    if rep.tier == "quick":
        widths += [65, 128]
    items = []
    for w in widths:
        for op in BIN:
            items.append({"t": "bin", "op": op, "bits": w, "rbits": w})
        items.append({"t": "bin", "op": random.Random(w).choice(BIN), "bits": w, "rbits": w + 8})
        items.append({"t": "bin", "op": "add", "bits": w + 1, "rbits": w})
        for op in ("trun", "zext", "sext"):
            for t in sorted({1, w - 1, w, w + 1, w + 7, w + 8, 2 * w, 64, 128} - {0}):
                items.append({"t": "un", "op": op, "bits": w, "tbits": t})
    for w in ([8, 32, 64] if rep.tier == "quick" else [1, 8, 16, 32, 64, 128]):
        for vname in EXPR_VARIANTS:
            items.append({"t": "eval", "variant": vname, "bits": w})
    for w in ([8, 16, 32, 64, 65, 128] if rep.tier == "quick" else [1, 3, 8, 16, 32, 64, 65, 72, 128, 256]):
        items.append({"t": "builder", "kind": "sra", "bits": w})
        items.append({"t": "builder", "kind": "rotl", "bits": w})
        for i in range(6 if rep.tier == "quick" else 40):
            items.append({"t": "builder", "kind": "replace_scalar", "bits": w, "seed": rep.seed * 1000 + i + w})
    items.append({"t": "builder", "kind": "constructors", "bits": 32})
    results = common.pmap(work, items, chunksize=4)
    fns = {}
    models_used = set()
    paths = 0
    for it, r in zip(items, results):
        if "crash" in r:
            rep.encoder_defect(f"{it}: {r['crash']} {r.get('trace','')[-400:]}"); continue
        paths += r["paths"]
        rep.solver_s += r["solver_s"]
        rep.queries["unsat"] += r["unsat"]
        fns[r["fn"]] = r["hash"]
        for c in r["calls"]:
            fns.setdefault(c, "inlined")
        for u in r["undecided"]:
            rep.count("undecided"); rep.undecided.append(f"{r['op']}@{r['bits']}: {u}")
            if "unsupported" in u:
                # the code left the fragment the interpreter can execute: nothing can be claimed for it
                rep.encoder_defect(f"{r['op']}@{r['bits']}: {u}")
        if r["unsat"] and len(rep.samples) < 8 and not r["findings"]:
            rep.sample({"function": r["op"], "width": r["bits"], "paths": r["paths"], "obligations_unsat": r["unsat"], "division": r["div_mode"]})
        for f in r["findings"]:
            rep.count("sat")
            rp = replay_finding(r["op"], r["bits"], r["rbits"], f)
            reproduced = True
            if rp is not None:
                if f["kind"] == "panic": reproduced = rp[0] == "panic"
                elif f["kind"] in ("wrong-error", "missing-sort-error"): reproduced = True if rp[0] in ("err", "ok") else False
                elif f["kind"] == "wrong-value": reproduced = rp[0] == "ok"
            if not reproduced:
                rep.encoder_defect(f"model does not reproduce: {r['op']}@{r['bits']} {f} -> real code: {rp}"); continue
            sig = f"{r['op']}/{f['class']}/{f['kind']}"
            if r["op"] == "sext" and f["kind"] == "wrong-error" and r["rbits"] % 8 != 0:
                sig = "sext/target width not a multiple of 8/wrong-error"
            if r["op"] == "eval:Sext" and f["kind"] == "wrong-error":
                sig = "sext/target width not a multiple of 8/wrong-error"
            rep.violation(sig, f"{r['op']} at width {r['bits']}" + (f"->{r['rbits']}" if r["rbits"] != r["bits"] else "") + f": {f['detail']} (a={f['a']:#x}, b={f['b']:#x}); real code: {rp}",
                          {"op": r["op"], "bits": r["bits"], "rbits": r["rbits"], "finding": f, "real_code": str(rp)})
    rep.functions_encoded = [f"{k} [{v}]" for k, v in sorted(fns.items())][:60]
    rep.bounds = {"widths": widths, "model_window_bits": "width+8 (2*width+8 for mul), at least 72", "division": "exact bvudiv/bvsdiv for widths <= 12, uninterpreted quotient/remainder with range facts above",
                  "outside": "widths not listed; whole expression trees are covered compositionally (each operator + the evaluator's dispatch)"}
    rep.extra["models"] = [p.pattern for p, _ in M.MODELS]
    rep.finish({"states": max(1, paths), "transitions": max(1, rep.queries["unsat"] + rep.queries["sat"]), "traces_validated_against_impl": rep.queries["sat"],
                "explanation": "states = MIR paths executed symbolically, transitions = solver obligations on their results (value == ilsem term, error iff rule violated, no panic)"},
               assumptions=["num-bigint operators are mathematical-integer operations (models in mirsym/models.py); division above 12 bits is an uninterpreted function with range facts",
                            "MIR dumped with overflow-checks=on, debug-assertions=off (the profile the test-suite runs in)"])


if __name__ == "__main__":
    main()
