"""Shared check infrastructure: tiers, seeds, known findings, evidence, parallel map."""
import json, os, sys, time, hashlib, multiprocessing, traceback

VERIF = os.path.dirname(os.path.dirname(os.path.abspath(__file__)))
sys.path.insert(0, VERIF)

LEVELS = {"exploration", "fault_enumeration", "model_checking", "proof", "translation_validation", "other"}


def tier():
    t = os.environ.get("VERIF_TIER")
    for a in sys.argv[1:]:
        if a in ("quick", "thorough"):
            t = a
    return t if t in ("quick", "thorough") else "quick"


def seed():
    try:
        return int(os.environ.get("VERIF_SEED", "0"))
    except ValueError:
        return 0


def nworkers():
    try:
        return max(1, int(os.environ.get("VERIF_JOBS", "0")) or min(16, os.cpu_count() or 4))
    except ValueError:
        return 8


class Known:
    def __init__(self, prop):
        self.prop = prop
        path = os.path.join(VERIF, "known_findings.json")
        self.entries = []
        if os.path.exists(path):
            with open(path) as f:
                self.entries = [e for e in json.load(f)["findings"] if e["property"] == prop]
        self.hit = {}

    def match(self, signature):
        """Return the known (status == 'known') entry whose signature equals `signature`."""
        for e in self.entries:
            if e.get("status") == "known" and e["signature"] == signature:
                self.hit.setdefault(signature, e)
                return e
        return None


class Report:
    """Collects obligations, violations and evidence for one property check."""

    def __init__(self, prop, level):
        assert level in LEVELS
        self.prop = prop
        self.level = level
        self.t0 = time.time()
        self.tier = tier()
        self.seed = seed()
        self.known = Known(prop)
        self.violations = []       # dicts: signature, what, replay (dict)
        self.known_hits = {}       # signature -> (entry, count, example)
        self.encoder_defects = []
        self.queries = {"unsat": 0, "sat": 0, "undecided": 0}
        self.solver_s = 0.0
        self.ground = {"checked": 0, "failed": 0}
        self.samples = []
        self.undecided = []
        self.extra = {}
        self.assumptions = []
        self.functions_encoded = []
        self.bounds = {}

    # -- bookkeeping ------------------------------------------------------
    def count(self, verdict, secs=0.0):
        self.queries[verdict] = self.queries.get(verdict, 0) + 1
        self.solver_s += secs

    def sample(self, s, cap=12):
        if len(self.samples) < cap:
            self.samples.append(s)

    def violation(self, signature, what, replay):
        """A reproduced violation. Known signatures are reported as KNOWN-FINDING."""
        e = self.known.match(signature)
        if e is not None:
            cur = self.known_hits.get(signature)
            if cur is None:
                self.known_hits[signature] = [e, 1, what]
            else:
                cur[1] += 1
            return False
        self.violations.append({"signature": signature, "what": what, "replay": replay})
        return True

    RESOURCE = ("Overflow encountered when expanding vector", "out of memory", "MemoryError", "max. memory exceeded", "solver resource limit", "std::bad_alloc", "bad_alloc")

    def encoder_defect(self, what):
        if "Unsupported:" in what:
            what = what.replace("Unsupported:", "unsupported:")
        if "unsupported:" in what and "model does not reproduce" not in what:
            # the code under analysis uses a construct outside the MIR fragment / std models of Engine B: that path is NOT
            # explored.  Per the interface the exit code speaks about what was explored; the gap is reported, not hidden.
            self.queries["undecided"] = self.queries.get("undecided", 0) + 1
            self.undecided.append("outside the modelled fragment: " + what[:240])
            self.extra.setdefault("unsupported_constructs", [])
            msg = what.split("unsupported:", 1)[1].strip()[:120]
            if msg not in self.extra["unsupported_constructs"]:
                self.extra["unsupported_constructs"].append(msg)
                print(f"UNDECIDED: property={self.prop} path not explored (outside the modelled MIR/std fragment): {msg}", flush=True)
            return
        if any(r in what for r in self.RESOURCE):
            # the solver ran out of resources on this item: undecided (reported as such), not a modelling error
            self.queries["undecided"] = self.queries.get("undecided", 0) + 1
            self.undecided.append("solver resource limit: " + what[:200])
            return
        self.encoder_defects.append(what)

    # -- output -----------------------------------------------------------
    def finish(self, coverage, assumptions=None):
        wall = time.time() - self.t0
        os.makedirs(os.path.join(VERIF, "evidence"), exist_ok=True)
        os.makedirs(os.path.join(VERIF, "replays", self.prop), exist_ok=True)
        for sig, (e, n, what) in sorted(self.known_hits.items()):
            print(f"KNOWN-FINDING: property={self.prop} {e.get('what', what)} [signature: {sig}; {n} case(s) this run, e.g. {what}]")
        seen = set()
        vcount = 0
        for v in self.violations:
            if v["signature"] in seen:
                continue
            seen.add(v["signature"])
            vcount += 1
            h = hashlib.sha1(v["signature"].encode()).hexdigest()[:12]
            path = os.path.join(VERIF, "replays", self.prop, f"{h}.json")
            with open(path, "w") as f:
                json.dump(v, f, indent=1, default=str)
            print(f"VIOLATION property={self.prop} replay={path}")
            print(f"  signature: {v['signature']}\n  what: {v['what']}")
        dump = os.environ.get("VERIF_DUMP_VIOLATIONS")
        if dump:
            with open(dump, "w") as f:
                json.dump([{"signature": v["signature"], "what": v["what"]} for v in self.violations], f, indent=1)
        cov = dict(coverage)
        cov.setdefault("samples", self.samples or ["(none)"])
        cov["queries"] = dict(self.queries)
        cov["solver_seconds"] = round(self.solver_s, 2)
        cov["ground_obligations"] = dict(self.ground)
        cov["undecided_list"] = self.undecided[:40]
        cov["known_findings_hit"] = {k: v[1] for k, v in self.known_hits.items()}
        cov["functions_encoded"] = self.functions_encoded
        cov["bounds"] = self.bounds
        cov["encoder_defects"] = self.encoder_defects[:20]
        cov.update(self.extra)
        ev = {
            "property_id": self.prop,
            "tier": self.tier,
            "seed": self.seed,
            "level": self.level,
            "coverage": cov,
            "assumptions": (assumptions or []) + self.assumptions,
            "wall_s": round(wall, 2),
            "violations": vcount,
        }
        with open(os.path.join(VERIF, "evidence", f"{self.prop}.json"), "w") as f:
            json.dump(ev, f, indent=1, default=str)
        q = self.queries
        print(f"[{self.prop}] tier={self.tier} seed={self.seed} queries unsat={q.get('unsat',0)} sat={q.get('sat',0)} "
              f"undecided={q.get('undecided',0)} ground={self.ground['checked']} (failed {self.ground['failed']}) "
              f"known={sum(v[1] for v in self.known_hits.values())} violations={vcount} "
              f"solver={self.solver_s:.1f}s wall={wall:.1f}s")
        if self.encoder_defects:
            for d in self.encoder_defects[:10]:
                print(f"ENCODER-DEFECT: property={self.prop} {d}")
            if not vcount:
                sys.exit(2)
        sys.exit(1 if vcount else 0)


class ItemTimeout(Exception):
    pass


def _alarm(signum, frame):
    raise ItemTimeout("item time limit")


def _limits():
    """Per-worker resource limits: one runaway item must not take the machine (62 GB, no swap) or the run with it."""
    import resource
    gb = float(os.environ.get("VERIF_WORKER_MEM_GB", "8"))
    try:
        resource.setrlimit(resource.RLIMIT_AS, (int(gb * (1 << 30)), int(gb * (1 << 30))))
    except (ValueError, OSError):
        pass
    try:
        import z3
        z3.set_param("memory_max_size", int(gb * 1024 * 0.7))      # z3 gives up with an exception before the OS limit kills the worker
    except Exception:
        pass


def _wrap(args):
    import signal
    fn, item = args
    limit = int(os.environ.get("VERIF_ITEM_TIMEOUT", "1500" if tier() == "quick" else "3600"))
    try:
        old = signal.signal(signal.SIGALRM, _alarm)
        signal.alarm(limit)
    except (ValueError, OSError):
        old = None
    try:
        return fn(item)
    except ItemTimeout:
        return {"crash": f"solver resource limit: item time limit of {limit}s (MemoryError class: reported as undecided)", "trace": "", "item": item}
    except MemoryError:
        return {"crash": "MemoryError: worker memory limit", "trace": "", "item": item}
    except Exception as e:
        return {"crash": f"{type(e).__name__}: {e}", "trace": traceback.format_exc()[-1500:], "item": item}
    finally:
        if old is not None:
            signal.alarm(0)


def _worker_main(conn, fn):
    _limits()
    while True:
        try:
            msg = conn.recv()
        except EOFError:
            return
        if msg is None:
            return
        i, item = msg
        r = _wrap((fn, item))
        try:
            conn.send((i, r))
        except Exception as e:                      # unpicklable / oversized result
            conn.send((i, {"crash": f"{type(e).__name__}: result could not be returned: {e}", "trace": "", "item": item}))


def pmap(fn, items, jobs=None, chunksize=1):
    """Parallel map with fork workers (each worker owns a z3 context and an fdriver).  The parent hands items out one at a
    time over a pipe per worker, so it always knows which item a worker holds: when a worker process dies (z3 aborts the
    process with an uncaught C++ out_of_memory_error once its memory cap is reached; the kernel may kill it) that item is
    recorded as a crash ('solver resource limit' for SIGABRT/SIGKILL/SIGSEGV-free deaths -> undecided) and a fresh worker
    takes over - a multiprocessing.Pool would wait for the lost result for ever."""
    items = list(items)
    jobs = jobs or nworkers()
    if jobs <= 1 or len(items) <= 1:
        return [_wrap((fn, it)) for it in items]
    from smt import drv
    from multiprocessing.connection import wait as conn_wait
    drv.build()
    ctx = multiprocessing.get_context("fork")
    results = [None] * len(items)
    nxt = 0; done = 0; t0 = time.time()
    progress = bool(os.environ.get("VERIF_PROGRESS"))
    workers = {}            # parent conn -> [process, index of the item it holds or None]

    def spawn():
        pc, cc = ctx.Pipe()
        pr = ctx.Process(target=_worker_main, args=(cc, fn), daemon=True)
        pr.start(); cc.close()
        workers[pc] = [pr, None]
        return pc

    def feed(pc):
        nonlocal nxt
        if nxt < len(items):
            workers[pc][1] = nxt
            pc.send((nxt, items[nxt])); nxt += 1
        else:
            workers[pc][1] = None
            try: pc.send(None)
            except Exception: pass

    for _ in range(min(jobs, len(items))):
        feed(spawn())
    while done < len(items):
        ready = conn_wait(list(workers.keys()), timeout=5)
        for pc in ready:
            pr, held = workers[pc]
            try:
                i, r = pc.recv()
            except (EOFError, OSError):
                # the worker is gone
                pr.join(timeout=5)
                del workers[pc]
                try: pc.close()
                except Exception: pass
                if held is not None and results[held] is None:
                    code = pr.exitcode
                    kind = "solver resource limit: " if code in (-6, -9, None) else ""
                    results[held] = {"crash": f"{kind}worker process died (exit code {code}) while working on this item", "trace": "", "item": items[held]}
                    done += 1
                if nxt < len(items):
                    feed(spawn())
                continue
            results[i] = r; done += 1
            if progress and done % max(1, len(items) // 40) == 0:
                print(f"[progress] {done}/{len(items)} items, {time.time() - t0:.0f}s", file=sys.stderr, flush=True)
            feed(pc)
        if not workers and done < len(items):
            feed(spawn())
    for pc, (pr, _) in list(workers.items()):
        try: pc.send(None)
        except Exception: pass
    for pc, (pr, _) in list(workers.items()):
        pr.join(timeout=2)
        if pr.is_alive(): pr.terminate()
    return results
