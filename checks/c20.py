#!/usr/bin/env python3
"""C20 - architecture descriptors agree with the lifters and the platform ABI.

Solver half (descriptor <-> lifter): for each of the seven Architecture objects the real descriptor
(stack pointer scalar, word size, endianness, return-address location) parameterises a small
reference semantics of stack-manipulating instructions (push/pop/call/ret, sp adjustment, word
store/load relative to sp, the call instruction); z3 decides, for every register/memory state,
that the IL the real translator emits for those instructions does exactly that.  A wrong stack
pointer name or width, word size or endianness makes a query sat.

Ground half (no symbolic dimension): calling-convention tables against tables written from the
psABI documents, and 'every register named by the convention is a scalar the translator emits
with that width' against the scalars occurring in the IL of a large lifted corpus."""
import sys, os, json
sys.path.insert(0, os.path.dirname(os.path.dirname(os.path.abspath(__file__))))
import z3
from checks import common, liftcheck
from smt import drv, il2smt

ADDR = 0x400100
ARCHS = ["x86", "amd64", "mips", "mipsel", "ppc", "aarch64", "aarch64eb"]


def W32(*ws, little=False):
    return b"".join(w.to_bytes(4, "little" if little else "big") for w in ws).hex()


def stack_items(arch):
    """(label, bytes, semantics) - semantics in terms of descriptor roles."""
    if arch in ("x86", "amd64"):
        acc = "rax" if arch == "amd64" else "eax"
        wb_ = 8 if arch == "amd64" else 4
        return [("push acc", "50", ("push", acc, -wb_)), ("pop acc", "58", ("pop", acc)),
                ("call +0", "e800000000", ("call", 5, 5)), ("ret", "c3", ("ret",)), ("ret 8", "c20800", ("ret_imm", 8)),
                ("mov sp,ax", "6689c4", ("sp_low_write", 16, acc)), ("mov esp,eax", "89c4", ("sp_low_write", 32, acc)),
                ("leave", "c9", ("leave", "rbp" if arch == "amd64" else "ebp"))]
    if arch in ("mips", "mipsel"):
        L = arch == "mipsel"
        return [("addiu $sp,$sp,-32", W32(0x27bdffe0, little=L), ("spadd", -32)),
                ("sw $ra,28($sp)", W32(0xafbf001c, little=L), ("store", 28, "$ra")),
                ("lw $ra,28($sp)", W32(0x8fbf001c, little=L), ("load", 28, "$ra")),
                ("jal 0x401000; nop", W32(0x0c100400, 0, little=L), ("call_reg", 0x401000, 8))]
    if arch == "ppc":
        return [("stwu r1,-16(r1)", W32(0x9421fff0), ("push_sp", -16)),
                ("stw r0,20(r1)", W32(0x90010014), ("store", 20, "r0")),
                ("lwz r0,20(r1)", W32(0x80010014), ("load", 20, "r0")),
                ("bl +0x100", W32(0x48000101), ("call_reg", ADDR + 0x100, 4))]
    L = True       # A64 instructions are little-endian in both data endiannesses
    return [("sub sp,sp,#0x20", W32(0xd10083ff, little=L), ("spadd", -32)),
            ("str x0,[sp,#8]", W32(0xf90007e0, little=L), ("store", 8, "x0")),
            ("ldr x0,[sp,#8]", W32(0xf94007e0, little=L), ("load", 8, "x0")),
            ("str x30,[sp,#-16]!", W32(0xf81f0ffe, little=L), ("push", "x30", -16)),
            ("bl +0x10", W32(0x94000004, little=L), ("call_reg", ADDR + 0x10, 4))]


def specfn_for(desc):
    spn, spw = desc["stack_pointer"][1], desc["stack_pointer"][2]
    wbits = desc["word_size"]; wb = wbits // 8
    endian = desc["endian"]
    ra = desc["cc"]["return_address"]

    def a64(x): return z3.ZeroExt(64 - x.size(), x) if x.size() < 64 else x

    def specfn(ctx, item, lift):
        so = liftcheck.SpecOut()
        sem = item["sem"]
        sp = ctx.input(spn, spw)
        mem = ctx.mem0
        nxt = z3.BitVecVal(item["address"] + len(item["bytes"]) // 2, 64)
        k = sem[0]
        if k == "push":
            v = ctx.input(sem[1], wbits)
            nsp = sp + z3.BitVecVal(sem[2] & ((1 << spw) - 1), spw)
            so.regs[spn] = nsp; mem = il2smt.store_bytes(mem, a64(nsp), v, endian); so.accessed.append((a64(nsp), wb, True))
        elif k == "pop":
            so.regs[sem[1]] = il2smt.load_bytes(mem, a64(sp), wb, endian); so.regs[spn] = sp + wb; so.accessed.append((a64(sp), wb, True))
        elif k == "call":
            nsp = sp - wb
            so.regs[spn] = nsp
            if ra[0] != "stack":
                raise NotImplementedError("descriptor says the return address is not on the stack")
            mem = il2smt.store_bytes(mem, a64(nsp + ra[1]), z3.BitVecVal(item["address"] + sem[2], wbits), endian)
            so.accessed.append((a64(nsp), wb, True))
            nxt = z3.BitVecVal(item["address"] + sem[1], 64)
        elif k == "ret":
            if ra[0] != "stack":
                raise NotImplementedError("descriptor says the return address is not on the stack")
            nxt = a64(il2smt.load_bytes(mem, a64(sp + ra[1]), wb, endian)); so.regs[spn] = sp + wb; so.accessed.append((a64(sp), wb, True))
        elif k == "ret_imm":
            if ra[0] != "stack":
                raise NotImplementedError("descriptor says the return address is not on the stack")
            nxt = a64(il2smt.load_bytes(mem, a64(sp + ra[1]), wb, endian)); so.regs[spn] = sp + wb + sem[1]; so.accessed.append((a64(sp), wb, True))
        elif k == "sp_low_write":
            src = ctx.input(sem[2], wbits); bits = sem[1]
            low = z3.Extract(bits - 1, 0, src)
            if bits == spw: so.regs[spn] = low
            elif bits == 32: so.regs[spn] = z3.ZeroExt(spw - 32, low)                       # 32-bit writes clear the upper half in 64-bit mode
            else: so.regs[spn] = z3.Concat(z3.Extract(spw - 1, bits, sp), low)             # 16-bit writes keep the rest
        elif k == "leave":
            bp = ctx.input(sem[1], wbits)
            so.regs[spn] = bp + wb; so.regs[sem[1]] = il2smt.load_bytes(mem, a64(bp), wb, endian); so.accessed.append((a64(bp), wb, True))
            if wbits == 32: so.assume.append(z3.ULE(bp, z3.BitVecVal(0xffff0000, wbits)))
        elif k == "spadd":
            so.regs[spn] = sp + z3.BitVecVal(sem[1] & ((1 << spw) - 1), spw)
        elif k == "push_sp":
            nsp = sp + z3.BitVecVal(sem[1] & ((1 << spw) - 1), spw)
            so.regs[spn] = nsp; mem = il2smt.store_bytes(mem, a64(nsp), sp, endian); so.accessed.append((a64(nsp), wb, True))
        elif k == "store":
            a = a64(sp + sem[1]); mem = il2smt.store_bytes(mem, a, ctx.input(sem[2], wbits), endian); so.accessed.append((a, wb, True))
        elif k == "load":
            a = a64(sp + sem[1]); so.regs[sem[2]] = il2smt.load_bytes(mem, a, wb, endian); so.accessed.append((a, wb, True))
        elif k == "call_reg":
            if ra[0] != "register":
                raise NotImplementedError("descriptor says the return address is not in a register")
            so.regs[ra[1][1]] = z3.BitVecVal(item["address"] + sem[2], ra[1][2])
            nxt = z3.BitVecVal(sem[1], 64)
        so.mem = mem; so.next_pc = nxt
        if wbits == 32:
            so.assume.append(z3.And(z3.UGE(sp, z3.BitVecVal(0x1000, spw)), z3.ULE(sp, z3.BitVecVal(0xffff0000, spw))))
        return so
    return specfn


# ---- psABI tables (System V i386, System V AMD64, MIPS o32, PowerPC System V 32-bit, AAPCS64) ----
ABI = {
    "x86": dict(args=[], ret="eax", ra=("stack", 0), stack0=4, preserved={"ebx", "esi", "edi", "ebp", "esp"}, trashed={"eax", "ecx", "edx"}),
    "amd64": dict(args=["rdi", "rsi", "rdx", "rcx", "r8", "r9"], ret="rax", ra=("stack", 0), stack0=8, preserved={"rbx", "rbp", "r12", "r13", "r14", "r15", "rsp"},
                  trashed={"rax", "rcx", "rdx", "rsi", "rdi", "r8", "r9", "r10", "r11"}),
    "mips": dict(args=["$a0", "$a1", "$a2", "$a3"], ret="$v0", ra=("register", "$ra"), stack0=16, preserved={"$s0", "$s1", "$s2", "$s3", "$s4", "$s5", "$s6", "$s7", "$fp", "$sp"},
                 trashed={"$v0", "$v1", "$a0", "$a1", "$a2", "$a3", "$t0", "$t1", "$t2", "$t3", "$t4", "$t5", "$t6", "$t7", "$t8", "$t9", "$at"}),
    "ppc": dict(args=["r3", "r4", "r5", "r6", "r7", "r8", "r9", "r10"], ret="r3", ra=("register", "lr"), stack0=8, preserved={"r1"} | {f"r{i}" for i in range(14, 32)},
                trashed={"r0"} | {f"r{i}" for i in range(3, 13)}),
    "aarch64": dict(args=[f"x{i}" for i in range(8)], ret="x0", ra=("register", "x30"), stack0=0, preserved={f"x{i}" for i in range(19, 29)} | {"sp"},
                    trashed={f"x{i}" for i in range(0, 18)}),
}
ABI["mipsel"] = ABI["mips"]; ABI["aarch64eb"] = ABI["aarch64"]
ENDIAN = {"x86": "little", "amd64": "little", "mips": "big", "mipsel": "little", "ppc": "big", "aarch64": "little", "aarch64eb": "big"}
WORD = {"x86": 32, "amd64": 64, "mips": 32, "mipsel": 32, "ppc": 32, "aarch64": 64, "aarch64eb": 64}


def nm(s): return s[1] if isinstance(s, list) and s and s[0] == "scalar" else None


def corpus_scalars(arch, tier):
    """(name, bits) of every non-temporary scalar in the IL of a lifted corpus."""
    big = arch in ("mips", "ppc")
    seen = set()
    x86 = arch in ("x86", "amd64")
    from checks import c05
    st = c05.structured(arch, tier, None)
    for req in ({"items": st[:40000]}, {"lcg": {"seed": 11, "count": 150000 if not x86 else 60000, "nbytes": 15 if x86 else 4, "big": big}}):
        r = drv.call(dict({"cmd": "scan", "arch": arch, "address": ADDR, "collect_scalars": True, "intrinsics": False}, **req))
        if not r.get("ok"):
            raise RuntimeError(f"scan failed: {str(r)[:200]}")
        seen |= {(n, b) for n, b in r["scalars"]}
    return seen


def work(item):
    desc = item["desc"]
    return liftcheck.analyse(item["arch"], desc["endian"], item, specfn_for(desc), k=8, timeout_ms=30000)


def main():
    drv.build()
    rep = common.Report("C20", "other")
    descs = {a: drv.call({"cmd": "arch", "arch": a}) for a in ARCHS}
    for a, d in descs.items():
        if not d.get("ok"):
            rep.encoder_defect(f"arch command failed for {a}: {str(d)[:200]}")
    descs = {a: d for a, d in descs.items() if d.get("ok")}

    def ground(ok, sig, what):
        rep.ground["checked"] += 1
        if not ok:
            rep.ground["failed"] += 1
            rep.violation(sig, what, {"what": what})

    # ---- solver half
    items = []
    for a, d in descs.items():
        for lab, b, sem in stack_items(a):
            items.append({"arch": a, "bytes": b, "address": ADDR, "label": f"{a}: {lab}", "sem": sem, "desc": d, "nowrap32": d["word_size"] == 32, "skip_shape": True})
    results = common.pmap(work, items, chunksize=1)
    for it, r in zip(items, results):
        fam = {"mipsel": "mips", "aarch64eb": "aarch64"}.get(it["arch"], it["arch"])
        if "crash" in r:
            rep.encoder_defect(f"{it['label']}: {r['crash']} {r.get('trace','')[-300:]}"); continue
        st = r["status"]; rep.solver_s += r.get("solver_s", 0.0)
        if st == "unsat":
            rep.count("unsat")
            rep.sample({"bytes": it["bytes"], "label": it["label"], "verdict": "unsat: the IL moves the descriptor's stack pointer / stores words as the descriptor says, for every state"})
        elif st == "undecided":
            rep.count("undecided"); rep.undecided.append(it["label"])
        elif st in ("rejected", "sorterr", "panic"):
            rep.count("sat")
            rep.violation(f"{fam}/stack instruction not lifted/{it['sem'][0]}", f"{it['label']} bytes={it['bytes']}: the translator does not lift this stack instruction ({st}: {r.get('detail', '')[:120]})", {"item": {k: v for k, v in it.items() if k != "desc"}})
        elif st == "nospec":
            ground(False, f"{fam}/return address location/{it['sem'][0]}", f"{it['label']}: {r.get('detail')}")
        else:
            rep.count("sat")
            rep.violation(f"{fam}/descriptor vs lifted IL/{it['sem'][0]}", f"{it['label']} bytes={it['bytes']}: {st} {r.get('diffs', '')} {r.get('detail', '')}: the lifted IL does not behave as the descriptor (sp={nm(it['desc']['stack_pointer'])}, word={it['desc']['word_size']}, {it['desc']['endian']}-endian) says",
                          {"item": {k: v for k, v in it.items() if k != "desc"}, "result": {k: v for k, v in r.items() if k != "model"}, "model": r.get("model")})

    # ---- ground half
    for a, d in descs.items():
        fam = {"mipsel": "mips", "aarch64eb": "aarch64"}.get(a, a)
        abi = ABI[a]; cc = d["cc"]
        sp = d["stack_pointer"]
        ground(d["endian"] == ENDIAN[a], f"{a}/endian", f"{a}: descriptor endianness {d['endian']}, platform {ENDIAN[a]}")
        ground(d["word_size"] == WORD[a], f"{a}/word size", f"{a}: descriptor word size {d['word_size']}, platform {WORD[a]}")
        ground(sp[2] == d["word_size"], f"{fam}/sp width", f"{a}: stack pointer {sp[1]}:{sp[2]} vs word size {d['word_size']}")
        try:
            seen = corpus_scalars(a, rep.tier)
        except RuntimeError as e:
            rep.encoder_defect(str(e)); continue
        names = {n for n, _ in seen}
        ground((sp[1], sp[2]) in seen, f"{fam}/sp not a lifter scalar", f"{a}: stack pointer {sp[1]}:{sp[2]} never occurs in lifted IL")
        regs = [("argument", s) for s in cc["argument_registers"]] + [("preserved", s) for s in cc["preserved"]] + [("trashed", s) for s in cc["trashed"]] + [("return", cc["return_register"])]
        if cc["return_address"][0] == "register":
            regs.append(("return-address", cc["return_address"][1]))
        for role, s in regs:
            if (s[1], s[2]) not in seen:
                cls = "name never produced" if s[1] not in names else "width differs"
                import re
                ground(False, f"{fam}/cc {role} register {re.sub(r'[0-9]+', '#', s[1])}:{s[2]} {cls}", f"{a}: calling-convention {role} register {s[1]}:{s[2]} is not a scalar the translator emits ({cls}; lifter widths: {sorted(b for n, b in seen if n == s[1])})")
            else:
                rep.ground["checked"] += 1
        # platform ABI
        ground([nm(s) for s in cc["argument_registers"]][:len(abi["args"])] == abi["args"] and all(nm(s) not in abi["preserved"] for s in cc["argument_registers"]), f"{fam}/abi argument registers",
               f"{a}: argument registers {[nm(s) for s in cc['argument_registers']]} vs psABI integer arguments {abi['args']}")
        ground(nm(cc["return_register"]) == abi["ret"], f"{fam}/abi return register", f"{a}: return register {nm(cc['return_register'])} vs {abi['ret']}")
        got_ra = (cc["return_address"][0], cc["return_address"][1] if cc["return_address"][0] == "stack" else nm(cc["return_address"][1]))
        ground(got_ra == abi["ra"], f"{fam}/abi return address", f"{a}: return address {got_ra} vs {abi['ra']}")
        ground(cc["stack_argument_length"] == d["word_size"] // 8, f"{fam}/abi stack argument length", f"{a}: stack argument slots are {cc['stack_argument_length']} bytes, word size is {d['word_size'] // 8}")
        ground(cc["stack_argument_offset"] == abi["stack0"], f"{fam}/abi first stack argument offset", f"{a}: first stack argument at sp+{cc['stack_argument_offset']}, psABI says sp+{abi['stack0']}")
        # argument_type(n): registers in order, then stack slots stepping by the slot length
        at = cc["argument_types"]; nreg = len(cc["argument_registers"])
        exp = [["register", s] for s in cc["argument_registers"]] + [["stack", cc["stack_argument_offset"] + i * cc["stack_argument_length"]] for i in range(len(at))]
        ground(at == exp[:len(at)], f"{fam}/argument_type sequence", f"{a}: argument_type(0..{len(at) - 1}) = {json.dumps(at)[:200]} is not registers-in-order followed by consecutive stack slots")
        # compare by name only for scalars of the width the lifter emits (other widths are reported above)
        pres = {nm(s) for s in cc["preserved"] if (s[1], s[2]) in seen}; tr = {nm(s) for s in cc["trashed"] if (s[1], s[2]) in seen}
        ground(not (pres & tr), f"{fam}/preserved and trashed overlap", f"{a}: registers both preserved and trashed: {sorted(pres & tr)}")
        ground(abi["preserved"] - {nm(sp)} <= pres, f"{fam}/abi preserved set", f"{a}: callee-saved registers missing from preserved: {sorted(abi['preserved'] - {nm(sp)} - pres)}")
        ground(abi["trashed"] <= tr, f"{fam}/abi trashed set", f"{a}: caller-saved registers missing from trashed: {sorted(abi['trashed'] - tr)}")
        ground(not (pres & abi["trashed"]) and not (tr & abi["preserved"]), f"{fam}/abi preserved/trashed swapped", f"{a}: preserved∩caller-saved={sorted(pres & abi['trashed'])} trashed∩callee-saved={sorted(tr & abi['preserved'])}")
        # the query methods agree with the tables (is_preserved / is_trashed are what the analyses call)
        pk = {json.dumps(s) for s in cc["preserved"]}; tk = {json.dumps(s) for s in cc["trashed"]}
        for s, isp, ist in cc.get("queries", []):
            k = json.dumps(s)
            want_p = True if k in pk else False; want_t = True if (k in tk and k not in pk) else (False if k in pk else None)
            if k in pk and k in tk:
                continue  # reported by the overlap check
            ground(isp is want_p and ist is (k in tk), f"{fam}/is_preserved, is_trashed disagree with the tables",
                   f"{a}: {s[1]}:{s[2]} preserved-table={k in pk} trashed-table={k in tk} but is_preserved={isp} is_trashed={ist}")
        ground(len(cc.get("queries", [])) == len(pk | tk) + len(pk & tk), f"{fam}/is_preserved queries missing", f"{a}: {len(cc.get('queries', []))} query rows for {len(pk | tk)} table registers")
        ground(nm(sp) in pres and cc.get("sp_preserved") is True, f"{fam}/stack pointer not preserved", f"{a}: stack pointer {nm(sp)} preserved={nm(sp) in pres}, is_preserved(sp)={cc.get('sp_preserved')}")
    # the ELF loader selects the descriptor named by the header (ground; the all-headers version is C19's Elf::new check)
    from gen import elfgen
    for a, (cls, big, mach) in {"x86": (32, False, 3), "amd64": (64, False, 62), "mips": (32, True, 8), "mipsel": (32, False, 8), "ppc": (32, True, 20), "aarch64": (64, False, 183), "aarch64eb": (64, True, 183)}.items():
        r = drv.call({"cmd": "elf", "bytes": elfgen.build(cls, big, mach, entry=0x1000, phdrs=[], symbols=[], min_len=128).hex(), "base": 0})
        fam = {"mipsel": "mips", "aarch64eb": "aarch64"}.get(a, a)
        ground(r.get("ok") and r.get("arch") == a and r.get("endian", "").lower() == ENDIAN[a], f"{fam}/elf loader architecture selection",
               f"ELF{cls} {'MSB' if big else 'LSB'} e_machine={mach}: loader chose {r.get('arch')}/{r.get('endian')} ({str(r.get('error', ''))[:80]}), header names {a}/{ENDIAN[a]}")
    # descriptors agree with one another
    for a, b in (("mips", "mipsel"), ("aarch64", "aarch64eb")):
        if a in descs and b in descs:
            da = {k: v for k, v in descs[a].items() if k not in ("endian", "name")}; db = {k: v for k, v in descs[b].items() if k not in ("endian", "name")}
            ground(da == db, f"{a}/endianness twins differ", f"{a} and {b} descriptors differ in more than endianness")
    rep.functions_encoded = ["translate_block of x86/amd64/mips/mipsel/ppc/aarch64/aarch64eb for the stack instructions (IL encoded), compared with the semantics induced by architecture::*::{stack_pointer,word_size,endian} and CallingConvention::return_address_type"]
    rep.bounds = {"encodings": len(items), "outside": "calling conventions other than each architecture's default; floating-point/vector argument passing; the ELF loader's architecture selection"}
    rep.finish({"programs": len(items), "disagreements_checked": rep.queries.get("sat", 0),
                "explanation": "solver: per stack instruction, all register/memory states; ground: descriptor tables vs psABI tables and vs the scalars of a lifted corpus"},
               assumptions=["psABI tables in checks/c20.py are my reading of the System V i386/AMD64, MIPS o32, PowerPC SysV and AAPCS64 documents; only integer argument passing is compared",
                            "ra/lr/x30, gp, k0/k1 and other registers whose status differs between ABI variants are not demanded either way"])


if __name__ == "__main__":
    main()
