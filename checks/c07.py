#!/usr/bin/env python3
"""C07 - the concrete executor implements the IL operational semantics exactly.

(B) Engine B, one symbolic step: the MIR of executor::State::execute (with symbolize_expression,
symbolize_and_eval, eval and the Constant methods inlined) runs on each operation kind with
symbolic scalar values and symbolic memory; z3 decides per path that the successor state is the
smt/ilsem.py meaning (assignment of the evaluated source, store/load of the operand's bytes in the
memory's endianness, branch target) or the documented error - and nothing else changed.
(A) Validation of Driver::step / location.forward (not the deciding step for the claim level):
IL programs are run through the REAL executor::Driver from solver-chosen states (one per feasible
path, plus states in which no guard holds) and compared with smt/replay.py step by step."""
import sys, os, random, json, time, re
sys.path.insert(0, os.path.dirname(os.path.dirname(os.path.abspath(__file__))))
import z3
from checks import common, ilcheck
from smt import drv, il2smt, ilsem, solve, replay, fbmc
from mirsym import interp as I, models as M, containers as K, dump
from gen import ilgen

_prog = None
S, C = ilgen.S, ilgen.C


def program():
    global _prog
    if _prog is None:
        path, _ = dump.mir_path()
        want = lambda n: n.startswith(("state::", "successor::", "constant::", "executor::eval", "expression::", "il::", "operation::", "scalar::",
                                       "const state::", "const constant::", "const expression::", "const il::", "const executor::"))
        _prog = I.Program(path, "/repo/lib", want)
    return _prog


class StrVal:
    def __init__(self, s): self.s = s
    def __repr__(self): return f"Str({self.s})"


class MemVal:
    """paged::Memory<Constant> abstracted as a byte array + an uninterpreted 'mapped' predicate (C08 ties the real one to this)."""
    def __init__(self, endian):
        self.arr = z3.Array("mem", z3.BitVecSort(64), z3.BitVecSort(8))
        self.mapped = z3.Function("mapped", z3.BitVecSort(64), z3.BoolSort())
        self.written = []      # addresses made mapped by stores in this step
        self.endian = endian
        self.stores = []


def m_str_id(it, callee, args):
    return args[0]


def smap_get(it, callee, args):
    m = M.val(args[0]); k = M.val(args[1])
    for kk, v in m.entries:
        if kk.s == k.s:
            return M.some(I.ValRef(v))
    return M.none()


def smap_insert(it, callee, args):
    m = M.val(args[0]); k = M.val(args[1]); v = args[2]
    for e in m.entries:
        if e[0].s == k.s:
            old = e[1]; e[1] = v
            return M.some(old)
    m.entries.append([k, v])
    return M.none()


def m_const_into_expr(it, callee, args):
    return I.Agg("enum", "Expression", [M.val(args[0])], it.prog.enums["Expression"].index("Constant"))


def m_mem_store(it, callee, args):
    mem = M.val(args[0]); addr = M.val(args[1]); c = M.val(args[2])
    bits = c.fields[1]
    if not z3.is_bv_value(bits):
        raise I.Unsupported("store of symbolic width")
    w = bits.as_long()
    if w % 8 != 0 or w == 0:
        return I.Agg("enum", "Result", [I.Agg("enum", "Error", [I.Opaque("msg")], it.prog.enums["Error"].index("Custom"))], 1)
    v = z3.Extract(w - 1, 0, c.fields[0].t)
    n = w // 8
    for i in range(n):
        lane = i if mem.endian == "little" else n - 1 - i
        mem.arr = z3.Store(mem.arr, addr + i, z3.Extract(8 * lane + 7, 8 * lane, v))
        mem.written.append(addr + i)
    mem.stores.append((addr, w, v))
    return I.Agg("enum", "Result", [None], 0)


def m_mem_load(it, callee, args):
    mem = M.val(args[0]); addr = M.val(args[1]); bits = M.val(args[2])
    if not z3.is_bv_value(bits):
        raise I.Unsupported("load of symbolic width")
    w = bits.as_long()
    if w % 8 != 0 or w == 0:
        return I.Agg("enum", "Result", [I.Agg("enum", "Error", [I.Opaque("msg")], it.prog.enums["Error"].index("Custom"))], 1)
    n = w // 8
    allm = z3.And(*[z3.Or(mem.mapped(addr + i), *[addr + i == x for x in mem.written]) for i in range(n)])
    if it.branch(allm):
        bs = [z3.Select(mem.arr, addr + i) for i in range(n)]
        if mem.endian == "little": bs = list(reversed(bs))
        t = bs[0] if n == 1 else z3.Concat(*bs)
        c = I.Agg("struct", "Constant", [I.BigU(z3.ZeroExt(it.W - w, t)), z3.BitVecVal(w, 64)])
        return I.Agg("enum", "Result", [M.some(c)], 0)
    return I.Agg("enum", "Result", [M.none()], 0)


EXEC_MODELS = [
    (M.R(r"il::scalar::Scalar::name$|scalar::Scalar::name$"), lambda it, c, a: M.val(a[0]).fields[0]),
    (M.R(r"<std::string::String as Deref>::deref$|<S as Into<std::string::String>>::into$|<&str as Into<std::string::String>>::into$|<str as ToOwned>::to_owned$|<std::string::String as Clone>::clone$|String as From<&str>>::from$"), m_str_id),
    (M.R(r"BTreeMap::<std::string::String, constant::Constant>::get::<str>$"), smap_get),
    (M.R(r"BTreeMap::<std::string::String, constant::Constant>::insert$"), smap_insert),
    (M.R(r"<constant::Constant as Into<expression::Expression>>::into$"), m_const_into_expr),
    (M.R(r"paged::Memory::<constant::Constant>::store$"), m_mem_store),
    (M.R(r"paged::Memory::<constant::Constant>::load$"), m_mem_load),
    (M.R(r" as Clone>::clone$"), lambda it, c, a: K.copy_value(M.val(a[0]))),
    (M.R(r"Box::<.*>::new$"), lambda it, c, a: I.box(a[0])),
    (M.R(r"must_use::<"), lambda it, c, a: a[0]),
]


def mir_scalar(prog, s):
    ssa = I.Agg("enum", "Option", [], 0) if s[3] is None else I.Agg("enum", "Option", [z3.BitVecVal(s[3], 64)], 1)
    return I.Agg("struct", "Scalar", [StrVal(s[1]), z3.BitVecVal(s[2], 64), ssa])


def mir_expr(prog, e, W):
    ev = prog.enums["Expression"]
    t = e[0]
    names = {"scalar": "Scalar", "const": "Constant", "add": "Add", "sub": "Sub", "mul": "Mul", "divu": "Divu", "modu": "Modu", "divs": "Divs", "mods": "Mods",
             "and": "And", "or": "Or", "xor": "Xor", "shl": "Shl", "shr": "Shr", "ashr": "AShr", "cmpeq": "Cmpeq", "cmpneq": "Cmpneq", "cmplts": "Cmplts", "cmpltu": "Cmpltu",
             "zext": "Zext", "sext": "Sext", "trun": "Trun", "ite": "Ite"}
    vi = ev.index(names[t])
    if t == "scalar":
        return I.Agg("enum", "Expression", [mir_scalar(prog, e)], vi)
    if t == "const":
        return I.Agg("enum", "Expression", [I.Agg("struct", "Constant", [I.BigU(z3.BitVecVal(int(e[1]), W)), z3.BitVecVal(e[2], 64)])], vi)
    if t in ("zext", "sext", "trun"):
        return I.Agg("enum", "Expression", [z3.BitVecVal(e[1], 64), I.box(mir_expr(prog, e[2], W))], vi)
    return I.Agg("enum", "Expression", [I.box(mir_expr(prog, x, W)) for x in e[1:]], vi)


def mir_op(prog, op, W):
    ov = prog.enums["Operation"]
    t = op[0]
    if t == "assign": return I.Agg("enum", "Operation", [mir_scalar(prog, op[1]), mir_expr(prog, op[2], W)], ov.index("Assign"))
    if t == "store": return I.Agg("enum", "Operation", [mir_expr(prog, op[1], W), mir_expr(prog, op[2], W)], ov.index("Store"))
    if t == "load": return I.Agg("enum", "Operation", [mir_scalar(prog, op[1]), mir_expr(prog, op[2], W)], ov.index("Load"))
    if t == "branch": return I.Agg("enum", "Operation", [mir_expr(prog, op[1], W)], ov.index("Branch"))
    if t == "intrinsic": return I.Agg("enum", "Operation", [I.Opaque("intrinsic")], ov.index("Intrinsic"))
    return I.Agg("enum", "Operation", [I.Agg("enum", "Option", [], 0)], ov.index("Nop"))


def ops_for(w, aw):
    """Operations exercising each kind; scalars a,b (w bits), f (1 bit), p (address width aw); u is undefined."""
    a, b, f, p, u, d = S("a", w), S("b", w), S("f", 1), S("p", aw), S("u", w), S("d", w)
    out = [
        ["assign", d, a], ["assign", d, ["add", a, C(5, w)]], ["assign", a, ["sub", a, b]], ["assign", d, ["ite", f, a, b]],
        ["assign", d, ["divu", a, b]], ["assign", d, ["mods", a, b]],
        # only the selected arm of an ite is evaluated: a fault in the other arm must not surface
        ["assign", d, ["ite", f, a, ["divu", a, b]]], ["assign", d, ["ite", ["cmpeq", b, C(0, w)], C(1, w), ["divs", a, b]]], ["store", p, ["ite", f, ["modu", a, b], b]], ["assign", d, ["xor", ["shl", a, C(1, w)], ["shr", b, C(w - 1, w)]]],
        ["assign", S("f", 1), ["cmplts", a, b]], ["assign", d, u], ["assign", d, ["add", a, u]],
        ["store", p, a], ["store", ["add", p, C(4, aw)], ["and", a, b]], ["store", p, u], ["store", S("q", aw), a],
        ["load", d, p], ["load", d, ["sub", p, C(1, aw)]], ["load", S("a", w), p], ["load", d, S("q", aw)],
        ["branch", p], ["branch", ["add", p, C(8, aw)]], ["branch", S("q", aw)],
        ["intrinsic", {}], ["nop"],
    ]
    if w > 8:
        out += [["assign", S("n", 8), ["trun", 8, a]], ["assign", d, ["zext", w, ["trun", 8, a]]], ["store", p, ["trun", 8, a]], ["load", S("n", 8), p]]
    return out


def check_execute(item):
    w, aw, endian, op = item["w"], item["aw"], item["endian"], item["op"]
    prog = program()
    fn = [n for n in prog.raw if n.startswith("state::<impl at lib/executor/state.rs:") and n.endswith(">::execute")][0]
    W = max(2 * max(w, aw) + 8, 72)
    A, B = z3.BitVec("A", W), z3.BitVec("B", W)
    F, Pv, D, N = z3.BitVec("F", W), z3.BitVec("P", W), z3.BitVec("D", W), z3.BitVec("N", W)
    vals = {"a": (A, w), "b": (B, w), "f": (F, 1), "p": (Pv, aw), "d": (D, w), "n": (N, 8)}
    inv = z3.And(*[z3.ULT(t, z3.BitVecVal(1 << bits, W)) for t, bits in vals.values()])
    holder = {}

    def mk(it):
        it.solver.add(inv); it.pc.append(inv)
        entries = [[StrVal(k), I.Agg("struct", "Constant", [I.BigU(t), z3.BitVecVal(bits, 64)])] for k, (t, bits) in vals.items()]
        mem = MemVal(endian)
        st = I.Agg("struct", "State", [K.MapVal(entries), mem])
        holder["mem"] = mem; holder["mem0"] = mem.arr
        return [st, I.ValRef(mir_op(prog, op, W))]
    out = {"what": f"{json.dumps(op)[:70]} w={w} aw={aw} {endian}", "paths": 0, "unsat": 0, "findings": [], "undecided": [], "solver_s": 0.0, "fn": fn, "hash": prog.func(fn).text_hash, "calls": set()}
    it = I.Interp(prog, W=W, models=EXEC_MODELS + K.CONTAINER_MODELS + M.MODELS, timeout_ms=20000)
    it.div_mode = "exact" if w <= 12 else "uf"
    # reference semantics with il2smt over the same symbols
    ctx = il2smt.Ctx(endian=endian)
    for k, (t, bits) in vals.items():
        ctx.inputs[k] = z3.Extract(bits - 1, 0, t)
    defined = set(vals)

    def undefined_read(e):
        return any(s_[1] not in defined for s_ in il2smt.scalars_of(e))
    kind = op[0]
    if it.div_mode == "uf":
        # division is num-bigint's: both sides use the same uninterpreted quotient/remainder (C04 ties it to bvudiv/bvsdiv)
        orig_binop = ilsem.z3_binop

        def binop_uf(o, x, y):
            if o in ("divu", "modu", "divs", "mods"):
                fsym = M.uf(it, {"divu": "udiv", "modu": "urem", "divs": "sdiv", "mods": "srem"}[o])
                ext = z3.ZeroExt if o in ("divu", "modu") else z3.SignExt
                return z3.Extract(x.size() - 1, 0, fsym(ext(W - x.size(), x), ext(W - y.size(), y)))
            return orig_binop(o, x, y)
        ilsem.z3_binop = binop_uf
    exprs = {"assign": op[2:3], "store": op[1:3], "load": op[2:3], "branch": op[1:2]}.get(kind, [])
    has_undef = any(undefined_read(e) for e in exprs)
    for r in I.explore(it, fn, mk, max_paths=600):
        out["paths"] += 1; out["calls"] |= set(r["calls"])
        pc = r["pc"]
        if r["outcome"] == "unsupported":
            out["undecided"].append("unsupported: " + r["msg"][:160]); continue
        if r["outcome"] == "panic":
            v, m, dt = solve.check(pc, 30000); out["solver_s"] += dt
            if v == solve.SAT:
                out["findings"].append({"kind": "panic", "detail": r["msg"][:100], "model": {k: solve.model_val(m, t) for k, (t, _) in vals.items()}})
            continue
        res = r["value"]
        mem = holder["mem"]
        st_ref = il2smt.initial_state(ctx)
        ctx.faults = []
        wrong = None
        if res.variant == 1:
            ename = prog.enums["Error"][res.fields[0].variant]
            # expected error kinds
            if kind == "intrinsic":
                ok = z3.BoolVal(ename == "UnhandledIntrinsic")
            elif has_undef:
                ok = z3.BoolVal(ename == "ExecutorScalar")
            else:
                vs = [il2smt.ev(ctx, st_ref, e) for e in exprs]
                dz = z3.Or(*[c for kk, c in ctx.faults if kk == "divzero"]) if ctx.faults else z3.BoolVal(False)
                if ename == "DivideByZero": ok = dz
                elif ename == "ExecutorInvalidAddress" and kind == "load":
                    a64 = il2smt.addr64(vs[0]); n = op[1][2] // 8
                    ok = z3.Not(z3.And(*[mem.mapped(a64 + i) for i in range(n)]))
                else: ok = z3.BoolVal(False)
            wrong = z3.Not(ok)
            desc = f"returns Err({ename})"
        else:
            succ = res.fields[0]
            state2, stype = succ.fields
            sc2 = {e[0].s: e[1] for e in state2.fields[0].entries}
            tv = prog.enums["SuccessorType"]
            if has_undef or kind == "intrinsic":
                wrong = z3.BoolVal(True); desc = "returns Ok although a scalar is undefined / an intrinsic was met"
            else:
                vs = [il2smt.ev(ctx, st_ref, e) for e in exprs]
                dz = z3.Or(*[c for kk, c in ctx.faults if kk == "divzero"]) if ctx.faults else z3.BoolVal(False)
                conds = [dz]
                exp_sc = {k: (z3.Extract(bits - 1, 0, t), bits) for k, (t, bits) in vals.items()}
                exp_mem = holder["mem0"]
                exp_type = "FallThrough"
                if kind == "assign":
                    exp_sc[op[1][1]] = (vs[0], op[1][2])
                elif kind == "store":
                    exp_mem = il2smt.store_bytes(exp_mem, il2smt.addr64(vs[0]), vs[1], endian)
                elif kind == "load":
                    a64 = il2smt.addr64(vs[0]); n = op[1][2] // 8
                    conds.append(z3.Not(z3.And(*[mem.mapped(a64 + i) for i in range(n)])))
                    exp_sc[op[1][1]] = (il2smt.load_bytes(exp_mem, a64, n, endian), op[1][2])
                elif kind == "branch":
                    exp_type = "Branch"
                if tv[stype.variant] != exp_type:
                    conds.append(z3.BoolVal(True))
                elif exp_type == "Branch":
                    conds.append(stype.fields[0] != il2smt.addr64(vs[0]))
                if set(sc2) != set(exp_sc):
                    conds.append(z3.BoolVal(True))
                else:
                    for k, (tv_, bits) in exp_sc.items():
                        c = sc2[k]
                        conds.append(z3.Or(c.fields[1] != z3.BitVecVal(bits, 64), c.fields[0].t != z3.ZeroExt(W - bits, tv_)))
                conds.append(mem.arr != exp_mem)
                wrong = z3.Or(*conds)
                desc = "successor state differs from the IL semantics"
        v, m, dt = solve.check(pc + [wrong], 60000); out["solver_s"] += dt
        if v == solve.UNSAT: out["unsat"] += 1
        elif v == solve.UNDECIDED: out["undecided"].append("value query")
        else:
            out["findings"].append({"kind": "wrong-step", "detail": desc, "model": {k: solve.model_val(m, t) for k, (t, _) in vals.items()}})
    if it.div_mode == "uf":
        ilsem.z3_binop = orig_binop
    out["calls"] = sorted(out["calls"])
    return out


# ------------------------------------------------------------ (A) driver validation --

def check_driver(item):
    """Real executor::Driver vs smt/replay.py on solver-chosen states, one per feasible block path."""
    f = ilcheck.view(item["f"]); k = item["k"]
    out = {"what": str(f["meta"]), "paths": 0, "agree": 0, "findings": [], "solver_s": 0.0}
    ctx = il2smt.Ctx()
    lane = fbmc.Lane(f["cfg"], ctx)
    targets = []      # (description, guard) for which a concrete state is requested

    class H(fbmc.Hooks):
        def terminal(self, b, g, sts): targets.append((f"end at block {b}", g))
        def path_end(self, b, pos, ins, g, sts, kinds): targets.append((f"{kinds[0]} at block {b}", g))
        def edge_taken(self, e, ge, sts): targets.append((f"edge {e['head']}->{e['tail']}", ge))
    try:
        fbmc.run([lane], k, H())
    except il2smt.SortError as e:
        return out
    for kind, c in ctx.faults:
        targets.append((f"fault:{kind}", c))
    seen = set()
    for desc, g in targets[:40]:
        gg = z3.BoolVal(True) if g is True else g
        v, m, dt = solve.check([gg] + ctx.c04_assumptions, 10000); out["solver_s"] += dt
        if v != solve.SAT:
            continue
        scm, mem_read = ilcheck.model_inputs(ctx, m)
        key = json.dumps(scm, sort_keys=True)
        if key in seen: continue
        seen.add(key)
        out["paths"] += 1
        # reference run (replay.py), collecting the memory bytes it reads
        st, ending = ilcheck.concrete_run(f, scm, mem_read, max_steps=300)
        memb = {a: mem_read(a) for a in st.mem if a not in {x for (ad, n, v_) in st.stores for x in range(ad, ad + n)}}
        for (ad, n, v_) in st.stores:
            pass
        # initial memory = every byte the reference read before writing it
        init_mem = {}
        st2 = replay.CState({kk: (vv[0], vv[1]) for kk, vv in scm.items()}, mem_read=lambda a: init_mem.setdefault(a, mem_read(a)))
        try:
            end2 = replay.run_cfg(st2, f["cfg"], max_steps=300, stop_at_exit=False)
        except replay.Fault as e:
            end2 = ("fault", e.kind)
        names = sorted(set(st2.sc) | set(scm))
        watch = sorted(set(st2.mem))[:64]
        r = ilcheck.real_exec(f, scm, init_mem, 400, names, watch)
        if "panic" in r or "died" in r or not r.get("ok"):
            out["findings"].append({"kind": "driver-crash", "detail": str(r)[:200], "state": scm}); continue
        # compare: trace of instruction locations, final scalars, watched memory, error kind
        ref_trace = [["ins", t_[1], t_[2]] for t_ in st2.trace if t_[0] == "ins"]
        real_trace = [t_ for t_ in r["trace"] if t_[0] == "ins"]
        errk = (r["error"] or {}).get("kind") if r.get("error") else None
        exp_err = {"fault": {"divzero": "DivideByZero", "undefined-scalar": "ExecutorScalar", "unmapped": "ExecutorInvalidAddress", "sort": "Sort", "c04-ashr": None}.get(end2[1] if end2[0] == "fault" else "", None),
                   "noedge": "ExecutorNoValidLocation", "intrinsic": "UnhandledIntrinsic"}.get(end2[0])
        bad = []
        if end2[0] == "steps":
            n_ = min(len(ref_trace), len(real_trace))
            if ref_trace[:n_] != real_trace[:n_]: bad.append("trace prefix")
        else:
            if ref_trace != real_trace: bad.append(f"trace {real_trace[-3:]} vs reference {ref_trace[-3:]}")
            if (exp_err or None) != errk and not (end2[0] == "fault" and end2[1] == "c04-ashr"):
                bad.append(f"error {errk} vs reference {exp_err} ({end2})")
            if end2[0] in ("end", "branch"):
                for nme in names:
                    rv = r["scalars"].get(nme)
                    ev_ = st2.sc.get(nme)
                    if (rv is None) != (ev_ is None) or (rv is not None and (int(rv[0]) != ev_[0] or rv[1] != ev_[1])):
                        bad.append(f"scalar {nme}: {rv} vs {ev_}")
                for (ad, bv_) in r["watch"]:
                    if bv_ is not None and st2.mem.get(ad) != bv_:
                        bad.append(f"mem[{ad:#x}]")
                if end2[0] == "branch" and r.get("branch_target") != end2[1]:
                    bad.append("branch target")
        if bad:
            out["findings"].append({"kind": "driver-differs", "detail": "; ".join(bad[:3]), "state": scm, "target": desc})
        else:
            out["agree"] += 1
    return out


def extra_exec(gen, blocks):
    r = gen.rnd
    if r.random() < 0.3:
        blocks[-1]["instructions"].append({"op": ["branch", ilgen.S("x", gen.widths[0])], "address": 0x2010})


def nonexhaustive(f, rnd):
    """Drop one of two complementary guards' targets' condition -> a state where no guard holds exists."""
    for e in f["cfg"]["edges"]:
        if e["cond"] is not None and e["cond"][0] == "cmpeq" and rnd.random() < 0.5:
            e["cond"] = ["and", e["cond"], ilgen.S("g", 1)]
            break
    return f


def check_branch_resolution(item):
    """Driver::step across a Branch: the next location is the instruction of the program that has the target address
    (validation with the real Driver; the reference is the address map of the program)."""
    w = 64
    def ins(op, addr): return {"op": op, "address": addr}
    def blk(i, instrs): return {"index": i, "instructions": [dict(x, index=j) for j, x in enumerate(instrs)], "phis": []}
    T = item["target"]
    f1 = {"address": 0x1000, "cfg": {"blocks": [blk(0, [ins(["assign", S("x", w), C(1, w)], 0x1000), ins(["branch", C(T, w)], 0x1004)])], "edges": [], "entry": 0, "exit": 0}}
    f2 = {"address": 0x2000, "cfg": {"blocks": [blk(0, [ins(["assign", S("y", w), C(2, w)], 0x2000), ins(["assign", S("z", w), C(3, w)], 0x2004)]),
                                               blk(1, [ins(["assign", S("v", w), C(4, w)], 0x1ff0), ins(["assign", S("v", w), C(5, w)], 0x2008)])],
                                    "edges": [{"head": 0, "tail": 1, "cond": None}], "entry": 0, "exit": 1}}
    f3 = {"address": 0x3000, "cfg": {"blocks": [blk(0, [ins(["assign", S("t", w), C(6, w)], 0x3000), ins(["assign", S("t", w), C(7, w)], 0x1800)])], "edges": [], "entry": 0, "exit": 0}}
    where = {0x1000: (0, 0, 0), 0x1004: (0, 0, 1), 0x2000: (1, 0, 0), 0x2004: (1, 0, 1), 0x1ff0: (1, 1, 0), 0x2008: (1, 1, 1), 0x3000: (2, 0, 0), 0x1800: (2, 0, 1)}
    out = {"what": f"branch to {T:#x}", "paths": 1, "agree": 0, "findings": [], "solver_s": 0.0}
    r = drv.call({"cmd": "exec", "arch": "amd64", "function": f1, "more_functions": [f2, f3], "scalars": {}, "mem": [], "steps": 2, "follow_branches": True, "report": ["x"], "watch": []})
    if not r.get("ok"):
        out["findings"].append({"kind": "driver-crash", "detail": str(r)[:200], "state": {}}); return out
    exp = where.get(T)
    if r.get("error"):
        out["findings"].append({"kind": "driver-differs", "detail": f"branch to {T:#x} (an instruction of the program has this address) fails: {json.dumps(r['error'])[:160]}", "state": {"target": T}, "target": "branch"})
    elif r.get("final_address") != T or r.get("final_function") != exp[0] or r.get("final_location") != ["ins", exp[1], exp[2]]:
        out["findings"].append({"kind": "driver-differs", "detail": f"branch to {T:#x} continues at function {r.get('final_function')} {r.get('final_location')} address {r.get('final_address')}, expected function {exp[0]} ['ins', {exp[1]}, {exp[2]}]", "state": {"target": T}, "target": "branch"})
    else:
        out["agree"] += 1
    return out


def work(item):
    if item["t"] == "branchres": return check_branch_resolution(item)
    return check_execute(item) if item["t"] == "exec" else check_driver(item)


def main():
    drv.build()
    rep = common.Report("C07", "model_checking")
    path, dt = dump.mir_path()
    rep.extra["mir_dump_seconds"] = round(dt, 1)
    items = []
    combos = [(8, 64, "little"), (32, 32, "big"), (64, 64, "little")] if rep.tier == "quick" else [(8, 64, "little"), (8, 32, "big"), (16, 64, "big"), (32, 32, "little"), (32, 32, "big"), (64, 64, "little"), (64, 64, "big"), (128, 64, "little")]
    for w, aw, en in combos:
        for op in ops_for(w, aw):
            items.append({"t": "exec", "w": w, "aw": aw, "endian": en, "op": op})
    nfun = 40 if rep.tier == "quick" else 300
    fs = ilgen.corpus(11000 + rep.seed, nfun, profile="mixed", widths=(32, 8), extra=extra_exec)
    hr = random.Random(rep.seed + 9)
    holed = ilgen.corpus(11500 + rep.seed, nfun // 2, profile="mixed", widths=(32,))
    for f in holed:
        ilgen.add_holes(f, hr); f["meta"]["holes"] = True
    nonex = [nonexhaustive(f, hr) for f in ilgen.corpus(11700 + rep.seed, nfun // 2, profile="const", widths=(32,))]
    for f in nonex: f["meta"]["nonexhaustive"] = True
    for f in fs + holed + nonex:
        items.append({"t": "driver", "f": f, "k": ilcheck.k_for(f, rep.tier)})
    for tgt in (0x2000, 0x2004, 0x1ff0, 0x2008, 0x1000, 0x3000, 0x1800):
        items.append({"t": "branchres", "target": tgt})
    results = common.pmap(work, items, chunksize=2)
    fns = {}
    paths = 0; agree = 0; dpaths = 0
    for it, r in zip(items, results):
        if "crash" in r:
            rep.encoder_defect(f"{str(it)[:120]}: {r['crash']} {r.get('trace','')[-500:]}"); continue
        rep.solver_s += r["solver_s"]
        if it["t"] == "exec":
            paths += r["paths"]; rep.queries["unsat"] += r["unsat"]
            fns[r["fn"]] = r["hash"]
            for c in r["calls"]: fns.setdefault(c, "inlined")
            for u in r["undecided"]:
                rep.count("undecided"); rep.undecided.append(f"{r['what']}: {u}")
                if "unsupported" in u: rep.encoder_defect(f"{r['what']}: {u}")
            if r["unsat"] and not r["findings"]:
                rep.sample({"operation": r["what"], "paths": r["paths"], "obligations_unsat": r["unsat"]}, cap=8)
            for f in r["findings"]:
                rep.count("sat")
                rep.violation(f"executor/State::execute/{it['op'][0]}/{f['kind']}", f"{r['what']}: {f['detail']} (scalars {f['model']})", {"item": it, "finding": f})
        else:
            dpaths += r["paths"]; agree += r["agree"]
            for f in r["findings"]:
                rep.ground["failed"] += 1
                sig = f"executor/Driver::step/{f['kind']}" + ("/branch-resolution" if it["t"] == "branchres" else "")
                rep.violation(sig, f"{r['what']}: {f['detail']} from state {json.dumps(f['state'])[:200]}", {"function": it.get("f"), "finding": f})
    rep.ground["checked"] += dpaths
    rep.functions_encoded = [f"{k} [{v}]" for k, v in sorted(fns.items())][:60]
    rep.bounds = {"step": "one State::execute step per operation kind x expression shape x width", "widths": [c[0] for c in combos],
                  "driver_validation": f"{dpaths} solver-chosen states through the real Driver ({agree} agree with smt/replay.py)",
                  "outside": "multi-step traces are covered by induction over the single step; Driver::step / location.forward only by the validation runs; on-demand lifting at indirect branch targets"}
    rep.extra["models"] = [p.pattern for p, _ in EXEC_MODELS]
    rep.finish({"states": max(1, paths), "transitions": max(1, rep.queries["unsat"] + rep.queries["sat"]), "traces_validated_against_impl": dpaths,
                "explanation": "states = MIR paths through State::execute (symbolic scalars and memory); transitions = per-path obligations against smt/ilsem.py; traces_validated = real Driver runs compared with the reference evaluator"},
               assumptions=["paged memory = byte array with a mapped-set (tied to the real paged memory by C08)", "num-bigint / std models as in C04 and C16",
                            "scalars map keyed by name only (as State does)"])


if __name__ == "__main__":
    main()
