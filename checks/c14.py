#!/usr/bin/env python3
"""C14 - dead-code elimination preserves observable behaviour.

Real `analysis::dead_code_elimination` runs on each generated/lifted IL function; the solver
decides, for all initial states, whether input and output can be told apart within k block-steps."""
import sys, os, random, json
sys.path.insert(0, os.path.dirname(os.path.dirname(os.path.abspath(__file__))))
import z3
from checks import common, ilcheck
from smt import drv, il2smt, fbmc, solve, replay
from gen import ilgen


def extra_dce(gen, blocks):
    """Fillers aimed at DCE: dead stores to scalars, assignments used only by a two-scalar
    instruction, intrinsics (declared / undeclared), an indirect branch at the end."""
    r = gen.rnd
    w = gen.widths[0]
    S, C = ilgen.S, ilgen.C
    k = r.random()
    b = r.choice(blocks)
    if k < 0.25:
        b["instructions"].insert(0, {"op": ["assign", S("t", w), gen.expr(w, 1)], "address": 0x2000})
        b["instructions"].append({"op": ["assign", S("a", w), ["add", S("t", w), S("b", w)]], "address": 0x2004})
    elif k < 0.4:
        b["instructions"].insert(r.randint(0, len(b["instructions"])), {"op": gen.intrinsic(True), "address": 0x2008})
    elif k < 0.55:
        b["instructions"].insert(r.randint(0, len(b["instructions"])), {"op": gen.intrinsic(False), "address": 0x2008})
    elif k < 0.7:
        b["instructions"].insert(0, {"op": ["assign", S("dead", w), gen.expr(w, 1)], "address": 0x200c})
    elif k < 0.8:
        last = blocks[-1]
        last["instructions"].append({"op": ["branch", S("x", w)], "address": 0x2010})


def flag_diamonds(rnd, n):
    """A flag defined on both arms of a diamond, read only by the edge guards after the join, and overwritten on both
    successors before anything else reads it (the guard is the only use of the arm definitions)."""
    S, C = ilgen.S, ilgen.C
    out = []
    for i in range(n):
        w = 32
        flags = ["f"] + (["g"] if rnd.random() < 0.5 else [])
        def ins(op, a): return {"op": op, "address": a}
        k0 = rnd.choice([1, 5, 10, 100])
        arm1 = [ins(["assign", S(fl, 1), C(rnd.choice([0, 1]), 1)], 0x1010 + 4 * j) for j, fl in enumerate(flags)]
        arm2 = [ins(["assign", S(fl, 1), ["cmpeq", S("a", w), C(rnd.choice([0, 3, 7]), w)] if rnd.random() < 0.5 else C(1 - arm1[j]["op"][2][1] if False else rnd.choice([0, 1]), 1)], 0x1020 + 4 * j) for j, fl in enumerate(flags)]
        if rnd.random() < 0.5: arm1.append(ins(["store", C(0x1000, 64), S("a", w)], 0x1018))
        fl = flags[-1]
        guard = S(fl, 1) if len(flags) == 1 or rnd.random() < 0.5 else ["and", S("f", 1), S("g", 1)]
        join = [ins(["assign", S("t", w), ["add", S("a", w), C(1, w)]], 0x1030)] if rnd.random() < 0.7 else []
        b4 = [ins(["assign", S(x, 1), C(0, 1)], 0x1040 + 4 * j) for j, x in enumerate(flags)] + [ins(["store", C(0x2000, 64), C(7, w)], 0x1048)]
        b5 = [ins(["assign", S(x, 1), C(1, 1)], 0x1050 + 4 * j) for j, x in enumerate(flags)] + [ins(["store", C(0x2000, 64), C(9, w)], 0x1058)]
        b6 = [ins(["store", C(0x3000, 64), S("a", w)], 0x1060)]
        blocks = [[ins(["assign", S("c", 1), ["cmpltu", S("a", w), C(k0, w)]], 0x1000)], arm1, arm2, join, b4, b5, b6]
        bl = [{"index": bi, "instructions": [dict(x, index=j) for j, x in enumerate(b)], "phis": []} for bi, b in enumerate(blocks)]
        edges = [{"head": 0, "tail": 1, "cond": S("c", 1)}, {"head": 0, "tail": 2, "cond": ["cmpeq", S("c", 1), C(0, 1)]}, {"head": 1, "tail": 3, "cond": None}, {"head": 2, "tail": 3, "cond": None},
                 {"head": 3, "tail": 4, "cond": guard}, {"head": 3, "tail": 5, "cond": ["cmpeq", guard, C(0, 1)]}, {"head": 4, "tail": 6, "cond": None}, {"head": 5, "tail": 6, "cond": None}]
        out.append({"address": 0x1000, "cfg": {"entry": 0, "exit": 6, "blocks": bl, "edges": edges}, "meta": {"skeleton": "flag-diamond", "profile": "guard-only-use", "id": i}})
    return out


def check_one(item):
    f = ilcheck.view(item["f"]); tier = item["tier"]
    res = {"id": f["meta"], "status": None}
    r = ilcheck.call_fn("dce", f)
    if "panic" in r or "died" in r:
        res.update(status="panic", detail=r.get("panic", str(r))); return res
    if not r.get("ok"):
        res.update(status="error", detail=r.get("error")); return res
    g = r["function"]
    # ground: only op -> nop replacements
    errs = fbmc.same_shape(f["cfg"], g["cfg"])
    changed = 0
    for ba, bb in zip(f["cfg"]["blocks"], g["cfg"]["blocks"]):
        for ia, ib in zip(ba["instructions"], bb["instructions"]):
            if ia["op"] != ib["op"]:
                changed += 1
                if ib["op"] != ["nop"]:
                    errs.append(f"block {ba['index']} ins {ia['index']}: replaced by {ib['op'][0]}, not nop")
    for ea, eb in zip(sorted(f["cfg"]["edges"], key=lambda e: (e["head"], e["tail"])), sorted(g["cfg"]["edges"], key=lambda e: (e["head"], e["tail"]))):
        if ea["cond"] != eb["cond"]:
            errs.append("edge condition changed")
    res["changed"] = changed
    if errs:
        res.update(status="ground-fail", detail="; ".join(errs[:3])); return res
    if changed == 0:
        res.update(status="unchanged"); return res
    k = ilcheck.k_for(f, tier)
    res["k"] = k
    out = compare(f, g, k)
    res.update(out)
    if out["status"] != "sat":
        return res
    # attribute the difference: which removals are explained by a listed defect role?
    expl, unexpl = explain_removals(f, g)
    res["roles"] = sorted({r_ for _, r_ in expl})
    res["unexplained_removed"] = [f"block {b} pos {p}: {op[0]}" for (b, p, op) in unexpl]
    if unexpl and expl:
        # re-check with only the unexplained removals applied
        g2 = json.loads(json.dumps(f))
        for (b, p, op) in unexpl:
            blk = next(x for x in g2["cfg"]["blocks"] if x["index"] == b)
            blk["instructions"][p]["op"] = ["nop"]
        out2 = compare(f, g2, k)
        res["solver_s"] += out2.get("solver_s", 0)
        res["unexplained_status"] = out2["status"]
        if out2["status"] == "sat":
            res["unexplained_which"] = out2["which"]
            res["unexplained_model"] = out2["model"]
            res["unexplained_reproduced"] = out2["reproduced"]
    elif unexpl and not expl:
        res["unexplained_status"] = "sat"
        res["unexplained_which"] = res["which"]; res["unexplained_model"] = res["model"]; res["unexplained_reproduced"] = res["reproduced"]
    res["function"] = f; res["dce"] = g
    return res


def readers(f):
    """[(names read, names written, where)] for all instructions and guarded edges."""
    out = []
    for b in f["cfg"]["blocks"]:
        for ins in b["instructions"]:
            op = ins["op"]
            exprs = {"assign": op[2:], "store": op[1:], "load": op[2:], "branch": op[1:]}.get(op[0], [])
            rd = [s_[1] for e in exprs for s_ in il2smt.scalars_of(e)]      # with multiplicity, as scalars_read()
            wr = {op[1][1]} if op[0] in ("assign", "load") else set()
            if op[0] == "intrinsic" and op[1].get("read"):
                rd += [s_[1] for e in op[1]["read"] for s_ in il2smt.scalars_of(e)]
            out.append((rd, wr, (b["index"], ins["index"])))
    for e in f["cfg"]["edges"]:
        if e["cond"]:
            out.append(([s_[1] for s_ in il2smt.scalars_of(e["cond"])], set(), ("edge", e["head"], e["tail"])))
    return out


def explain_removals(f, g):
    """Split the removed operations into those explained by a listed defect role and the rest."""
    rds = readers(f)
    expl, unexpl = [], []
    for ba, bb in zip(f["cfg"]["blocks"], g["cfg"]["blocks"]):
        for pos, (ia, ib) in enumerate(zip(ba["instructions"], bb["instructions"])):
            if ia["op"] == ib["op"]:
                continue
            op = ia["op"]
            item = (ba["index"], pos, op)
            if op[0] == "intrinsic":
                if op[1]["written"] is None:
                    expl.append((item, "intrinsic with undeclared effects replaced by nop"))
                else:
                    unexpl.append(item)
                continue
            if op[0] in ("assign", "load"):
                n = op[1][1]
                roles = set()
                for rd, wr, where in rds:
                    if n in rd and where != (ba["index"], ia["index"]):
                        if len(rd) >= 2: roles.add("assignment whose use reads two or more scalars removed")
                        if n in wr: roles.add("assignment whose use also writes the same scalar removed")
                for b2 in f["cfg"]["blocks"]:
                    for i2 in b2["instructions"]:
                        if i2["op"][0] == "intrinsic" and i2["op"][1].get("written"):
                            if n in {s_[1] for e in i2["op"][1]["written"] for s_ in il2smt.scalars_of(e)}:
                                roles.add("assignment to a scalar that an intrinsic declares as written removed")
                if roles:
                    for r_ in roles: expl.append((item, r_))
                    continue
            unexpl.append(item)
    return expl, unexpl


def compare(f, g, k):
    res = {}
    ctxa = il2smt.Ctx(prefix="")
    ctxb = il2smt.Ctx(prefix="")
    ctxb.inputs = ctxa.inputs          # common initial state
    ctxb.mem0 = ctxa.mem0
    la, lb = fbmc.Lane(f["cfg"], ctxa), fbmc.Lane(g["cfg"], ctxb)
    viol = []     # (description, z3 Bool)

    def all_scalars_differ(sts):
        keys = set(sts[0].sc) | set(sts[1].sc)
        ds = []
        for kk in sorted(keys):
            va = sts[0].sc.get(kk); vb = sts[1].sc.get(kk)
            w = (va if va is not None else vb).size()
            if va is None: va = ctxa.input(kk, w)
            if vb is None: vb = ctxa.input(kk, w)
            if va is not vb:
                ds.append(va != vb)
        return z3.Or(*ds) if ds else z3.BoolVal(False)

    class H(fbmc.Hooks):
        def before(self, b, pos, ins, g_, sts):
            opa, opb = ins[0]["op"], ins[1]["op"]
            gg = z3.BoolVal(True) if g_ is True else g_
            if opa[0] in ("branch", "intrinsic"):
                viol.append((f"scalar state presented to {opa[0]} at block {b} pos {pos}", z3.And(gg, all_scalars_differ(sts))))
                if opb[0] != opa[0]:
                    viol.append((f"{opa[0]} at block {b} pos {pos} replaced by {opb[0]}", gg))
            if opa[0] == "store":
                if opb[0] != "store":
                    viol.append((f"store at block {b} pos {pos} removed", gg))
                else:
                    aa = il2smt.addr64(il2smt.ev(ctxa, sts[0], opa[1], g_)); ab = il2smt.addr64(il2smt.ev(ctxb, sts[1], opb[1], g_))
                    va = il2smt.ev(ctxa, sts[0], opa[2], g_); vb = il2smt.ev(ctxb, sts[1], opb[2], g_)
                    viol.append((f"store at block {b} pos {pos} differs", z3.And(gg, z3.Or(aa != ab, va != vb))))
            if opa[0] == "branch" and opb[0] == "branch":
                ta = il2smt.ev(ctxa, sts[0], opa[1], g_); tb = il2smt.ev(ctxb, sts[1], opb[1], g_)
                viol.append((f"branch target at block {b} pos {pos}", z3.And(gg, ta != tb)))

        def edge(self, e, g_, sts, conds):
            gg = z3.BoolVal(True) if g_ is True else g_
            ca = conds[0] if conds[0] is not True else z3.BoolVal(True)
            cb = conds[1] if conds[1] is not True else z3.BoolVal(True)
            if ca is not cb:
                viol.append((f"edge {e['head']}->{e['tail']} taken differently", z3.And(gg, ca != cb)))

        def terminal(self, b, g_, sts):
            gg = z3.BoolVal(True) if g_ is True else g_
            viol.append((f"scalars at block {b} (no successors)", z3.And(gg, all_scalars_differ(sts))))
    try:
        info = fbmc.run([la, lb], k, H())
    except il2smt.SortError as e:
        res.update(status="sorterr", detail=str(e)); return res
    nofault = z3.Not(z3.Or(*[c for _, c in ctxa.faults])) if ctxa.faults else z3.BoolVal(True)
    assume = [nofault] + ctxa.c04_assumptions
    res["obligations"] = len(viol)
    v, m, dt = solve.check(assume + [z3.Or(*[c for _, c in viol])] if viol else [z3.BoolVal(False)], 60000)
    res["solver_s"] = dt
    if v == solve.UNSAT:
        vv, _, dt2 = solve.check(assume, 20000, want_model=False); res["solver_s"] += dt2
        res.update(status="unsat" if vv == solve.SAT else "vacuous"); return res
    if v == solve.UNDECIDED:
        res.update(status="undecided"); return res
    which = [d for d, c in viol if z3.is_true(m.eval(c, model_completion=True))]
    sc, mem_read = ilcheck.model_inputs(ctxa, m)
    # replay: concrete run of both functions
    sa, ea = ilcheck.concrete_run(f, sc, mem_read)
    sb, eb = ilcheck.concrete_run(g, sc, mem_read)
    ta = [x for x in sa.trace if x[0] == "block"]; tb = [x for x in sb.trace if x[0] == "block"]
    n_ = min(len(ta), len(tb)); ns = min(len(sa.stores), len(sb.stores))
    differs = (ea != eb) or ta[:n_] != tb[:n_] or sa.stores[:ns] != sb.stores[:ns] or \
        any(sa.sc.get(kk) != sb.sc.get(kk) for kk in set(sa.sc) | set(sb.sc) if ea[0] in ("end", "branch", "intrinsic"))
    kinds = sorted({w_.split(" at ")[0].split(" (")[0] for w_ in which})
    removed = sorted({ia["op"][0] + (":undeclared" if ia["op"][0] == "intrinsic" and ia["op"][1]["written"] is None else "")
                      for ba, bb in zip(f["cfg"]["blocks"], g["cfg"]["blocks"]) for ia, ib in zip(ba["instructions"], bb["instructions"]) if ia["op"] != ib["op"]})
    # real executor on the input function (the transformed one is compared through replay.py)
    memb = {a: b for a, b in sa.mem.items() if a not in {x for (ad, n, v_) in sa.stores for x in range(ad, ad + n)}}
    res.update(status="sat", which=which[:4], reproduced=bool(differs), kinds=kinds, removed=removed,
               model={"scalars": sc, "endings": [list(map(str, ea)), list(map(str, eb))]})
    return res


def classify(res):
    """Role signature of a reproduced violation."""
    f, g = res["function"], res["dce"]
    roles = set()
    for ba, bb in zip(f["cfg"]["blocks"], g["cfg"]["blocks"]):
        for ia, ib in zip(ba["instructions"], bb["instructions"]):
            if ia["op"] != ib["op"]:
                op = ia["op"]
                if op[0] == "intrinsic":
                    roles.add("intrinsic-with-undeclared-effects-removed" if op[1]["written"] is None else "intrinsic-with-declared-effects-removed")
    return roles


def main():
    drv.build()
    rep = common.Report("C14", "translation_validation")
    n = 240 if rep.tier == "quick" else 1500
    fs = ilgen.corpus(1000 + rep.seed, n, profile="mixed", widths=(32, 8), extra=extra_dce)
    fs += ilgen.corpus(5000 + rep.seed, n // 3, profile="const", widths=(32,), extra=extra_dce)
    holed = ilgen.corpus(7000 + rep.seed, n // 3, profile="mixed", widths=(32,), extra=extra_dce)
    hr = random.Random(rep.seed + 99)
    for f in holed:
        ilgen.add_holes(f, hr); f["meta"]["holes"] = True
    fs += holed
    fs += flag_diamonds(random.Random(rep.seed * 31 + 9), 8 if rep.tier == "quick" else 60)
    fs += ilcheck.lifted_corpus(rep.tier)
    items = [{"f": f, "tier": rep.tier} for f in fs]
    results = common.pmap(check_one, items, chunksize=2)
    counts = {}
    for it, r in zip(items, results):
        if "crash" in r:
            rep.encoder_defect(f"{it['f']['meta']}: {r['crash']} {r.get('trace','')[-300:]}"); continue
        st = r["status"]; counts[st] = counts.get(st, 0) + 1
        rep.solver_s += r.get("solver_s", 0)
        if st == "unsat":
            rep.count("unsat")
            rep.sample({"function": it["f"]["meta"], "operations_replaced_by_nop": r["changed"], "k": r["k"], "obligations": r["obligations"], "verdict": "unsat"}, cap=5)
        elif st == "unchanged":
            rep.ground["checked"] += 1
        elif st == "undecided":
            rep.count("undecided"); rep.undecided.append(str(it["f"]["meta"]))
        elif st in ("ground-fail", "panic", "error", "sorterr"):
            rep.ground["checked"] += 1; rep.ground["failed"] += 1
            rep.violation(f"dce/{st}", f"{it['f']['meta']}: {r.get('detail')}", {"function": it["f"], "result": r})
        elif st == "vacuous":
            rep.extra.setdefault("vacuous", []).append(str(it["f"]["meta"]))
        elif st == "sat":
            rep.count("sat")
            if not r["reproduced"]:
                rep.encoder_defect(f"model does not reproduce for {it['f']['meta']}: {r['which']}"); continue
            for role in r.get("roles", []):
                rep.violation("dce/" + role, f"{it['f']['meta']}: {r['which'][:2]} (initial state {json.dumps(r['model']['scalars'])[:200]})",
                              {"function": r["function"], "dce": r["dce"], "model": r["model"], "which": r["which"]})
            if r.get("unexplained_status") == "sat":
                if not r.get("unexplained_reproduced"):
                    rep.encoder_defect(f"model does not reproduce for {it['f']['meta']} (unexplained removals)"); continue
                sig = "dce/removed:" + ",".join(sorted({u.split(': ')[1] for u in r["unexplained_removed"]})) + "/observed:" + ",".join(r["kinds"])
                rep.violation(sig, f"{it['f']['meta']}: removal of {r['unexplained_removed'][:3]} changes behaviour: {r['unexplained_which'][:2]} "
                                   f"(initial state {json.dumps(r['unexplained_model']['scalars'])[:200]})",
                              {"function": r["function"], "dce": r["dce"], "model": r["unexplained_model"], "which": r["unexplained_which"]})
            elif r.get("unexplained_status") == "undecided":
                rep.count("undecided"); rep.undecided.append(str(it["f"]["meta"]) + " (unexplained removals)")
    rep.extra["status_counts"] = counts
    rep.functions_encoded = ["analysis::dead_code_elimination (run concretely per function; input and output IL encoded and compared)"]
    rep.bounds = {"functions": len(items), "k_block_steps": "3x (quick) / 6x (thorough) longest acyclic path", "outside": "functions not generated; executions longer than k block-steps"}
    rep.finish({"programs": len(items), "disagreements_checked": counts.get("sat", 0),
                "explanation": "product run of f and dce(f) from a common symbolic state; z3 asks for any state distinguishing them"},
               assumptions=["input function runs without fault within k (divisor != 0, guards exhaustive)", "smt/ilsem.py is the IL's meaning (tied to the code by C04)"])


def two_scalar_use(r):
    """True if some removed assignment's destination is read by a later instruction/edge that reads >= 2 scalars."""
    f, g = r["function"], r["dce"]
    removed = []
    for ba, bb in zip(f["cfg"]["blocks"], g["cfg"]["blocks"]):
        for ia, ib in zip(ba["instructions"], bb["instructions"]):
            if ia["op"] != ib["op"] and ia["op"][0] in ("assign", "load"):
                removed.append(ia["op"][1][1])
    for b in f["cfg"]["blocks"]:
        for ins in b["instructions"]:
            op = ins["op"]
            exprs = {"assign": op[2:], "store": op[1:], "load": op[2:], "branch": op[1:]}.get(op[0], [])
            names = {s[1] for e in exprs for s in il2smt.scalars_of(e)}
            if len(names) >= 2 and any(x in names for x in removed):
                return True
    for e in f["cfg"]["edges"]:
        if e["cond"]:
            names = {s[1] for s in il2smt.scalars_of(e["cond"])}
            if len(names) >= 2 and any(x in names for x in removed):
                return True
    return False


if __name__ == "__main__":
    main()
