#!/usr/bin/env python3
"""Seeded-change bookkeeping.
  tools_seed.py verify <agent_out_dir> <property> <name>   confirm a sub-agent's change in a scratch worktree, store under seeded/<name>
  tools_seed.py detect <name> [quick|thorough] [check-id]  apply seeded/<name>/patch.diff to /repo, run the check, undo
"""
import json, os, shutil, subprocess, sys, time

V = os.path.dirname(os.path.abspath(__file__))
W = "/tmp/seed/verify"
ENV = dict(os.environ, CARGO_NET_OFFLINE="true", CARGO_TARGET_DIR="/tmp/seed/verify_target")


def sh(cmd, cwd=None, env=None, timeout=3600):
    p = subprocess.run(cmd, shell=True, cwd=cwd, env=env or ENV, stdout=subprocess.PIPE, stderr=subprocess.STDOUT, text=True, timeout=timeout)
    return p.returncode, p.stdout


def verify(src, prop, name):
    if not os.path.isdir(W):
        rc, out = sh(f"git -C /repo worktree add -q --detach {W} HEAD")
        assert rc == 0, out
    sh("git checkout -q --detach && git reset -q --hard && git clean -fdq -e target", cwd=W)
    sh("git -C /repo rev-parse HEAD", cwd=W)
    rc, out = sh("git checkout -q $(git -C /repo rev-parse HEAD)", cwd=W)
    os.makedirs(os.path.join(W, "tests"), exist_ok=True)
    shutil.copy(os.path.join(src, "demo.rs"), os.path.join(W, "tests", "demo.rs"))
    rc0, out0 = sh("cargo test --offline --test demo 2>&1 | tail -15", cwd=W)
    ok_clean = "test result: ok" in out0
    rc, out = sh(f"git apply {os.path.join(src, 'patch.diff')}", cwd=W)
    if rc != 0:
        print("patch does not apply:", out); return False
    rc1, out1 = sh("cargo test --offline --test demo 2>&1 | tail -15", cwd=W)
    demo_fails = "test result: FAILED" in out1 or "error" in out1.lower() and "test result: ok" not in out1
    os.remove(os.path.join(W, "tests", "demo.rs"))
    rc2, out2 = sh("cargo test --offline 2>&1 | grep -E '^test result|warning|error' | head", cwd=W)
    suite_ok = out2.count("test result: ok") >= 2 and "FAILED" not in out2
    sh("git reset -q --hard && git clean -fdq -e target", cwd=W)
    print(f"[{name}] demo passes on clean tree: {ok_clean}; demo fails with patch: {demo_fails}; suite passes with patch: {suite_ok}")
    if not (ok_clean and demo_fails and suite_ok):
        print(out0[-600:], out1[-600:], out2[-600:])
        return False
    dst = os.path.join(V, "seeded", name)
    os.makedirs(dst, exist_ok=True)
    for fn in ("patch.diff", "demo.rs"):
        shutil.copy(os.path.join(src, fn), os.path.join(dst, fn))
    meta = {}
    try:
        meta = json.load(open(os.path.join(src, "meta.json")))
    except Exception:
        pass
    meta["property"] = prop
    meta["confirmed_by_me"] = {"demo_passes_on_clean_tree": ok_clean, "demo_fails_with_patch": demo_fails, "suite_passes_with_patch": suite_ok,
                               "commands": ["cargo test --offline --test demo (clean, then patched)", "cargo test --offline (patched, without the demo)"],
                               "repo_head": sh("git -C /repo rev-parse --short HEAD")[1].strip()}
    json.dump(meta, open(os.path.join(dst, "meta.json"), "w"), indent=1)
    return True


def detect(name, tier="quick", check=None):
    dst = os.path.join(V, "seeded", name)
    meta = json.load(open(os.path.join(dst, "meta.json")))
    prop = check or meta["property"]
    rc, out = sh("git -C /repo status --porcelain | grep -v '^??' | head -3")
    if out.strip():
        print("refusing: /repo has local modifications:", out); return
    rc, out = sh(f"git -C /repo apply {os.path.join(dst, 'patch.diff')}")
    if rc != 0:
        print("patch does not apply to /repo:", out); return
    t0 = time.time()
    try:
        rc, out = sh(f"python3-vt checks/{prop.lower()}.py {tier}", cwd=V, env=dict(os.environ), timeout=7200)
    finally:
        sh("git -C /repo checkout -- .")
    dt = time.time() - t0
    viol = [l for l in out.splitlines() if l.startswith("VIOLATION") or l.startswith("  signature") or l.startswith("  what")]
    print(f"[{name}] check {prop} {tier}: exit={rc} in {dt:.0f}s; {sum(1 for l in viol if l.startswith('VIOLATION'))} violation line(s)")
    for l in viol[:9]:
        print("   ", l[:400])
    if rc not in (0, 1):
        print(out[-1500:])
    meta.setdefault("detection", {})[f"{prop}:{tier}"] = {"exit": rc, "violations": [l for l in viol if "signature" in l][:6], "seconds": round(dt)}
    json.dump(meta, open(os.path.join(dst, "meta.json"), "w"), indent=1)
    # restore the evidence/driver build for the unchanged tree
    return rc


if __name__ == "__main__":
    if sys.argv[1] == "verify":
        ok = verify(sys.argv[2], sys.argv[3], sys.argv[4])
        sys.exit(0 if ok else 1)
    if sys.argv[1] == "detect":
        detect(sys.argv[2], *(sys.argv[3:]))
