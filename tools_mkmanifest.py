#!/usr/bin/env python3
"""Regenerates MANIFEST.json from the table below (kept in one place so it stays valid)."""
import json, os
V = os.path.dirname(os.path.abspath(__file__))
CHECKS = {}
NA = {}
exec(open(os.path.join(V, "manifest_table.py")).read())
props = [json.loads(l)["id"] for l in open(os.path.join(V, "properties.jsonl"))]
checks = []
for pid in props:
    if pid in CHECKS:
        c = CHECKS[pid]
        checks.append({
            "property_id": pid,
            "quick_cmd": f"python3-vt checks/{pid.lower()}.py quick",
            "thorough_cmd": f"python3-vt checks/{pid.lower()}.py thorough",
            "evidence_file": f"/verif/evidence/{pid}.json",
            "replay_cmd_template": "python3-vt checks/replay.py {path}",
            "engine": c["engine"],
            "level_claimed": {"category": c["level"], "text": c["text"], "design_ref": c["ref"]},
            "level_note": c["note"],
            "technique": c["technique"],
        })
na = [{"property_id": p, "reason": NA[p]} for p in props if p not in CHECKS]
m = {
    "version": 1,
    "setup_cmd": "bash setup.sh",
    "hooks": {"guard": "falcon_verif", "enable": "none needed: all checks reach falcon through its public API from the out-of-tree driver crate /verif/driver (path dependency on /repo) or through the compiler's MIR dump of /repo",
              "baseline_off_cmd": "cd /repo && cargo test --workspace --no-fail-fast --offline", "source_commits": [], "add_only": True},
    "engines": [
        {"name": "il2smt", "path": "/verif/smt", "serves_properties": [p for p in props if p in CHECKS and "il2smt" in CHECKS[p]["engine"]],
         "kind_free_text": "real falcon code run concretely by /verif/driver produces IL / analysis artefacts; z3 decides their meaning for all states within bounds"},
        {"name": "mirsym", "path": "/verif/mirsym", "serves_properties": [p for p in props if p in CHECKS and "mirsym" in CHECKS[p]["engine"]],
         "kind_free_text": "symbolic interpreter of the nightly compiler's MIR of falcon's own functions with stated models for foreign calls; z3 path conditions"},
    ],
    "checks": checks,
    "not_applicable": na,
    "notes": "Technique family: solver-based checking of the real code (see DESIGN.md). Exit 2 = ENCODER-DEFECT (a counterexample did not reproduce on the real code or the machinery itself failed; nothing is claimed), exit 3 = build failure. Paths that leave the modelled MIR/std fragment of Engine B, solver time-outs and resource limits are printed as UNDECIDED lines and counted in the evidence; they do not change the exit code (the exit code speaks about what was explored).",
}
json.dump(m, open(os.path.join(V, "MANIFEST.json"), "w"), indent=1)
print("checks:", [c["property_id"] for c in checks], "n/a:", [x["property_id"] for x in na])
