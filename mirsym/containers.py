"""Stated models of the std containers that backing.rs uses: Vec<u8> (symbolic length + array),
Vec<T> of concrete length, BTreeMap<u64, V> as a finite list of (symbolic key, value) entries,
their iterators, ranges and slices.  Key comparisons fork the path (decided by z3)."""
import re
import z3
from .interp import Agg, Opaque, Panic, Unsupported, ValRef, deep_copy
from .models import val, some, none, R


class ByteVec:
    """Vec<u8> / [u8]: element i is arr[off + i], 0 <= i < len."""
    def __init__(self, ln, arr, off=None):
        self.len = ln; self.arr = arr; self.off = off if off is not None else z3.BitVecVal(0, 64)

    def at(self, i):
        return z3.Select(self.arr, self.off + i)

    def __repr__(self): return f"ByteVec(len={self.len})"


class VecVal:
    def __init__(self, items): self.items = list(items)
    def __repr__(self): return f"Vec{self.items}"


class MapVal:
    """BTreeMap<u64, V>: entries in insertion order; iteration order is by key (the pre-state lists
    them sorted, later insertions only matter for lookups)."""
    def __init__(self, entries): self.entries = [list(e) for e in entries]     # [key, value]
    def __repr__(self): return f"Map{[(k, v) for k, v in self.entries]}"


class IterVal:
    def __init__(self, items): self.items = list(items); self.pos = 0; self.ops = []     # `pull` is attached by pycont (adaptor chain)


class ElemRef:
    def __init__(self, bv, idx): self.bv = bv; self.idx = idx
    def get(self): return self.bv.at(self.idx)
    def set(self, v): self.bv.arr = z3.Store(self.bv.arr, self.bv.off + self.idx, v)


class RangeVal:
    def __init__(self, m, lo, hi): self.map = m; self.lo = lo; self.hi = hi; self.done = False


def copy_value(v):
    if isinstance(v, ByteVec): return ByteVec(v.len, v.arr, v.off)
    if isinstance(v, Agg): return Agg(v.kind, v.name, [copy_value(x) for x in v.fields], v.variant)
    return v


def m_vec_len(it, callee, args):
    v = val(args[0])
    if isinstance(v, ByteVec): return v.len
    if isinstance(v, VecVal): return z3.BitVecVal(len(v.items), 64)
    raise Unsupported(f"len of {v!r}")


def m_split_off(it, callee, args):
    v = val(args[0]); at = val(args[1])
    if it.branch(z3.UGT(at, v.len)):
        raise Panic("Vec::split_off: `at` out of bounds")
    tail = ByteVec(v.len - at, v.arr, v.off + at)
    v.len = at
    return tail


def m_truncate(it, callee, args):
    v = val(args[0]); n = val(args[1])
    v.len = z3.If(z3.ULT(n, v.len), n, v.len)
    return None


def m_deref_same(it, callee, args):
    return args[0]


def m_slice_get(it, callee, args):
    v = val(args[0]); i = val(args[1])
    if it.branch(z3.ULT(i, v.len)):
        return some(ElemRef(v, i))
    return none()


def m_bytes_range(it, callee, args):
    v = val(args[0]); r = val(args[1])
    if r.name == "Range": lo, hi = r.fields[0], r.fields[1]
    elif r.name == "RangeFrom": lo, hi = r.fields[0], v.len
    elif r.name == "RangeTo": lo, hi = z3.BitVecVal(0, 64), r.fields[0]
    else: raise Unsupported("range kind " + r.name)
    ok = z3.And(z3.ULE(lo, hi), z3.ULE(hi, v.len))
    if "::get" in callee:
        if it.branch(ok): return some(ByteVec(hi - lo, v.arr, v.off + lo))
        return none()
    if it.branch(ok): return ByteVec(hi - lo, v.arr, v.off + lo)
    raise Panic("byte slice index out of range")


def m_try_into_array(it, callee, args):
    """<&[u8] as TryInto<[u8; N]>>::try_into"""
    v = val(args[0])
    n = int(re.search(r"\[u8; (\d+)\]", callee).group(1))
    if it.branch(v.len == z3.BitVecVal(n, 64)):
        return Agg("enum", "Result", [Agg("array", "[u8]", [v.at(z3.BitVecVal(i, 64)) for i in range(n)])], 0)
    return Agg("enum", "Result", [Opaque("TryFromSliceError")], 1)


def m_from_bytes(it, callee, args):
    a = val(args[0]); bs = list(a.fields)
    if "from_le_bytes" in callee: bs = list(reversed(bs))
    return bs[0] if len(bs) == 1 else z3.Concat(*bs)


def m_to_bytes(it, callee, args):
    x = val(args[0]); n = x.size() // 8
    bs = [z3.Extract(8 * (n - 1 - i) + 7, 8 * (n - 1 - i), x) for i in range(n)]          # big-endian order
    if "to_le_bytes" in callee: bs = list(reversed(bs))
    return Agg("array", "[u8]", bs)


def m_copy_from_slice(it, callee, args):
    d = val(args[0]); s_ = val(args[1])
    if isinstance(s_, Agg):                         # &[u8; N]
        if not it.branch(d.len == z3.BitVecVal(len(s_.fields), 64)): raise Panic("copy_from_slice: length mismatch")
        for i, b in enumerate(s_.fields):
            d.arr = z3.Store(d.arr, d.off + i, b)
        return None
    raise Unsupported(f"copy_from_slice from {s_!r}")


class SliceView(ByteVec):
    """&mut [u8] sub-slice: writes go through to the parent vector's array"""
    def __init__(self, parent, lo, ln):
        self.parent = parent; self.lo = lo; self.len = ln
    @property
    def arr(self): return self.parent.arr
    @arr.setter
    def arr(self, v): self.parent.arr = v
    @property
    def off(self): return self.parent.off + self.lo
    @off.setter
    def off(self, v): pass


def m_bytes_range_mut(it, callee, args):
    v = val(args[0]); r = val(args[1])
    if r.name != "Range": raise Unsupported("range kind " + r.name)
    lo, hi = r.fields[0], r.fields[1]
    ok = z3.And(z3.ULE(lo, hi), z3.ULE(hi, v.len))
    if it.branch(ok): return some(SliceView(v, lo, hi - lo)) if "::get_mut" in callee else SliceView(v, lo, hi - lo)
    if "::get_mut" in callee: return none()
    raise Panic("byte slice index out of range")


def m_bool_then(it, callee, args):
    c = val(args[0])
    if it.branch(c if z3.is_bool(c) else c != 0):
        return some(it.call_closure(args[1], []))
    return none()


def m_closure_call(it, callee, args):
    return it.call_closure(args[0], list(val(args[1]).fields))


def m_index(it, callee, args):
    v = val(args[0]); i = val(args[1])
    if it.branch(z3.ULT(i, v.len)):
        return ElemRef(v, i)
    raise Panic("index out of bounds")


def m_map_iter(it, callee, args):
    m = val(args[0])
    return IterVal([Agg("tuple", "()", [ValRef(k), ValRef(v)]) for k, v in m.entries])


def m_iter_map(it, callee, args):
    itv = val(args[0]); clo = args[1]
    return Agg("struct", "MapIter", [itv, clo])


def m_collect(it, callee, args):
    mi = val(args[0])
    if isinstance(mi, Agg) and mi.name == "MapIter":
        itv, clo = mi.fields
        return VecVal([it.call_closure(clo, [x]) for x in itv.items])
    if hasattr(mi, "pull") and (not isinstance(mi, IterVal) or mi.ops):      # adaptor chain (filter/map/...): drain it lazily
        out = []
        while True:
            ok, x = mi.pull(it)
            if not ok: return VecVal(out)
            out.append(x)
    if isinstance(mi, IterVal):
        return VecVal(mi.items[mi.pos:])
    raise Unsupported(f"collect of {mi!r}")


def m_into_iter(it, callee, args):
    v = val(args[0])
    if isinstance(v, VecVal): return IterVal(v.items)
    if isinstance(v, Agg) and v.name == "Range": return v
    if isinstance(v, IterVal) or hasattr(v, "pull"): return v
    raise Unsupported(f"into_iter of {v!r}")


def m_iter_next(it, callee, args):
    r = val(args[0])
    if hasattr(r, "pull") and (not isinstance(r, IterVal) or r.ops):
        ok, x = r.pull(it)
        return some(x) if ok else none()
    if isinstance(r, IterVal):
        if r.pos < len(r.items):
            x = r.items[r.pos]; r.pos += 1
            return some(x)
        return none()
    if isinstance(r, Agg) and r.name == "Range":
        lo, hi = r.fields
        if it.branch(z3.ULT(lo, hi)):
            r.fields[0] = z3.simplify(lo + 1)
            return some(lo)
        return none()
    raise Unsupported(f"next of {r!r}")


def lookup(it, m, key):
    """Fork over which entry (if any) has this key. Returns index or None."""
    conds = [k == key for k, _ in m.entries]
    conds.append(z3.Not(z3.Or(*conds)) if conds else z3.BoolVal(True))
    i = it.choose(conds)
    return i if i < len(m.entries) else None


def m_map_get(it, callee, args):
    m = val(args[0]); key = val(args[1])
    i = lookup(it, m, key)
    if i is None: return none()
    return some(ValRef(m.entries[i][1]))


def m_map_contains(it, callee, args):
    m = val(args[0]); key = val(args[1])
    return z3.BoolVal(lookup(it, m, key) is not None)


def m_map_insert(it, callee, args):
    m = val(args[0]); key = val(args[1]); v = args[2]
    i = lookup(it, m, key)
    if i is None:
        m.entries.append([key, v]); return none()
    old = m.entries[i][1]
    m.entries[i][1] = v
    return some(old)


def m_map_remove(it, callee, args):
    m = val(args[0]); key = val(args[1])
    i = lookup(it, m, key)
    if i is None: return none()
    old = m.entries.pop(i)[1]
    return some(old)


def m_map_range(it, callee, args):
    m = val(args[0]); b = val(args[1])
    # bounds tuple (Included(lo), Included(hi))
    lo, hi = b.fields
    if not (isinstance(lo, Agg) and isinstance(hi, Agg)):
        raise Unsupported("range bounds")
    bn = it.prog.enums.get("Bound", ["Included", "Excluded", "Unbounded"])
    if bn[lo.variant] != "Included" or bn[hi.variant] != "Included":
        raise Unsupported("only Included bounds are modelled")
    return RangeVal(m, lo.fields[0], hi.fields[0])


def m_range_next_back(it, callee, args):
    r = val(args[0])
    if r.done:
        raise Unsupported("second next_back on a range")
    r.done = True
    es = r.map.entries
    inr = [z3.And(z3.UGE(k, r.lo), z3.ULE(k, r.hi)) for k, _ in es]
    conds = []
    for i, (k, _) in enumerate(es):
        others = [z3.Not(z3.And(inr[j], z3.UGT(es[j][0], k))) for j in range(len(es)) if j != i]
        conds.append(z3.And(inr[i], *others))
    conds.append(z3.Not(z3.Or(*inr)) if inr else z3.BoolVal(True))
    i = it.choose(conds)
    if i == len(es): return none()
    return some(Agg("tuple", "()", [ValRef(es[i][0]), ValRef(es[i][1])]))


def m_opaque(it, callee, args):
    return Opaque(callee[:40])


def m_bitflags_bits(it, callee, args):
    return val(args[0]).fields[0]


def m_clone(it, callee, args):
    return copy_value(val(args[0]))


CONTAINER_MODELS = [
    (R(r"Vec::<.*>::len$|<\[u8\]>::len$|core::slice::<impl \[u8\]>::len$"), m_vec_len),
    (R(r"Vec::<u8>::is_empty$|<impl \[u8\]>::is_empty$"), lambda it, c, a: val(a[0]).len == 0),
    (R(r"Vec::<u8>::split_off$"), m_split_off),
    (R(r"Vec::<u8>::truncate$"), m_truncate),
    (R(r"<Vec<u8> as Deref>::deref$|<Vec<u8> as DerefMut>::deref_mut$|Vec::<u8>::as_slice$|Vec::<u8>::as_mut_slice$"), m_deref_same),
    (R(r"<impl \[u8\]>::get::<usize>$|<\[u8\]>::get::<usize>$|<impl \[u8\]>::get_mut::<usize>$|<\[u8\]>::get_mut::<usize>$|Vec::<u8>::get$"), m_slice_get),
    (R(r"<Vec<u8> as (std::ops::)?Index(Mut)?<usize>>::index(_mut)?$|<\[u8\] as (std::ops::)?Index(Mut)?<usize>>::index(_mut)?$"), m_index),
    (R(r"<impl \[u8\]>::get::<std::ops::Range(From|To)?<usize>>$|<\[u8\] as (std::ops::)?Index<std::ops::Range(From|To)?<usize>>>::index$|<Vec<u8> as (std::ops::)?Index<std::ops::Range(From|To)?<usize>>>::index$"), m_bytes_range),
    (R(r"<&\[u8\] as TryInto<\[u8; \d+\]>>::try_into$"), m_try_into_array),
    (R(r"<impl u(16|32|64)>::from_(be|le)_bytes$|^u(16|32|64)::from_(be|le)_bytes$"), m_from_bytes),
    (R(r"<impl u(16|32|64)>::to_(be|le)_bytes$|^u(16|32|64)::to_(be|le)_bytes$"), m_to_bytes),
    (R(r"<impl \[u8\]>::copy_from_slice$"), m_copy_from_slice),
    (R(r"<impl \[u8\]>::get_mut::<std::ops::Range<usize>>$|<\[u8\] as (std::ops::)?IndexMut<std::ops::Range<usize>>>::index_mut$|<Vec<u8> as (std::ops::)?IndexMut<std::ops::Range<usize>>>::index_mut$"), m_bytes_range_mut),
    (R(r"<impl bool>::then::<"), m_bool_then),
    (R(r"^<\{closure@.*\} as Fn(Mut|Once)?<.*>>::call(_mut|_once)?$"), m_closure_call),
    (R(r"<impl \[u8\]>::to_vec$"), lambda it, c, a: ByteVec(val(a[0]).len, val(a[0]).arr, val(a[0]).off)),
    (R(r"must_use::<"), lambda it, c, a: a[0]),
    (R(r"Box::<.*>::new$"), lambda it, c, a: __import__("mirsym.interp", fromlist=["box"]).box(a[0])),
    (R(r"BTreeMap::<u64, .*>::iter$"), m_map_iter),
    (R(r"btree_map::Iter<.*> as Iterator>::map::<"), m_iter_map),
    (R(r" as Iterator>::collect::<"), m_collect),
    (R(r" as IntoIterator>::into_iter$"), m_into_iter),
    (R(r" as Iterator>::next$"), m_iter_next),
    (R(r" as Iterator>::try_fold::<"), lambda it, c, a: __import__("mirsym.pycont", fromlist=["m_try_fold"]).m_try_fold(it, c, a)),
    (R(r"BTreeMap::<u64, .*>::get_mut::<u64>$|BTreeMap::<u64, .*>::get::<u64>$"), m_map_get),
    (R(r"BTreeMap::<u64, .*>::contains_key::<u64>$"), m_map_contains),
    (R(r"BTreeMap::<u64, .*>::insert$"), m_map_insert),
    (R(r"BTreeMap::<u64, .*>::remove::<u64>$"), m_map_remove),
    (R(r"BTreeMap::<u64, .*>::range::<"), m_map_range),
    (R(r"btree_map::Range<.*> as DoubleEndedIterator>::next_back$"), m_range_next_back),
    (R(r"fmt::rt::Argument|Arguments::<|fmt::Arguments"), m_opaque),
    (R(r"<MemoryPermissions as Clone>::clone$|<backing::Section as Clone>::clone$"), m_clone),
]
