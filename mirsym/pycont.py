"""Stated models of std containers with CONCRETE keys/elements and (optionally) SYMBOLIC membership,
used for the graph library (C11): BTreeMap/HashMap, BTreeSet/HashSet, Vec, VecDeque and the lazy
iterator adaptors the code uses.  Hash containers iterate in key order (assumption: results do not
depend on hash iteration order).  A set element / map key may carry a z3 Bool presence condition;
operations that depend on it fork the path."""
import re
import z3
from .interp import Agg, Opaque, Panic, Unsupported, ValRef
from .models import val, some, none, R


def pykey(v):
    v = val(v)
    if isinstance(v, Agg) and v.kind == "tuple":
        return tuple(pykey(f) for f in v.fields)
    if z3.is_bv(v):
        s = z3.simplify(v)
        if z3.is_bv_value(s):
            return s.as_long()
    if isinstance(v, (int, tuple, str)):
        return v
    if hasattr(v, "key") and callable(v.key):          # e.g. a string taken from a string table: (table, index)
        return v.key()
    raise Unsupported(f"container key is not concrete: {v!r}")


def bvkey(k, w=64):
    if isinstance(k, str) or (isinstance(k, tuple) and k and k[0] == "name"):
        return k
    if isinstance(k, tuple):
        return Agg("tuple", "()", [bvkey(x, w) for x in k])
    return z3.BitVecVal(k, w)


TRUE = True


class PMap:
    """key -> [cond, cell]; cond True or z3 Bool (present iff cond)."""
    def __init__(self, items=None):
        self.d = {}
        for k, v in (items or {}).items():
            self.d[k] = [TRUE, v if hasattr(v, "get") else ValRef(v)]

    def __repr__(self): return f"PMap({sorted(self.d)})"


class PSet:
    def __init__(self, items=None):
        self.d = dict(items or {})          # key -> cond

    def __repr__(self): return f"PSet({sorted(self.d)})"


class PVec:
    def __init__(self, items=None): self.items = list(items or [])
    def __repr__(self): return f"PVec({self.items})"


class PIter:
    """Lazy iterator: source items + adaptor chain."""
    def __init__(self, items):
        self.items = list(items); self.pos = 0; self.ops = []

    def pull_src(self, it):
        if self.pos < len(self.items):
            x = self.items[self.pos]; self.pos += 1
            return True, x
        return False, None

    def pull(self, it):
        while True:
            ok, x = self.pull_src(it)
            if not ok: break
            ok = True
            for op in self.ops:
                k = op[0]
                if k == "map": x = it.call_closure(op[1], [x])
                elif k == "filter":
                    c = it.call_closure(op[1], [ValRef(x)])
                    if not truth(it, c): ok = False; break
                elif k == "enumerate":
                    x = Agg("tuple", "()", [z3.BitVecVal(op[1][0], 64), x]); op[1][0] += 1
                elif k == "cloned": x = clone(val(x))
                elif k == "filter_map":
                    o = val(it.call_closure(op[1], [x]))
                    if o.variant == 0: ok = False; break
                    x = o.fields[0]
                elif k == "take_while":
                    if op[2][0] or not truth(it, it.call_closure(op[1], [ValRef(x)])):
                        op[2][0] = True; return False, None
                elif k == "skip_while":
                    if not op[2][0]:
                        if truth(it, it.call_closure(op[1], [ValRef(x)])): ok = False; break
                        op[2][0] = True
                elif k == "inspect": it.call_closure(op[1], [ValRef(x)])
                else: raise Unsupported("iterator adaptor " + k)
            if ok:
                return True, x
        return False, None


class PChain(PIter):
    """a.chain(b) where either side already carries adaptors: pulls lazily from a, then from b."""
    def __init__(self, a, b):
        self.a, self.b, self.ops = a, b, []

    def pull_src(self, it):
        ok, x = self.a.pull(it)
        if ok: return True, x
        return self.b.pull(it)

    def __getattr__(self, name):
        if name in ("items", "pos"): raise Unsupported("positional access to a chained lazy iterator")
        raise AttributeError(name)


def _attach_pull():
    from . import containers as K
    K.IterVal.pull = PIter.pull; K.IterVal.pull_src = PIter.pull_src          # the byte/Vec-level iterator takes the same lazy adaptor chain
_attach_pull()


def truth(it, c):
    c = val(c)
    if isinstance(c, bool): return c
    if z3.is_bool(c):
        return it.branch(c)
    if z3.is_bv(c):
        return it.branch(c != 0)
    raise Unsupported(f"truth of {c!r}")


def present(it, cond):
    return True if cond is TRUE else it.branch(cond)


def clone(v):
    v = val(v)
    if isinstance(v, PSet): return PSet(v.d)
    if isinstance(v, PMap):
        m = PMap(); m.d = {k: [c, ValRef(clone(cell.get()))] for k, (c, cell) in v.d.items()}; return m
    if isinstance(v, PVec): return PVec([clone(x) for x in v.items])
    if isinstance(v, Agg): return Agg(v.kind, v.name, [clone(x) for x in v.fields], v.variant)
    return v


def b2(x): return z3.BoolVal(x) if isinstance(x, bool) else x


# ------------------------------------------------------------------ maps --

def m_map_new(it, c, a): return PMap()


def m_map_insert(it, c, a):
    m = val(a[0]); k = pykey(a[1]); v = a[2]
    if k in m.d and present(it, m.d[k][0]):
        old = m.d[k][1].get(); m.d[k] = [TRUE, ValRef(v)]; return some(old)
    m.d[k] = [TRUE, ValRef(v)]; return none()


def m_map_get(it, c, a):
    m = val(a[0]); k = pykey(a[1])
    if k in m.d and present(it, m.d[k][0]):
        return some(m.d[k][1])
    return none()


def m_map_contains(it, c, a):
    m = val(a[0]); k = pykey(a[1])
    if k not in m.d: return z3.BoolVal(False)
    return b2(m.d[k][0]) if m.d[k][0] is not TRUE else z3.BoolVal(True)


def m_map_remove(it, c, a):
    m = val(a[0]); k = pykey(a[1])
    if k in m.d and present(it, m.d[k][0]):
        cell = m.d.pop(k)[1]; return some(cell.get())
    m.d.pop(k, None)
    return none()


def m_map_index(it, c, a):
    m = val(a[0]); k = pykey(a[1])
    if k in m.d and present(it, m.d[k][0]):
        return m.d[k][1]
    raise Panic("map index: key not found")


def live(it, m):
    return [(k, cell) for k, (cnd, cell) in sorted(m.d.items()) if present(it, cnd)]


def m_map_keys(it, c, a): return PIter([ValRef(bvkey(k)) for k, _ in live(it, val(a[0]))])
def m_map_values(it, c, a): return PIter([cell for _, cell in live(it, val(a[0]))])
def m_map_iter(it, c, a): return PIter([Agg("tuple", "()", [ValRef(bvkey(k)), cell]) for k, cell in live(it, val(a[0]))])
def m_map_into_iter(it, c, a): return PIter([Agg("tuple", "()", [bvkey(k), cell.get()]) for k, cell in live(it, val(a[0]))])
def m_map_len(it, c, a): return z3.BitVecVal(len(live(it, val(a[0]))), 64)


def m_map_entry(it, c, a): return Agg("struct", "PEntry", [val(a[0]), pykey(a[1])])


def m_entry_or_default(it, c, a):
    e = val(a[0]); m, k = e.fields
    if not (k in m.d and present(it, m.d[k][0])):
        ty = c
        m.d[k] = [TRUE, ValRef(PSet() if "Set" in ty else (PVec() if "Vec" in ty else PMap()))]
    return m.d[k][1]


# ------------------------------------------------------------------ sets --

def m_set_new(it, c, a): return PSet()


def m_set_insert(it, c, a):
    s = val(a[0]); k = pykey(a[1])
    if k in s.d and present(it, s.d[k]):
        s.d[k] = TRUE; return z3.BoolVal(False)
    s.d[k] = TRUE; return z3.BoolVal(True)


def m_set_contains(it, c, a):
    s = val(a[0]); k = pykey(a[1])
    if k not in s.d: return z3.BoolVal(False)
    return z3.BoolVal(True) if s.d[k] is TRUE else s.d[k]


def m_set_remove(it, c, a):
    s = val(a[0]); k = pykey(a[1])
    if k in s.d and present(it, s.d[k]):
        del s.d[k]; return z3.BoolVal(True)
    s.d.pop(k, None); return z3.BoolVal(False)


def set_live(it, s): return [k for k, cnd in sorted(s.d.items()) if present(it, cnd)]
def m_set_iter(it, c, a): return PIter([ValRef(bvkey(k)) for k in set_live(it, val(a[0]))])
def m_set_into_iter(it, c, a): return PIter([bvkey(k) for k in set_live(it, val(a[0]))])
def m_set_len(it, c, a): return z3.BitVecVal(len(set_live(it, val(a[0]))), 64)
def m_set_is_empty(it, c, a): return z3.BoolVal(len(set_live(it, val(a[0]))) == 0)


# ------------------------------------------------------------------- vecs --

def m_vec_new(it, c, a): return PVec()
def m_vec_push(it, c, a): val(a[0]).items.append(a[1]); return None          # a pushed reference stays a reference
def m_vec_pop(it, c, a):
    v = val(a[0]); return some(v.items.pop()) if v.items else none()
def m_vec_len(it, c, a): return z3.BitVecVal(len(val(a[0]).items), 64)
def m_vec_is_empty(it, c, a): return z3.BoolVal(len(val(a[0]).items) == 0)
def m_vec_iter(it, c, a):
    v = val(a[0]); return PIter([IdxRef(v, i) for i in range(len(v.items))])
def m_vec_into_iter(it, c, a): return PIter(list(val(a[0]).items))
def m_vec_index(it, c, a):
    v = val(a[0]); i = pykey(a[1])
    if i >= len(v.items): raise Panic("index out of bounds")
    return IdxRef(v, i)
def m_vec_contains(it, c, a):
    v = val(a[0]); k = val(a[1])
    return z3.Or(*[x == k for x in v.items]) if v.items else z3.BoolVal(False)
def m_vec_reverse(it, c, a): val(a[0]).items.reverse(); return None
def m_vec_last(it, c, a):
    v = val(a[0]); return some(IdxRef(v, len(v.items) - 1)) if v.items else none()
def m_vec_first(it, c, a):
    v = val(a[0]); return some(IdxRef(v, 0)) if v.items else none()
def m_vec_get(it, c, a):
    v = val(a[0]); i = pykey(a[1]); return some(IdxRef(v, i)) if i < len(v.items) else none()
def m_new_uninit(it, c, a):
    """Box::<[T; N]>::new_uninit(): Box -> Unique -> NonNull -> MaybeUninit { uninit, value: ManuallyDrop { MaybeDangling { [T; N] } } }"""
    mu = Agg("union", "MaybeUninit", [None, Agg("struct", "ManuallyDrop", [Agg("struct", "MaybeDangling", [None])])])
    return Agg("struct", "Box", [Agg("struct", "Unique", [ValRef(mu)]), None])


def m_from_elem_box(it, c, a):
    # vec![a, b, ..] is lowered to new_uninit + a write through the raw pointer + box_assume_init_into_vec_unsafe
    b = val(a[0])
    mu = val(val(b.fields[0]).fields[0])
    arr = mu.fields[1].fields[0].fields[0]
    if isinstance(arr, Agg):
        return PVec(list(arr.fields))
    raise Unsupported(f"vec! literal of {arr!r}")


def m_windows(it, c, a):
    v = val(a[0]); n = pykey(a[1])
    return PIter([ValRef(PVec(v.items[i:i + n])) for i in range(0, max(0, len(v.items) - n + 1))])


def m_chunks(it, c, a):
    v = val(a[0]); n = pykey(a[1])
    return PIter([ValRef(PVec(v.items[i:i + n])) for i in range(0, len(v.items), n)])


def default_for(ty):
    t = re.sub(r"^std::(collections|vec|option)::", "", ty.strip())
    if re.match(r"^(BTree|Hash)Set<", t): return PSet()
    if re.match(r"^(BTree|Hash)Map<", t): return PMap()
    if t.startswith(("Vec<", "VecDeque<")): return PVec()
    if t in ("usize", "u64", "isize", "i64"): return z3.BitVecVal(0, 64)
    if t in ("u32", "i32"): return z3.BitVecVal(0, 32)
    if t == "bool": return z3.BoolVal(False)
    raise Unsupported("default value of " + ty[:60])


def m_unwrap_or_default(it, c, a):
    o = val(a[0])
    if o.variant == 1: return o.fields[0]
    m = re.search(r"Option::<(.*)>::unwrap_or_default$", c)
    return default_for(m.group(1))


def m_set_op(kind):
    def f(it, c, a):
        x, y = val(a[0]), val(a[1])
        lx, ly = set_live(it, x), set_live(it, y)
        if kind == "difference": ks = [k for k in lx if k not in ly]
        elif kind == "intersection": ks = [k for k in lx if k in ly]
        elif kind == "union": ks = sorted(set(lx) | set(ly))
        else: ks = sorted(set(lx) ^ set(ly))
        return PIter([ValRef(bvkey(k)) for k in ks])
    return f


def m_set_is_subset(it, c, a):
    x, y = set_live(it, val(a[0])), set_live(it, val(a[1]))
    return z3.BoolVal(all(k in y for k in x))


def m_set_is_disjoint(it, c, a):
    x, y = set_live(it, val(a[0])), set_live(it, val(a[1]))
    return z3.BoolVal(not (set(x) & set(y)))


def m_vec_retain(it, c, a):
    v = val(a[0]); keep = []
    for i in range(len(v.items)):
        if truth(it, it.call_closure(a[1], [IdxRef(v, i)])): keep.append(v.items[i])
    v.items = keep; return None


def m_vec_extend(it, c, a):
    v = val(a[0]); o = val(a[1])
    if isinstance(o, PVec): v.items += list(o.items)
    elif hasattr(o, "pull"):
        while True:
            ok, x = o.pull(it)
            if not ok: break
            v.items.append(x)
    elif isinstance(o, PSet): v.items += [bvkey(k) for k in set_live(it, o)]
    else: raise Unsupported(f"extend from {o!r}")
    return None


def m_vec_insert(it, c, a):
    v = val(a[0]); i = pykey(a[1])
    if i > len(v.items): raise Panic("insertion index out of bounds")
    v.items.insert(i, a[2]); return None


def m_vec_remove(it, c, a):
    v = val(a[0]); i = pykey(a[1])
    if i >= len(v.items): raise Panic("removal index out of bounds")
    return v.items.pop(i)


def m_vec_truncate(it, c, a):
    v = val(a[0]); del v.items[pykey(a[1]):]; return None


def m_vec_clear(it, c, a): val(a[0]).items.clear(); return None


def m_vec_sort(it, c, a):
    v = val(a[0]); v.items.sort(key=lambda x: pykey(x)); return None


def m_vec_dedup(it, c, a):
    v = val(a[0]); out = []
    for x in v.items:
        if not out or pykey(out[-1]) != pykey(x): out.append(x)
    v.items = out; return None


def m_slice_range(it, c, a):
    v = val(a[0]); r = val(a[1])
    lo = pykey(r.fields[0]) if len(r.fields) > 0 and r.name in ("Range", "RangeFrom") else 0
    hi = pykey(r.fields[1]) if r.name == "Range" else (pykey(r.fields[0]) if r.name == "RangeTo" else len(v.items))
    ok = lo <= hi <= len(v.items)
    if "::get" in c:
        return some(PVec(v.items[lo:hi])) if ok else none()
    if not ok: raise Panic("slice index out of range")
    return PVec(v.items[lo:hi])


def m_count(it, c, a):
    r = val(a[0]); n = 0
    while True:
        ok, x = r.pull(it)
        if not ok: return z3.BitVecVal(n, 64)
        n += 1


def m_iter_last(it, c, a):
    r = val(a[0]); last = None; got = False
    while True:
        ok, x = r.pull(it)
        if not ok: return some(last) if got else none()
        last = x; got = True


def m_take(it, c, a):
    r = val(a[0]); n = pykey(a[1])
    if r.ops: raise Unsupported("take after adaptors")
    r.items = r.items[:r.pos + n]; return r


def m_chain(it, c, a):
    r, o = val(a[0]), val(a[1])
    conv = lambda x: PIter(x.items[x.pos:]) if (hasattr(x, "items") and hasattr(x, "pos") and not hasattr(x, "pull")) else x
    r, o = conv(r), conv(o)
    if not isinstance(o, PIter): o = m_into_iter_generic(it, "<&x as IntoIterator>::into_iter", [o])
    if isinstance(r, PChain) or isinstance(o, PChain) or r.ops or o.ops: return PChain(r, o)
    return PIter(r.items[r.pos:] + o.items[o.pos:])


def m_zip(it, c, a):
    r, o = val(a[0]), val(a[1])
    if not isinstance(o, PIter): o = m_into_iter_generic(it, "<&x as IntoIterator>::into_iter", [o])
    if r.ops or o.ops: raise Unsupported("zip after adaptors")
    xs, ys = r.items[r.pos:], o.items[o.pos:]
    return PIter([Agg("tuple", "()", [x, y]) for x, y in zip(xs, ys)])


def m_minmax(kind):
    def f(it, c, a):
        r = val(a[0]); xs = []
        while True:
            ok, x = r.pull(it)
            if not ok: break
            xs.append(x)
        if not xs: return none()
        return some((min if kind == "min" else max)(xs, key=lambda x: pykey(x)))
    return f


class IdxRef:
    def __init__(self, v, i): self.v = v; self.i = i
    def get(self): return self.v.items[self.i]
    def set(self, x): self.v.items[self.i] = x


# ----------------------------------------------------------------- deque --

def m_dq_push_back(it, c, a): val(a[0]).items.append(a[1]); return None
def m_dq_pop_front(it, c, a):
    v = val(a[0]); return some(v.items.pop(0)) if v.items else none()


# -------------------------------------------------------------- iterators --

def m_iter_identity(it, c, a): return val(a[0])


def range_iter(v):
    lo, hi = (z3.simplify(x) for x in v.fields[:2])
    if z3.is_bv_value(lo) and z3.is_bv_value(hi):
        return PIter([z3.BitVecVal(i, lo.size()) for i in range(lo.as_long(), hi.as_long())])
    return v          # symbolic bounds: iterated lazily by m_next, which forks on lo < hi


def m_into_iter_generic(it, c, a):
    v = val(a[0])
    ref = c.startswith("<&")
    if isinstance(v, PIter): return v
    if hasattr(v, "items") and hasattr(v, "pos"): return v                           # containers.IterVal
    if hasattr(v, "items") and not isinstance(v, PVec): return PIter(list(v.items))   # containers.VecVal
    if isinstance(v, Agg) and v.name == "Range": return range_iter(v)
    if isinstance(v, PSet): return (m_set_iter if ref else m_set_into_iter)(it, c, a)
    if isinstance(v, PMap): return (m_map_iter if ref else m_map_into_iter)(it, c, a)
    if isinstance(v, PVec): return (m_vec_iter if ref else m_vec_into_iter)(it, c, a)
    raise Unsupported(f"into_iter of {v!r}")


def m_next(it, c, a):
    r = val(a[0])
    if hasattr(r, "items") and hasattr(r, "pos") and not getattr(r, "ops", None) and not isinstance(r, PIter):      # containers.IterVal
        if r.pos < len(r.items):
            x = r.items[r.pos]; r.pos += 1
            return some(x)
        return none()
    if isinstance(r, Agg) and r.name == "Range":
        lo, hi = r.fields
        if it.branch(z3.ULT(lo, hi)):
            r.fields[0] = z3.simplify(lo + 1)
            return some(lo)
        return none()
    ok, x = r.pull(it)
    return some(x) if ok else none()


def adaptor(kind):
    def f(it, c, a):
        r = val(a[0])
        if kind == "enumerate": r.ops.append(["enumerate", [0]])
        elif kind in ("cloned", "copied"): r.ops.append(["cloned"])
        elif kind in ("take_while", "skip_while"): r.ops.append([kind, a[1], [False]])
        else: r.ops.append([kind, a[1]])
        return r
    return f


def m_skip(it, c, a):
    r = val(a[0]); n = pykey(a[1])
    if r.ops: raise Unsupported("skip after adaptors")
    r.pos += n; return r


def m_rev(it, c, a):
    r = val(a[0])
    if isinstance(r, Agg) and r.name == "Range": r = range_iter(r)
    if r.ops: raise Unsupported("rev after adaptors")
    rest = r.items[r.pos:]; rest.reverse(); r.items = rest; r.pos = 0; return r


def m_for_each(it, c, a):
    r = val(a[0])
    while True:
        ok, x = r.pull(it)
        if not ok: return None
        it.call_closure(a[1], [x])


def m_fold(it, c, a):
    r = val(a[0]); acc = val(a[1])
    while True:
        ok, x = r.pull(it)
        if not ok: return acc
        acc = it.call_closure(a[2], [acc, x])


def m_try_fold(it, c, a):
    """Iterator::try_fold with a closure returning Option/Result: stops at the first None/Err"""
    src = a[0]; acc = val(a[1])
    last = None
    while True:
        nx = m_next(it, c, [src])
        if nx.variant == 0:
            break
        r = val(it.call_closure(a[2], [acc, nx.fields[0]]))
        if not (isinstance(r, Agg) and r.name in ("Option", "Result")):
            raise Unsupported(f"try_fold closure result {r!r}")
        last = r
        if (r.name == "Option" and r.variant == 0) or (r.name == "Result" and r.variant != 0):
            return r
        acc = r.fields[0]
    kind = "Result" if "Result<" in c.split("try_fold", 1)[1] else "Option"
    if last is not None: kind = last.name
    return Agg("enum", kind, [acc], 1 if kind == "Option" else 0)


def m_all_any(kind):
    def f(it, c, a):
        r = val(a[0])
        while True:
            ok, x = r.pull(it)
            if not ok: return z3.BoolVal(kind == "all")
            t = truth(it, it.call_closure(a[1], [x]))
            if kind == "all" and not t: return z3.BoolVal(False)
            if kind == "any" and t: return z3.BoolVal(True)
    return f


def m_find(it, c, a):
    r = val(a[0])
    while True:
        ok, x = r.pull(it)
        if not ok: return none()
        if truth(it, it.call_closure(a[1], [ValRef(x)])): return some(x)


def m_position(it, c, a):
    r = val(a[0]); i = 0
    while True:
        ok, x = r.pull(it)
        if not ok: return none()
        if truth(it, it.call_closure(a[1], [x])): return some(z3.BitVecVal(i, 64))
        i += 1


def m_rposition(it, c, a):
    r = val(a[0])
    if r.ops: raise Unsupported("rposition after adaptors")
    rest = r.items[r.pos:]
    for i in range(len(rest) - 1, -1, -1):
        if truth(it, it.call_closure(a[1], [rest[i]])): return some(z3.BitVecVal(i, 64))
    return none()


def m_find_map(it, c, a):
    r = val(a[0])
    while True:
        ok, x = r.pull(it)
        if not ok: return none()
        o = val(it.call_closure(a[1], [x]))
        if o.variant == 1: return o


def m_try_for_each(it, c, a):
    """Iterator::try_for_each: stops at the first None / Err / Break"""
    r = val(a[0]); last = None
    while True:
        ok, x = r.pull(it)
        if not ok: break
        o = val(it.call_closure(a[1], [x]))
        if not (isinstance(o, Agg) and o.name in ("Option", "Result", "ControlFlow")):
            raise Unsupported(f"try_for_each closure result {o!r}")
        last = o
        if (o.name == "Option" and o.variant == 0) or (o.name in ("Result", "ControlFlow") and o.variant != 0):
            return o
    tail = c.split("try_for_each", 1)[1]
    kind = last.name if last is not None else ("Result" if "Result<" in tail else ("ControlFlow" if "ControlFlow<" in tail else "Option"))
    if kind == "Option": return some(None)
    return Agg("enum", kind, [None], 0)


def m_entry_or_insert(it, c, a):
    e = val(a[0])
    if not (isinstance(e, Agg) and e.name == "PEntry"): raise Unsupported(f"or_insert on {e!r}")
    m, k = e.fields
    if not (k in m.d and present(it, m.d[k][0])):
        v = it.call_closure(a[1], []) if "or_insert_with" in c else val(a[1])
        m.d[k] = [TRUE, ValRef(v)]
    return m.d[k][1]


def m_collect(it, c, a):
    r = val(a[0]); out = []
    while True:
        ok, x = r.pull(it)
        if not ok: break
        out.append(x)              # references stay references (Vec<&T>)
    target = c.split("collect::<", 1)[1] if "collect::<" in c else c
    target = re.sub(r"^std::collections::", "", target)
    if target.startswith(("HashMap", "BTreeMap", "std::collections::HashMap", "std::collections::BTreeMap")):
        m = PMap()
        for t in out:
            m.d[pykey(t.fields[0])] = [TRUE, ValRef(val(t.fields[1]))]
        return m
    if target.startswith(("HashSet", "BTreeSet", "std::collections::HashSet", "std::collections::BTreeSet")):
        return PSet({pykey(x): TRUE for x in out})
    if target.startswith("Vec"):
        return PVec(out)
    raise Unsupported("collect into " + target[:60])


def m_set_extend(it, c, a):
    s = val(a[0]); o = val(a[1])
    if isinstance(o, PSet): ks = set_live(it, o)
    elif isinstance(o, PVec): ks = [pykey(x) for x in o.items]
    elif hasattr(o, "pull"):
        ks = []
        while True:
            ok, x = o.pull(it)
            if not ok: break
            ks.append(pykey(x))
    else: raise Unsupported(f"extend from {o!r}")
    for k in ks: s.d[k] = TRUE
    return None


def m_default(it, c, a):
    m = re.match(r"^<(?:std::collections::)?(\w+)<", c)
    outer = m.group(1) if m else ""
    if outer.endswith("Set"): return PSet()
    if outer.endswith("Map"): return PMap()
    if outer.startswith("Vec"): return PVec()
    raise Unsupported("default of " + c[:80])


def m_clone(it, c, a): return clone(a[0])


def dval(x):
    while hasattr(x, "get"):
        x = x.get()
    return x


def m_min(it, c, a):
    x, y = dval(a[0]), dval(a[1])
    if not (z3.is_bv(x) and z3.is_bv(y)):
        raise Unsupported(f"min of {x!r}, {y!r}")
    return z3.If(z3.ULE(x, y), x, y)


def m_option_eq(neg):
    def f(it, c, a):
        x, y = val(a[0]), val(a[1])
        if x.variant != y.variant:
            r = z3.BoolVal(False)
        elif x.variant == 0:
            r = z3.BoolVal(True)
        else:
            p, q = dval(x.fields[0]), dval(y.fields[0])
            if z3.is_expr(p) or z3.is_expr(q): r = p == q
            else: r = z3.BoolVal(pykey(p) == pykey(q))
        return z3.Not(r) if neg else r
    return f


MAPT = r"(?:BTreeMap|HashMap)::<[^>]*(?:<[^<>]*>[^<>]*)*>"
SETT = r"(?:BTreeSet|HashSet)::<[^>]*(?:<[^<>]*>[^<>]*)*>"

MODELS = [
    (R(r"^(?:BTreeMap|HashMap)::<.*>::new$"), m_map_new),
    (R(r"^(?:BTreeMap|HashMap)::<.*>::insert$"), m_map_insert),
    (R(r"^(?:BTreeMap|HashMap)::<.*>::get(_mut)?::<"), m_map_get),
    (R(r"^(?:BTreeMap|HashMap)::<.*>::contains_key::<"), m_map_contains),
    (R(r"^(?:BTreeMap|HashMap)::<.*>::remove::<"), m_map_remove),
    (R(r"^(?:BTreeMap|HashMap)::<.*>::keys$"), m_map_keys),
    (R(r"^(?:BTreeMap|HashMap)::<.*>::values(_mut)?$"), m_map_values),
    (R(r"^(?:BTreeMap|HashMap)::<.*>::iter(_mut)?$"), m_map_iter),
    (R(r"^(?:BTreeMap|HashMap)::<.*>::len$"), m_map_len),
    (R(r"^(?:BTreeMap|HashMap)::<.*>::entry$"), m_map_entry),
    (R(r"Entry::<.*>::or_default$"), m_entry_or_default),
    (R(r"^<(?:&(?:mut )?)?(?:BTreeMap|HashMap)<.*> as (std::ops::)?Index<.*>>::index$"), m_map_index),
    (R(r"^(?:BTreeSet|HashSet)::<.*>::new$"), m_set_new),
    (R(r"^(?:BTreeSet|HashSet)::<.*>::insert$"), m_set_insert),
    (R(r"^(?:BTreeSet|HashSet)::<.*>::contains::<"), m_set_contains),
    (R(r"^(?:BTreeSet|HashSet)::<.*>::remove::<"), m_set_remove),
    (R(r"^(?:BTreeSet|HashSet)::<.*>::iter$"), m_set_iter),
    (R(r"^(?:BTreeSet|HashSet)::<.*>::len$"), m_set_len),
    (R(r"^(?:BTreeSet|HashSet)::<.*>::is_empty$"), m_set_is_empty),
    (R(r"^Vec::<.*>::new$|^VecDeque::<.*>::new$"), m_vec_new),
    (R(r"^Vec::<.*>::push$"), m_vec_push),
    (R(r"^Vec::<.*>::pop$"), m_vec_pop),
    (R(r"^Vec::<.*>::len$|^VecDeque::<.*>::len$"), m_vec_len),
    (R(r"^Vec::<.*>::is_empty$|^VecDeque::<.*>::is_empty$"), m_vec_is_empty),
    (R(r"slice::<impl \[.*\]>::iter$|^Vec::<.*>::iter$"), m_vec_iter),
    (R(r"slice::<impl \[.*\]>::contains$|^VecDeque::<.*>::contains$"), m_vec_contains),
    (R(r"slice::<impl \[.*\]>::reverse$"), m_vec_reverse),
    (R(r"slice::<impl \[.*\]>::last(_mut)?$|^Vec::<.*>::last(_mut)?$"), m_vec_last),
    (R(r"slice::<impl \[.*\]>::first(_mut)?$|^Vec::<.*>::first(_mut)?$"), m_vec_first),
    (R(r"slice::<impl \[.*\]>::get::<usize>$|^Vec::<.*>::get$"), m_vec_get),
    (R(r"slice::<impl \[.*\]>::len$"), m_vec_len),
    (R(r"slice::<impl \[.*\]>::is_empty$"), m_vec_is_empty),
    (R(r"^<\[.*\] as (std::ops::)?Index(Mut)?<usize>>::index(_mut)?$"), m_vec_index),
    (R(r"^<Vec<.*> as Deref(Mut)?>::deref(_mut)?$"), m_iter_identity),
    (R(r"^<Vec<.*> as (std::ops::)?Index(Mut)?<usize>>::index(_mut)?$"), m_vec_index),
    (R(r"slice::<impl \[.*\]>::windows$"), m_windows),
    (R(r"slice::<impl \[.*\]>::chunks$"), m_chunks),
    (R(r"Option::<.*>::unwrap_or_default$"), m_unwrap_or_default),
    (R(r"^(?:BTreeSet|HashSet)::<.*>::difference$"), m_set_op("difference")),
    (R(r"^(?:BTreeSet|HashSet)::<.*>::intersection$"), m_set_op("intersection")),
    (R(r"^(?:BTreeSet|HashSet)::<.*>::union$"), m_set_op("union")),
    (R(r"^(?:BTreeSet|HashSet)::<.*>::symmetric_difference$"), m_set_op("symmetric_difference")),
    (R(r"^(?:BTreeSet|HashSet)::<.*>::is_subset$"), m_set_is_subset),
    (R(r"^(?:BTreeSet|HashSet)::<.*>::is_disjoint$"), m_set_is_disjoint),
    (R(r"^Vec::<.*>::retain::<"), m_vec_retain),
    (R(r"^<Vec<.*> as Extend<.*>>::extend::<|^Vec::<.*>::extend_from_slice$|^Vec::<.*>::append$"), m_vec_extend),
    (R(r"^Vec::<.*>::insert$"), m_vec_insert),
    (R(r"^Vec::<.*>::remove$"), m_vec_remove),
    (R(r"^Vec::<.*>::truncate$"), m_vec_truncate),
    (R(r"^Vec::<.*>::clear$|^VecDeque::<.*>::clear$"), m_vec_clear),
    (R(r"slice::<impl \[.*\]>::sort(_unstable)?$"), m_vec_sort),
    (R(r"^Vec::<.*>::dedup$"), m_vec_dedup),
    (R(r"slice::<impl \[.*\]>::get::<std::ops::Range(From|To)?<usize>>$|^<\[.*\] as (std::ops::)?Index<std::ops::Range(From|To)?<usize>>>::index$|^<Vec<.*> as (std::ops::)?Index<std::ops::Range(From|To)?<usize>>>::index$"), m_slice_range),
    (R(r" as Iterator>::count$"), m_count),
    (R(r" as Iterator>::last$"), m_iter_last),
    (R(r" as Iterator>::take$"), m_take),
    (R(r" as Iterator>::chain::<"), m_chain),
    (R(r" as Iterator>::zip::<"), m_zip),
    (R(r" as Iterator>::min$"), m_minmax("min")),
    (R(r" as Iterator>::max$"), m_minmax("max")),
    (R(r"box_assume_init_into_vec_unsafe"), m_from_elem_box),
    (R(r"^Box::<\[.*\]>::new_uninit$"), m_new_uninit),
    (R(r"^VecDeque::<.*>::push_back$"), m_dq_push_back),
    (R(r"^VecDeque::<.*>::pop_front$"), m_dq_pop_front),
    (R(r" as Iterator>::next$"), m_next),
    (R(r" as Iterator>::map::<"), adaptor("map")),
    (R(r" as Iterator>::filter::<"), adaptor("filter")),
    (R(r" as Iterator>::filter_map::<"), adaptor("filter_map")),
    (R(r" as Iterator>::take_while::<"), adaptor("take_while")),
    (R(r" as Iterator>::skip_while::<"), adaptor("skip_while")),
    (R(r" as Iterator>::inspect::<"), adaptor("inspect")),
    (R(r" as Iterator>::rposition::<"), m_rposition),
    (R(r" as Iterator>::find_map::<"), m_find_map),
    (R(r" as Iterator>::try_for_each::<"), m_try_for_each),
    (R(r"Entry::<.*>::or_insert(_with::<.*)?$"), m_entry_or_insert),
    (R(r" as Iterator>::enumerate$"), adaptor("enumerate")),
    (R(r" as Iterator>::(cloned|copied)(::<.*>)?$"), adaptor("cloned")),
    (R(r" as Iterator>::skip$"), m_skip),
    (R(r" as (DoubleEnded)?Iterator>::rev$"), m_rev),
    (R(r" as Iterator>::for_each::<"), m_for_each),
    (R(r" as Iterator>::fold::<"), m_fold),
    (R(r" as Iterator>::try_fold::<"), m_try_fold),
    (R(r" as Iterator>::find::<"), m_find),
    (R(r" as Iterator>::position::<"), m_position),
    (R(r" as Iterator>::all::<"), m_all_any("all")),
    (R(r" as Iterator>::any::<"), m_all_any("any")),
    (R(r" as Iterator>::collect::<"), m_collect),
    (R(r" as IntoIterator>::into_iter$"), m_into_iter_generic),
    (R(r"^<(?:BTreeSet|HashSet)<.*> as Extend<.*>>::extend::<"), m_set_extend),
    (R(r" as Default>::default$"), m_default),
    (R(r"^<(?:BTreeSet|HashSet|BTreeMap|HashMap|Vec)<.*> as Clone>::clone$"), m_clone),
    (R(r"^std::cmp::min::<usize>$|^cmp::min::<usize>$"), m_min),
    (R(r"^<(?:std::option::)?Option<.*> as PartialEq>::eq$"), m_option_eq(False)),
    (R(r"^<(?:std::option::)?Option<.*> as PartialEq>::ne$"), m_option_eq(True)),
]
