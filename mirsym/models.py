"""Stated models for foreign calls (num-bigint = mathematical integers inside a wide bit-vector
with recorded no-overflow side conditions; std Option/Result/Clone/panic machinery)."""
import re
import z3
from .interp import BigU, BigI, Agg, Opaque, Panic, Unsupported, ValRef, deep_copy


def val(x):
    return x.get() if hasattr(x, "get") else x


def some(v): return Agg("enum", "Option", [v], 1)
def none(): return Agg("enum", "Option", [], 0)


def W(it): return it.W


def zx(it, t):
    return z3.ZeroExt(it.W - t.size(), t) if t.size() < it.W else (z3.Extract(it.W - 1, 0, t) if t.size() > it.W else t)


def amt(it, a):
    """usize shift amount -> W-bit term plus 'too large' flag"""
    a = val(a)
    if a.size() < it.W:
        return z3.ZeroExt(it.W - a.size(), a), z3.BoolVal(False)
    big = z3.UGE(a, z3.BitVecVal(it.W, a.size()))
    return z3.Extract(it.W - 1, 0, a), big


def bigu(x):
    x = val(x)
    if not isinstance(x, BigU):
        raise Unsupported(f"expected BigUint, got {x!r}")
    return x.t


def bigi(x):
    x = val(x)
    if not isinstance(x, BigI):
        raise Unsupported(f"expected BigInt, got {x!r}")
    return x.t


# ---- BigUint -----------------------------------------------------------------

def m_from_u(it, callee, args):
    a = val(args[0])
    if "BigInt" in callee:
        signed = "from_i" in callee
        t = z3.SignExt(it.W - a.size(), a) if signed else z3.ZeroExt(it.W - a.size(), a)
        return some(BigI(t))
    return some(BigU(z3.ZeroExt(it.W - a.size(), a)))


def m_shl(it, callee, args):
    x = val(args[0]); a, big = amt(it, args[1])
    t = x.t
    # the model overflows when bits are shifted out of the W-bit window (for BigInt: sign bits excepted)
    if isinstance(x, BigU):
        lost = z3.And(t != 0, z3.Or(big, z3.LShR(t << a, a) != t))
        it.side.append(("bigint-model-overflow/shl", lost))
        it.side.append(("shl-amount", a if not z3.is_true(big) else None, big))
        return BigU(t << a)
    lost = z3.Or(big, ((t << a) >> a) != t)
    it.side.append(("bigint-model-overflow/shl", lost))
    return BigI(t << a)


def m_shr(it, callee, args):
    x = val(args[0]); a, big = amt(it, args[1])
    if isinstance(x, BigU):
        return BigU(z3.If(big, z3.BitVecVal(0, it.W), z3.LShR(x.t, a)))
    return BigI(z3.If(big, z3.If(x.t < 0, z3.BitVecVal(-1, it.W), z3.BitVecVal(0, it.W)), x.t >> a))


def arith(op):
    def f(it, callee, args):
        x, y = val(args[0]), val(args[1])
        if isinstance(x, BigU) and isinstance(y, BigU):
            a, b = x.t, y.t
            if op == "add":
                it.side.append(("bigint-model-overflow/add", z3.Not(z3.BVAddNoOverflow(a, b, False)))); return BigU(a + b)
            if op == "sub":
                if it.branch(z3.ULT(a, b)):
                    raise Panic("BigUint subtraction underflow")
                return BigU(a - b)
            if op == "mul":
                # sufficient (cheap) no-overflow condition: both operands fit in the lower half of the window
                h = it.W // 2
                fits = z3.And(z3.Extract(it.W - 1, h, a) == 0, z3.Extract(it.W - 1, h, b) == 0)
                it.side.append(("bigint-model-overflow/mul", z3.Not(fits))); return BigU(a * b)
            if op in ("div", "rem"):
                if it.branch(b == 0):
                    raise Panic("BigUint division by zero")
                if getattr(it, "div_mode", "exact") == "uf":
                    # num-bigint's divider is foreign code: abstracted as an uninterpreted function
                    # constrained by the range facts of unsigned division
                    f = uf(it, "udiv" if op == "div" else "urem")
                    q = f(a, b)
                    fact = z3.ULE(q, a) if op == "div" else z3.ULT(q, b)
                    it.pc.append(fact); it.solver.add(fact)
                    return BigU(q)
                return BigU(z3.UDiv(a, b) if op == "div" else z3.URem(a, b))
            if op == "bitand": return BigU(a & b)
            if op == "bitor": return BigU(a | b)
            if op == "bitxor": return BigU(a ^ b)
        if isinstance(x, BigI) and isinstance(y, BigI):
            a, b = x.t, y.t
            if op == "add":
                it.side.append(("bigint-model-overflow/add", z3.Or(z3.Not(z3.BVAddNoOverflow(a, b, True)), z3.Not(z3.BVAddNoUnderflow(a, b))))); return BigI(a + b)
            if op == "sub":
                it.side.append(("bigint-model-overflow/sub", z3.Or(z3.Not(z3.BVSubNoOverflow(a, b)), z3.Not(z3.BVSubNoUnderflow(a, b, True))))); return BigI(a - b)
            if op == "mul":
                it.side.append(("bigint-model-overflow/mul", z3.Or(z3.Not(z3.BVMulNoOverflow(a, b, True)), z3.Not(z3.BVMulNoUnderflow(a, b))))); return BigI(a * b)
            if op in ("div", "rem"):
                if it.branch(b == 0):
                    raise Panic("BigInt division by zero")
                if getattr(it, "div_mode", "exact") == "uf":
                    f = uf(it, "sdiv" if op == "div" else "srem")
                    q = f(a, b)
                    absb = z3.If(b < 0, -b, b)
                    if op == "div":
                        fact = z3.If(a >= 0, z3.And(-a <= q, q <= a), z3.And(a <= q, q <= -a))
                    else:
                        fact = z3.If(a >= 0, z3.And(q >= 0, q < absb), z3.And(q <= 0, -absb < q))
                    it.pc.append(fact); it.solver.add(fact)
                    return BigI(q)
                return BigI((a / b) if op == "div" else z3.SRem(a, b))     # truncating, remainder takes the dividend's sign
            # num-bigint implements bit operations on BigInt with two's-complement semantics
            if op == "bitand": return BigI(a & b)
            if op == "bitor": return BigI(a | b)
            if op == "bitxor": return BigI(a ^ b)
        raise Unsupported(f"{op} on {x!r}, {y!r}")
    return f


def uf(it, name):
    return z3.Function(f"{name}_{it.W}", z3.BitVecSort(it.W), z3.BitVecSort(it.W), z3.BitVecSort(it.W))


def cmp(op):
    def f(it, callee, args):
        x, y = val(args[0]), val(args[1])
        if isinstance(x, BigU) and isinstance(y, BigU):
            a, b = x.t, y.t
            lt, le = z3.ULT(a, b), z3.ULE(a, b)
        elif isinstance(x, BigI) and isinstance(y, BigI):
            a, b = x.t, y.t
            lt, le = a < b, a <= b
        else:
            raise Unsupported(f"cmp {op} on {x!r}, {y!r}")
        if op == "eq": return a == b
        if op == "ne": return a != b
        if op == "lt": return lt
        if op == "le": return le
        if op == "gt": return z3.Not(le)
        if op == "ge": return z3.Not(lt)
        if op in ("cmp", "partial_cmp"):
            i = it.choose([lt, a == b, z3.Not(le)])
            o = Agg("enum", "Ordering", [], i)
            return some(o) if op == "partial_cmp" else o
        raise Unsupported(op)
    return f


def m_clone(it, callee, args):
    return deep_copy(val(args[0]))


def m_is_zero(it, callee, args):
    x = val(args[0])
    return x.t == 0


def m_is_one(it, callee, args):
    x = val(args[0])
    return x.t == 1


def to_prim(width):
    def f(it, callee, args):
        x = val(args[0])
        t = x.t
        fits = z3.ULT(t, z3.BitVecVal(1 << width, it.W)) if width < it.W else z3.BoolVal(True)
        if it.branch(fits):
            return some(z3.Extract(width - 1, 0, t) if width < it.W else z3.ZeroExt(width - it.W, t))
        return none()
    return f


def m_to_bigint(it, callee, args):
    x = val(args[0])
    it.side.append(("bigint-model-overflow/to_bigint", z3.Extract(it.W - 1, it.W - 1, x.t) == 1))
    return some(BigI(x.t))


def m_to_biguint(it, callee, args):
    x = val(args[0])
    if it.branch(x.t >= 0):
        return some(BigU(x.t))
    return none()


def m_neg(it, callee, args):
    x = val(args[0])
    return BigI(-x.t)


# ---- Option / Result / control flow -----------------------------------------------

def m_unwrap(it, callee, args):
    o = val(args[0])
    if not isinstance(o, Agg) or o.kind != "enum":
        raise Unsupported(f"unwrap of {o!r}")
    if o.name == "Option":
        if o.variant == 0: raise Panic("called `Option::unwrap()` on a `None` value")
        return o.fields[0]
    if o.name == "Result":
        if o.variant == 1: raise Panic("called `Result::unwrap()` on an `Err` value")
        return o.fields[0]
    raise Unsupported("unwrap on " + o.name)


def m_map(it, callee, args):
    o = val(args[0])
    if o.variant == 0:
        return none()
    return some(it.call_closure(args[1], [o.fields[0]]))


def m_unwrap_or_else(it, callee, args):
    o = val(args[0])
    if o.variant == 1:
        return o.fields[0]
    return it.call_closure(args[1], [])


def m_closure_call(it, callee, args):
    """<{closure} as Fn*<(A, B)>>::call*(closure, (a, b)) / <fn item as Fn*>::call*"""
    tup = val(args[1])
    clo = args[0]
    cv = val(clo)
    if isinstance(cv, Agg) and cv.kind == "fnptr":
        return it.dispatch(cv.name, list(tup.fields))
    return it.call_closure(clo, list(tup.fields))


def m_big_const(n):
    def f(it, callee, args):
        return (BigI if "BigInt" in callee else BigU)(z3.BitVecVal(n, it.W))
    return f


def m_bigint_from_biguint(it, callee, args):
    x = val(args[0])
    it.side.append(("bigint-model-overflow/to_bigint", z3.Extract(it.W - 1, it.W - 1, x.t) == 1))
    return BigI(x.t)


def m_int_from(it, callee, args):
    m = re.search(r"<(u|i)(\d+|size) as From<(\w+)>>::from$|<(\w+) as Into<(u|i)(\d+|size)>>::into$", callee)
    if m.group(1): dst, src = m.group(2), m.group(3)
    else: dst, src = m.group(6), m.group(4)
    w = 64 if dst == "size" else int(dst)
    x = val(args[0])
    if src == "bool":
        b = x if z3.is_bool(x) else (x != 0)
        return z3.If(b, z3.BitVecVal(1, w), z3.BitVecVal(0, w))
    if src == "char": src = "u32"
    if not z3.is_bv(x) or x.size() > w: raise Unsupported("int From " + callee)
    return z3.SignExt(w - x.size(), x) if src.startswith("i") else z3.ZeroExt(w - x.size(), x)


def assign_op(op):
    f = arith(op)
    def g(it, callee, args):
        r = f(it, callee, [val(args[0]), args[1]])
        args[0].set(r); return None
    return g


def m_int_checked(it, callee, args):
    m = re.search(r"<impl ([ui])(\d+|size)>::(\w+)$", callee)
    signed, meth = m.group(1) == "i", m.group(3)
    a, b = val(args[0]), val(args[1])
    w = a.size()
    op = meth.split("_", 1)[1]
    if op not in ("add", "sub"): raise Unsupported("int method " + meth)
    r = a + b if op == "add" else a - b
    if op == "add":
        ovf = z3.Not(z3.And(z3.BVAddNoOverflow(a, b, signed), z3.BVAddNoUnderflow(a, b) if signed else True))
    else:
        ovf = z3.Not(z3.And(z3.BVSubNoUnderflow(a, b, signed), z3.BVSubNoOverflow(a, b) if signed else True))
    if meth.startswith("wrapping_"): return r
    if meth.startswith("checked_"):
        return none() if it.branch(ovf) else some(r)
    if meth.startswith("saturating_") and not signed:
        return z3.If(ovf, z3.BitVecVal((1 << w) - 1 if op == "add" else 0, w), r)
    raise Unsupported("int method " + meth)


def m_then_some(it, callee, args):
    c = val(args[0])
    return some(val(args[1])) if it.branch(c if z3.is_bool(c) else c != 0) else none()


def m_as_ref(it, callee, args):
    from .interp import FieldRef
    o = val(args[0])
    if o.variant == 0: return none()
    return some(FieldRef(args[0] if hasattr(args[0], "get") else ValRef(o), 0))


def m_unwrap_or(it, callee, args):
    o = val(args[0])
    ok = (o.variant == 1) if o.name == "Option" else (o.variant == 0)
    return o.fields[0] if ok else val(args[1])


def m_and_then(it, callee, args):
    o = val(args[0])
    ok = (o.variant == 1) if o.name == "Option" else (o.variant == 0)
    return it.call_closure(args[1], [o.fields[0]]) if ok else o


def m_map_or(it, callee, args):
    o = val(args[0])
    ok = (o.variant == 1) if o.name == "Option" else (o.variant == 0)
    if ok: return it.call_closure(args[2], [o.fields[0]])
    return it.call_closure(args[1], []) if "map_or_else" in callee else val(args[1])


def m_result_map(it, callee, args):
    r = val(args[0])
    if r.variant != 0: return r
    return Agg("enum", "Result", [it.call_closure(args[1], [r.fields[0]])], 0)


def m_result_map_err(it, callee, args):
    r = val(args[0])
    if r.variant == 0: return r
    return Agg("enum", "Result", [it.call_closure(args[1], [r.fields[0]])], 1)


def m_option_filter(it, callee, args):
    o = val(args[0])
    if o.variant == 0: return o
    c = val(it.call_closure(args[1], [ValRef(o.fields[0])]))
    t = c if isinstance(c, bool) else it.branch(c if z3.is_bool(c) else c != 0)
    return o if t else none()


def m_option_take(it, callee, args):
    o = val(args[0]); args[0].set(none()); return o


def m_ok(it, callee, args):
    r = val(args[0])
    return some(r.fields[0]) if r.variant == 0 else none()


def m_ok_or(it, callee, args):
    o = val(args[0])
    if o.variant == 1:
        return Agg("enum", "Result", [o.fields[0]], 0)
    return Agg("enum", "Result", [val(args[1])], 1)


def m_ok_or_else(it, callee, args):
    o = val(args[0])
    if o.variant == 1:
        return Agg("enum", "Result", [o.fields[0]], 0)
    return Agg("enum", "Result", [it.call_closure(args[1], [])], 1)


def m_branch(it, callee, args):
    r = val(args[0])
    if r.name == "Result":
        if r.variant == 0:
            return Agg("enum", "ControlFlow", [r.fields[0]], 0)
        return Agg("enum", "ControlFlow", [Agg("enum", "Result", [r.fields[0]], 1)], 1)
    if r.name == "Option":
        if r.variant == 1:
            return Agg("enum", "ControlFlow", [r.fields[0]], 0)
        return Agg("enum", "ControlFlow", [none()], 1)
    raise Unsupported("branch on " + r.name)


def m_from_residual(it, callee, args):
    r = val(args[0])
    return r      # Result<!, E> -> Result<T, E'> (error conversion is the identity for falcon::Error here)


def m_from(it, callee, args):
    return val(args[0])


def m_panic(it, callee, args):
    raise Panic(callee.split("::")[-1][:60])


def m_opaque(it, callee, args):
    return Opaque(callee[:50])


def m_is_multiple_of(it, callee, args):
    a, b = val(args[0]), val(args[1])
    return z3.If(b == 0, a == 0, z3.URem(a, b) == 0)


def m_is_some(it, callee, args):
    return z3.BoolVal(val(args[0]).variant == 1)


def m_is_none(it, callee, args):
    return z3.BoolVal(val(args[0]).variant == 0)


def m_deref_id(it, callee, args):
    return args[0]


def int_cmp(op, signed_types=("isize", "i64", "i32", "i16", "i8", "i128")):
    def f(it, callee, args):
        a, b = val(args[0]), val(args[1])
        signed = any(("<" + t + " as") in callee for t in signed_types)
        lt = (a < b) if signed else z3.ULT(a, b)
        le = (a <= b) if signed else z3.ULE(a, b)
        if op == "lt": return lt
        if op == "le": return le
        if op == "gt": return z3.Not(le)
        if op == "ge": return z3.Not(lt)
        if op == "eq": return a == b
        if op == "ne": return a != b
        i = it.choose([lt, a == b, z3.Not(le)])
        o = Agg("enum", "Ordering", [], i)
        return some(o) if op == "partial_cmp" else o
    return f


def m_int_minmax(which):
    def f(it, callee, args):
        a, b = val(args[0]), val(args[1])
        c = z3.ULE(a, b)
        return z3.If(c, a, b) if which == "min" else z3.If(c, b, a)
    return f


def R(p):
    return re.compile(p)


INT = r"(usize|u64|u32|u16|u8|u128|isize|i64|i32|i16|i8|i128)"
MODELS = [
    (R(r"<" + INT + r" as Ord>::cmp$"), int_cmp("cmp")),
    (R(r"<" + INT + r" as PartialOrd>::partial_cmp$"), int_cmp("partial_cmp")),
    (R(r"<" + INT + r" as PartialOrd>::lt$"), int_cmp("lt")),
    (R(r"<" + INT + r" as PartialOrd>::le$"), int_cmp("le")),
    (R(r"<" + INT + r" as PartialOrd>::gt$"), int_cmp("gt")),
    (R(r"<" + INT + r" as PartialOrd>::ge$"), int_cmp("ge")),
    (R(r"<" + INT + r" as PartialEq>::eq$"), int_cmp("eq")),
    (R(r"<" + INT + r" as PartialEq>::ne$"), int_cmp("ne")),
    (R(r"<" + INT + r" as Ord>::min$|cmp::min::<" + INT + ">$"), m_int_minmax("min")),
    (R(r"<" + INT + r" as Ord>::max$|cmp::max::<" + INT + ">$"), m_int_minmax("max")),
    (R(r"FromPrimitive>::from_(u64|i64|u32|usize|u8)$"), m_from_u),
    (R(r"<&?BigU?[iI]?nt as Shl<usize>>::shl$"), m_shl),
    (R(r"<&?Big(Ui|I)nt as Shr<usize>>::shr$"), m_shr),
    (R(r"<&?Big(Ui|I)nt as (std::ops::)?Add(<.*>)?>::add$"), arith("add")),
    (R(r"<&?Big(Ui|I)nt as (std::ops::)?Sub(<.*>)?>::sub$"), arith("sub")),
    (R(r"<&?Big(Ui|I)nt as (std::ops::)?Mul(<.*>)?>::mul$"), arith("mul")),
    (R(r"<&?Big(Ui|I)nt as (std::ops::)?Div(<.*>)?>::div$"), arith("div")),
    (R(r"<&?Big(Ui|I)nt as (std::ops::)?Rem(<.*>)?>::rem$"), arith("rem")),
    (R(r"<&?Big(Ui|I)nt as (std::ops::)?BitAnd(<.*>)?>::bitand$"), arith("bitand")),
    (R(r"<&?Big(Ui|I)nt as (std::ops::)?BitOr(<.*>)?>::bitor$"), arith("bitor")),
    (R(r"<&?Big(Ui|I)nt as (std::ops::)?BitXor(<.*>)?>::bitxor$"), arith("bitxor")),
    (R(r"<Big(Ui|I)nt as (std::ops::)?Neg>::neg$"), m_neg),
    (R(r"<Big(Ui|I)nt as (std::ops::)?AddAssign(<.*>)?>::add_assign$"), assign_op("add")),
    (R(r"<Big(Ui|I)nt as (std::ops::)?SubAssign(<.*>)?>::sub_assign$"), assign_op("sub")),
    (R(r"<Big(Ui|I)nt as (std::ops::)?MulAssign(<.*>)?>::mul_assign$"), assign_op("mul")),
    (R(r"<Big(Ui|I)nt as (std::ops::)?BitAndAssign(<.*>)?>::bitand_assign$"), assign_op("bitand")),
    (R(r"<Big(Ui|I)nt as (std::ops::)?BitOrAssign(<.*>)?>::bitor_assign$"), assign_op("bitor")),
    (R(r"<Big(Ui|I)nt as (std::ops::)?BitXorAssign(<.*>)?>::bitxor_assign$"), assign_op("bitxor")),
    (R(r"^<[ui](\d+|size) as From<(bool|char|[ui]\d+|[ui]size)>>::from$|^<(bool|[ui]\d+) as Into<[ui](\d+|size)>>::into$"), m_int_from),
    (R(r"<&?Big(Ui|I)nt as PartialEq(<.*>)?>::eq$"), cmp("eq")),
    (R(r"<&?Big(Ui|I)nt as PartialEq(<.*>)?>::ne$"), cmp("ne")),
    (R(r"<&?Big(Ui|I)nt as PartialOrd(<.*>)?>::lt$"), cmp("lt")),
    (R(r"<&?Big(Ui|I)nt as PartialOrd(<.*>)?>::le$"), cmp("le")),
    (R(r"<&?Big(Ui|I)nt as PartialOrd(<.*>)?>::gt$"), cmp("gt")),
    (R(r"<&?Big(Ui|I)nt as PartialOrd(<.*>)?>::ge$"), cmp("ge")),
    (R(r"<&?Big(Ui|I)nt as PartialOrd(<.*>)?>::partial_cmp$"), cmp("partial_cmp")),
    (R(r"<&?Big(Ui|I)nt as Ord>::cmp$"), cmp("cmp")),
    (R(r"<Big(Ui|I)nt as Clone>::clone$"), m_clone),
    (R(r"<Big(Ui|I)nt as (num_traits::)?Zero>::is_zero$"), m_is_zero),
    (R(r"<Big(Ui|I)nt as (num_traits::)?One>::is_one$"), m_is_one),
    (R(r"<BigUint as ToPrimitive>::to_(usize|u64)$"), to_prim(64)),
    (R(r"<BigUint as ToPrimitive>::to_u128$"), to_prim(128)),
    (R(r"<BigUint as ToPrimitive>::to_u32$"), to_prim(32)),
    (R(r"<BigUint as ToBigInt>::to_bigint$"), m_to_bigint),
    (R(r"<Big(Ui|I)nt as (num_traits::)?Zero>::zero$"), m_big_const(0)),
    (R(r"<Big(Ui|I)nt as (num_traits::)?One>::one$"), m_big_const(1)),
    (R(r"<BigInt as From<BigUint>>::from$|<BigUint as Into<BigInt>>::into$"), m_bigint_from_biguint),
    (R(r"^<\{closure@.*\} as (std::ops::)?Fn(Mut|Once)?<.*>>::call(_mut|_once)?$|^<fnptr as (std::ops::)?Fn(Mut|Once)?<.*>>::call(_mut|_once)?$"), m_closure_call),
    (R(r"BigInt::to_biguint$|<BigInt as ToBigUint>::to_biguint$"), m_to_biguint),
    (R(r"Option::<.*>::unwrap$|Result::<.*>::unwrap$|Option::<.*>::expect$|Result::<.*>::expect$"), m_unwrap),
    (R(r"Option::<.*>::map::<"), m_map),
    (R(r"Option::<.*>::unwrap_or_else::<"), m_unwrap_or_else),
    (R(r"Option::<.*>::as_(ref|mut)$"), m_as_ref),
    (R(r"num::<impl [ui](\d+|size)>::(checked|wrapping|saturating)_(add|sub)$"), m_int_checked),
    (R(r"<impl bool>::then_some::<"), m_then_some),
    (R(r"(Option|Result)::<.*>::unwrap_or$"), m_unwrap_or),
    (R(r"(Option|Result)::<.*>::and_then::<"), m_and_then),
    (R(r"(Option|Result)::<.*>::map_or(_else)?::<"), m_map_or),
    (R(r"Result::<.*>::map::<"), m_result_map),
    (R(r"Result::<.*>::map_err::<"), m_result_map_err),
    (R(r"Option::<.*>::filter::<"), m_option_filter),
    (R(r"Option::<.*>::take$"), m_option_take),
    (R(r"Result::<.*>::is_ok$"), lambda it, c, a: z3.BoolVal(val(a[0]).variant == 0)),
    (R(r"Result::<.*>::is_err$"), lambda it, c, a: z3.BoolVal(val(a[0]).variant != 0)),
    (R(r"Result::<.*>::ok$"), m_ok),
    (R(r"Option::<.*>::ok_or::<"), m_ok_or),
    (R(r"Option::<.*>::ok_or_else::<"), m_ok_or_else),
    (R(r"Option::<.*>::is_some$"), m_is_some),
    (R(r"Option::<.*>::is_none$"), m_is_none),
    (R(r" as Try>::branch$"), m_branch),
    (R(r" as FromResidual<.*>>::from_residual$"), m_from_residual),
    (R(r"panicking::|panic_fmt|::panic$|unwrap_failed|expect_failed|begin_panic"), m_panic),
    (R(r"usize::is_multiple_of$|core::num::<impl usize>::is_multiple_of$"), m_is_multiple_of),
    (R(r"<std::string::String as Deref>::deref$|<String as Deref>::deref$|str>::to_string$|<str as ToOwned>::to_owned$|<String as Clone>::clone$"), m_opaque),
    (R(r"fmt::Arguments|format$|fmt::format|Formatter|String as From|ToString>::to_string|<str as ToString>"), m_opaque),
    (R(r"<Error as From<(&str|String)>>::from$"), lambda it, c, a: Agg("enum", "Error", [Opaque("custom")], it.prog.enums["Error"].index("Custom"))),
]
