"""Path-forking symbolic interpreter for falcon MIR (Engine B).

Values: z3 bit-vectors for machine integers, z3 Bool for bool, BigU/BigI (wide bit-vectors with
overflow side conditions) for num-bigint values, Agg for structs/enums/tuples/closures, Ref cells
for references.  Forking = re-execution with a decision prefix."""
import re, glob, os
import z3
from . import mirparse as P
from .mirparse import Unsupported


class Panic(Exception):
    def __init__(self, msg):
        super().__init__(msg)
        self.msg = msg


class Infeasible(Exception):
    pass


INTW = {"usize": 64, "isize": 64, "u64": 64, "i64": 64, "u32": 32, "i32": 32, "u16": 16, "i16": 16, "u8": 8, "i8": 8, "u128": 128, "i128": 128, "char": 32}
SIGNED = {"isize", "i64", "i32", "i16", "i8", "i128"}


class BigU:
    def __init__(self, t): self.t = t
    def __repr__(self): return f"BigU({self.t})"


class BigI:
    def __init__(self, t): self.t = t
    def __repr__(self): return f"BigI({self.t})"


class Agg:
    """kind: struct | enum | tuple | closure | array"""
    def __init__(self, kind, name, fields, variant=None):
        self.kind = kind; self.name = name; self.fields = list(fields); self.variant = variant

    def __repr__(self):
        return f"{self.name}#{self.variant}{self.fields}" if self.kind == "enum" else f"{self.name}{self.fields}"


class Opaque:
    def __init__(self, what): self.what = what
    def __repr__(self): return f"<{self.what}>"


class LocalRef:
    def __init__(self, frame, name): self.frame = frame; self.name = name
    def get(self): return self.frame[self.name]
    def set(self, v): self.frame[self.name] = v


class FieldRef:
    def __init__(self, parent, idx): self.parent = parent; self.idx = idx
    def get(self): return self.parent.get().fields[self.idx]
    def set(self, v): self.parent.get().fields[self.idx] = v


class ValRef:
    """Reference to a value that has no addressable home (e.g. a model result)."""
    def __init__(self, v): self.v = v
    def get(self): return self.v
    def set(self, v): self.v = v


class _ItemRef:
    def __init__(self, v, i): self.v = v; self.i = i
    def get(self): return self.v.items[self.i]
    def set(self, x): self.v.items[self.i] = x


class _ByteRef:
    def __init__(self, bv, idx): self.bv = bv; self.idx = idx
    def get(self): return self.bv.at(self.idx)
    def set(self, v): self.bv.arr = z3.Store(self.bv.arr, self.bv.off + self.idx, v)


def box(v):
    """Box<T> as MIR sees it: Box { 0: Unique { 0: NonNull(ptr) }, 1: allocator }"""
    return Agg("struct", "Box", [Agg("struct", "Unique", [ValRef(v)]), None])


def deep_copy(v):
    if isinstance(v, Agg):
        return Agg(v.kind, v.name, [deep_copy(x) for x in v.fields], v.variant)
    return v


# ------------------------------------------------------------------ enums --

BUILTIN_ENUMS = {
    "Option": ["None", "Some"], "Result": ["Ok", "Err"], "Ordering": ["Less", "Equal", "Greater"],
    "ControlFlow": ["Continue", "Break"], "Bound": ["Included", "Excluded", "Unbounded"],
}


def scan_enums(src_root):
    enums = dict(BUILTIN_ENUMS)
    for path in glob.glob(os.path.join(src_root, "**", "*.rs"), recursive=True):
        if "/target/" in path: continue
        txt = open(path).read()
        txt = re.sub(r'"(?:[^"\\]|\\.)*"', '""', txt)        # drop string literals (they contain brackets)
        txt = re.sub(r"//[^\n]*", "", txt)
        for m in re.finditer(r"(?:pub(?:\(crate\))? )?enum (\w+)(?:<[^>]*>)?\s*\{", txt):
            name = m.group(1)
            i = m.end(); depth = 1; body = ""
            while i < len(txt) and depth:
                c = txt[i]
                if c in "{([": depth += 1
                elif c in "})]": depth -= 1
                if depth: body += c
                i += 1
            # variants at depth 0 of body
            vs = []; d = 0; cur = ""
            for c in body + ",":
                if c in "{([<": d += 1
                if c in "})]>": d -= 1
                if c == "," and d == 0:
                    t = re.sub(r"#\[[^\]]*\]", "", cur)
                    t = re.sub(r"//[^\n]*", "", t).strip()
                    mm = re.match(r"(\w+)", t)
                    if mm: vs.append(mm.group(1))
                    cur = ""
                else:
                    cur += c
            if vs and name not in enums:
                enums[name] = vs
    return enums


def strip_generics(s):
    out = ""; d = 0; i = 0
    while i < len(s):
        c = s[i]
        if c == "<" :
            d += 1
        elif c == ">" and s[i - 1] != "-":
            d -= 1
        elif d == 0:
            out += c
        i += 1
    return out.replace("::::", "::").rstrip(":")


class Program:
    """All parsed function texts + enum table + call resolution."""

    def __init__(self, mir_path, src_root, wanted):
        # functions the dump prints without a module path (nested `fn` items, free functions with a crate-unique name) are
        # always loaded: which of them a function under analysis calls depends on how the code is factored
        w0 = wanted
        wanted = (lambda n: w0(n) or re.fullmatch(r"\w+", n) is not None) if w0 is not None else None
        self.raw = P.parse_file(mir_path, wanted)
        # one-line constant items: `const NAME: u64 = const 123_u64;` (no module path in the dump)
        self.simple_consts = {}
        with open(mir_path) as fh:
            for ln in fh:
                if ln.startswith("const ") and ln.rstrip().endswith(";"):
                    m = re.match(r"^const (\w+): [\w:<>&\[\]; ]+ = const (.+);$", ln.rstrip())
                    if m:
                        self.simple_consts.setdefault(m.group(1), set()).add(m.group(2))
        self.enums = scan_enums(src_root)
        self.built = {}
        self.by_method = {}
        self.closures = {}
        for name, ents in self.raw.items():
            base = name.split("::")[-1]
            self.by_method.setdefault(base, []).append(name)
            for e in ents:
                params = e[1]
                m = re.match(r"_1: (?:&mut |&)?(\{closure@[^}]*\})", params)
                if m:
                    self.closures[m.group(1)] = name

    def func(self, name, idx=0):
        k = (name, idx)
        if k not in self.built:
            self.built[k] = P.build(self.raw[name][idx])
        return self.built[k]

    def resolve(self, callee):
        """Return the defined function name for a call path, or None."""
        c = callee.strip()
        m = re.match(r"<(.+) as (.+)>::(\w+)$", strip_outer(c))
        if c in self.raw:
            return c
        sg = strip_generics(c)
        if sg in self.raw:
            return sg
        if m:
            ty, tr, meth = m.group(1), m.group(2), m.group(3)
            ty = ty.replace("&mut ", "").replace("&", "").strip()
            tyl = strip_generics(ty).split("::")[-1]
            cands = [n for n in self.by_method.get(meth, []) if "<impl at" in n]
            good = []
            for n in cands:
                p0 = self.raw[n][0][1]
                first = P.split_top(p0)[0] if p0 else ""
                ret = self.raw[n][0][2]
                if re.search(r"\b" + re.escape(tyl) + r"\b", first) or (not p0 and re.search(r"\b" + re.escape(tyl) + r"\b", ret)):
                    good.append(n)
            if len(good) == 1:
                return good[0]
            # disambiguate by trait name inside the impl location's file is not possible from text: give up
            return None
        parts = sg.split("::")
        if len(parts) >= 2:
            meth, ty = parts[-1], parts[-2]
            mod = "::".join(parts[:-2])
            cands = [n for n in self.by_method.get(meth, []) if "<impl at" in n and n.startswith(mod + "::<impl at") and n.count("::") == sg.count("::")]
            if not cands:
                cands = [n for n in self.by_method.get(meth, []) if "<impl at" in n and (n.split("::<impl")[0].endswith(mod) if mod else True)]
            if not cands and mod:
                # the call names the full module path (il::scalar::..), the definition only its tail (scalar::..)
                cands = [n for n in self.by_method.get(meth, []) if "<impl at" in n and n.endswith(">::" + meth) and (mod == n.split("::<impl")[0] or mod.endswith("::" + n.split("::<impl")[0]))]
            good = []
            for n in cands:
                p0 = self.raw[n][0][1]
                first = P.split_top(p0)[0] if p0 else ""
                ret = self.raw[n][0][2]
                sig = first + " -> " + ret
                if re.search(r"\b" + re.escape(ty) + r"\b", sig) or not p0:
                    good.append(n)
            if len(good) > 1:
                # an inherent method and a trait method with the same body (e.g. Block::index and <Block as Vertex>::index)
                bodies = {"\n".join(self.raw[n][0][3]) for n in good}
                if len(bodies) == 1:
                    return good[0]
            if len(good) > 1:
                # parameterless constructors: decide by the return type
                exact = [n for n in good if re.search(r"\b" + re.escape(ty) + r"\b", self.raw[n][0][2])]
                if len(exact) == 1:
                    return exact[0]
            if len(good) == 1:
                return good[0]
            if len(cands) == 1:
                return cands[0]
        return None


def strip_outer(c):
    # remove trailing turbofish on the method: <A as B>::m::<T>  ->  <A as B>::m
    return re.sub(r"::<[^<>]*(?:<[^<>]*>[^<>]*)*>$", "", c)


# ------------------------------------------------------------- interpreter --

class Interp:
    def __init__(self, prog, W=200, models=None, timeout_ms=10000):
        self.prog = prog
        self.W = W
        self.models = models or {}
        self.timeout_ms = timeout_ms
        self.reset([])

    def reset(self, decisions):
        self.decisions = list(decisions)
        self.dpos = 0
        self.pc = []
        self.pending = []
        self.side = []          # (kind, z3 Bool): overflow-of-model conditions etc.
        self.fresh = 0
        self.depth = 0
        self.calls = set()
        self.solver = z3.Solver()
        self.solver.set("timeout", self.timeout_ms)

    # ---- choice points
    def feasible(self, cond):
        self.solver.push()
        self.solver.add(cond)
        r = self.solver.check()
        self.solver.pop()
        return r != z3.unsat

    def choose(self, conds):
        """conds: list of z3 Bool alternatives (mutually exclusive, exhaustive). Returns chosen index."""
        conds = [z3.simplify(c) if not isinstance(c, bool) else z3.BoolVal(c) for c in conds]
        concrete = [i for i, c in enumerate(conds) if z3.is_true(c)]
        if concrete:
            return concrete[0]
        if self.dpos < len(self.decisions):
            i = self.decisions[self.dpos]
        else:
            feas = [i for i, c in enumerate(conds) if not z3.is_false(c) and self.feasible(c)]
            if not feas:
                raise Infeasible()
            i = feas[0]
            for j in feas[1:]:
                self.pending.append(self.decisions[:self.dpos] + [j])
            self.decisions.append(i)
        self.dpos += 1
        self.pc.append(conds[i])
        self.solver.add(conds[i])
        return i

    def branch(self, cond):
        """True/False by forking."""
        if isinstance(cond, bool):
            return cond
        return self.choose([cond, z3.Not(cond)]) == 0

    def fresh_bv(self, name, w):
        self.fresh += 1
        return z3.BitVec(f"{name}!{self.fresh}", w)

    # ---- values
    def width_of(self, ty):
        ty = ty.strip()
        if ty in INTW: return INTW[ty]
        return None

    def const(self, text, ty_hint=None):
        t = text.strip()
        if t == "true": return z3.BoolVal(True)
        if t == "false": return z3.BoolVal(False)
        m = re.match(r"^(-?\d+)_(\w+)$", t)
        if m:
            return z3.BitVecVal(int(m.group(1)), INTW[m.group(2)])
        m = re.match(r"^(?:[\w:]*core::num::<impl )?(usize|u64|u32|u16|u8|u128|isize|i64|i32|i16|i8|i128)>?::(MIN|MAX|BITS)$", t)
        if m:
            w = INTW[m.group(1)]; sg = m.group(1) in SIGNED
            if m.group(2) == "BITS": return z3.BitVecVal(w, 32)
            if m.group(2) == "MAX": return z3.BitVecVal((1 << (w - 1)) - 1 if sg else (1 << w) - 1, w)
            return z3.BitVecVal(-(1 << (w - 1)) if sg else 0, w)
        if t.startswith('"') or t.startswith("b\""):
            return Opaque("str " + t[:40])
        if t.startswith("ZeroSized"):
            ty = t.split(":", 1)[1].strip() if ":" in t else ""
            if ty.startswith("{closure@"):
                return Agg("closure", ty, [])
            return Opaque("zst " + ty[:60])
        if t == "()":
            return None
        m = re.match(r"^(.*)::(\w+)::promoted\[(\d+)\]$", t)
        if m:
            suffix = f"::{m.group(2)}::promoted[{m.group(3)}]"
            cands = [n for n in self.prog.raw if n.startswith("const ") and n.endswith(suffix)]
            if len(cands) > 1:
                mod = strip_generics(m.group(1)).split("::")[-2:] if "::" in m.group(1) else []
                c2 = [n for n in cands if all(x.lower() in n.lower() for x in mod[:1])]
                cands = c2 or cands
            if len(cands) >= 1:
                return self.call(cands[0], [])
            raise Unsupported("promoted constant not found: " + t)
        if ("const " + t) in self.prog.raw:                      # a constant item of the crate with a MIR body
            return self.call("const " + t, [])
        last = t.split("::")[-1]
        if re.match(r"^[A-Z][A-Z0-9_]*$", last) and len(self.prog.simple_consts.get(last, ())) == 1:
            return self.const(next(iter(self.prog.simple_consts[last])))
        if re.match(r"^[\w:]+::[A-Z][A-Z0-9_]*$", t):
            cands = [n for n in self.prog.raw if n.startswith("const ") and "promoted" not in n and t.endswith("::" + n[6:])]
            if len(cands) == 1:
                return self.call(cands[0], [])
        m = re.match(r"^([\w:<>]+)::(\w+)$", t)
        if m:
            en = strip_generics(m.group(1)).split("::")[-1]
            if en in self.prog.enums and m.group(2) in self.prog.enums[en]:
                return Agg("enum", en, [], self.prog.enums[en].index(m.group(2)))
        return Opaque("const " + t[:60])

    def place_ref(self, frame, p):
        k = p[0]
        if k == "local":
            return LocalRef(frame, p[1])
        if k == "deref":
            r = self.place_ref(frame, p[1]).get()
            if not hasattr(r, "get"):
                raise Unsupported(f"deref of non-reference {r!r}")
            return r
        if k == "field":
            return FieldRef(self.place_ref(frame, p[1]), p[2])
        if k == "downcast":
            return self.place_ref(frame, p[1])
        if k == "index":
            base = self.place_ref(frame, p[1]).get()
            while hasattr(base, "get"):
                base = base.get()
            iv = frame[p[2]]
            while hasattr(iv, "get"):
                iv = iv.get()
            iv = z3.simplify(iv) if z3.is_bv(iv) else iv
            if hasattr(base, "items") and z3.is_bv_value(iv):
                i = iv.as_long()
                if i >= len(base.items):
                    raise Panic("index out of bounds")
                return _ItemRef(base, i)
            if hasattr(base, "at") and z3.is_bv(iv):           # byte vector: symbolic index
                if not self.branch(z3.ULT(iv, base.len)):
                    raise Panic("index out of bounds")
                return _ByteRef(base, iv)
            raise Unsupported(f"index place on {base!r}")
        raise Unsupported(f"place kind {k}")

    def read(self, frame, p):
        return self.place_ref(frame, p).get()

    def operand(self, frame, op):
        if op[0] == "const":
            return self.const(op[1])
        if op[0] == "fnitem":
            return Agg("fnptr", op[1], [])
        v = self.read(frame, op[1])
        return v

    # ---- rvalues
    def rvalue(self, fn, frame, rv, dest_ty):
        k = rv[0]
        if k == "use":
            v = self.operand(frame, rv[1])
            return deep_copy(v) if rv[1][0] == "copy" else v
        if k == "ref":
            return self.place_ref(frame, rv[1])
        if k == "fnptr":
            return Agg("fnptr", rv[1], [])
        if k == "binop":
            return self.binop(rv[1], self.operand(frame, rv[2]), self.operand(frame, rv[3]), fn, rv)
        if k == "unop":
            a = self.operand(frame, rv[2])
            if rv[1] == "Not":
                return z3.Not(a) if z3.is_bool(a) else ~a
            if rv[1] == "Neg":
                return -a
            if rv[1] == "PtrMetadata":
                # length of a slice / vector behind the pointer
                x = a
                while hasattr(x, "get"):
                    x = x.get()
                if hasattr(x, "items"): return z3.BitVecVal(len(x.items), 64)
                if hasattr(x, "len") and not callable(x.len): return x.len
            raise Unsupported("unop " + rv[1])
        if k == "cast":
            a = self.operand(frame, rv[1])
            tw = self.width_of(rv[2])
            if tw is None or not z3.is_bv(a):
                if z3.is_bool(a) and tw:
                    return z3.If(a, z3.BitVecVal(1, tw), z3.BitVecVal(0, tw))
                return a
            src_signed = self.operand_type(fn, rv[1]) in SIGNED
            if tw > a.size():
                return z3.SignExt(tw - a.size(), a) if src_signed else z3.ZeroExt(tw - a.size(), a)
            if tw < a.size():
                return z3.Extract(tw - 1, 0, a)
            return a
        if k == "discriminant":
            v = self.read(frame, rv[1])
            if not isinstance(v, Agg) or v.kind != "enum":
                raise Unsupported(f"discriminant of {v!r}")
            en = self.prog.enums.get(v.name)
            val = v.variant
            if v.name == "Ordering":
                val = v.variant - 1
            return z3.BitVecVal(val, INTW.get((dest_ty or "").strip(), 64))
        if k == "tuple":
            return Agg("tuple", "()", [self.operand(frame, o) for o in rv[1]])
        if k == "closure":
            return Agg("closure", rv[1], [self.operand(frame, o) for _, o in rv[2]])
        if k == "struct":
            return Agg("struct", strip_generics(rv[1]).split("::")[-1], [self.operand(frame, o) for _, o in rv[2]])
        if k == "variant":
            name = strip_generics(rv[1])
            parts = name.split("::")
            if len(parts) >= 2 and parts[-2] in self.prog.enums and parts[-1] in self.prog.enums[parts[-2]]:
                return Agg("enum", parts[-2], [self.operand(frame, o) for o in rv[2]], self.prog.enums[parts[-2]].index(parts[-1]))
            if parts[-1] in self.prog.enums and not rv[2]:
                raise Unsupported("bare enum " + name)
            return Agg("struct", parts[-1], [self.operand(frame, o) for o in rv[2]])
        if k == "array":
            return Agg("array", "[]", [self.operand(frame, o) for o in rv[1]])
        raise Unsupported("rvalue kind " + k)

    def operand_type(self, fn, op):
        if op[0] == "const":
            m = re.match(r"^-?\d+_(\w+)$", op[1].strip())
            return m.group(1) if m else ""
        p = op[1]
        if p[0] == "local":
            return fn.locals.get(p[1], "")
        if p[0] == "field":
            return p[3]
        return ""

    def binop(self, op, a, b, fn=None, rv=None):
        signed = False
        if fn is not None and rv is not None:
            signed = self.operand_type(fn, rv[2]) in SIGNED
        if isinstance(a, Agg) and a.kind == "enum" and isinstance(b, Agg):
            if op == "Eq": return z3.BoolVal(a.variant == b.variant)
            if op == "Ne": return z3.BoolVal(a.variant != b.variant)
        if z3.is_bool(a) and z3.is_bool(b):
            if op == "Eq": return a == b
            if op == "Ne": return a != b
            if op == "BitAnd": return z3.And(a, b)
            if op == "BitOr": return z3.Or(a, b)
            if op == "BitXor": return z3.Xor(a, b)
        if not (z3.is_bv(a) and z3.is_bv(b)):
            raise Unsupported(f"binop {op} on {str(a)[:80]!r}, {str(b)[:80]!r}")
        if op in ("Shl", "Shr", "ShlUnchecked", "ShrUnchecked") and a.size() != b.size():
            b = z3.ZeroExt(a.size() - b.size(), b) if b.size() < a.size() else z3.Extract(a.size() - 1, 0, b)
        w = a.size()
        if op in ("Add", "AddUnchecked"): return a + b
        if op in ("Sub", "SubUnchecked"): return a - b
        if op in ("Mul", "MulUnchecked"): return a * b
        if op == "Div": return (a / b) if signed else z3.UDiv(a, b)
        if op == "Rem": return z3.SRem(a, b) if signed else z3.URem(a, b)
        if op == "BitAnd": return a & b
        if op == "BitOr": return a | b
        if op == "BitXor": return a ^ b
        if op in ("Shl", "ShlUnchecked"): return a << b
        if op in ("Shr", "ShrUnchecked"): return (a >> b) if signed else z3.LShR(a, b)
        if op == "Eq": return a == b
        if op == "Ne": return a != b
        if op == "Lt": return (a < b) if signed else z3.ULT(a, b)
        if op == "Le": return (a <= b) if signed else z3.ULE(a, b)
        if op == "Gt": return (a > b) if signed else z3.UGT(a, b)
        if op == "Ge": return (a >= b) if signed else z3.UGE(a, b)
        if op == "AddWithOverflow":
            ov = z3.Not(z3.BVAddNoOverflow(a, b, signed)) if not signed else z3.Or(z3.Not(z3.BVAddNoOverflow(a, b, True)), z3.Not(z3.BVAddNoUnderflow(a, b)))
            return Agg("tuple", "()", [a + b, ov])
        if op == "SubWithOverflow":
            ov = z3.ULT(a, b) if not signed else z3.Or(z3.Not(z3.BVSubNoOverflow(a, b)), z3.Not(z3.BVSubNoUnderflow(a, b, True)))
            return Agg("tuple", "()", [a - b, ov])
        if op == "MulWithOverflow":
            ov = z3.Not(z3.BVMulNoOverflow(a, b, signed))
            if signed: ov = z3.Or(ov, z3.Not(z3.BVMulNoUnderflow(a, b)))
            return Agg("tuple", "()", [a * b, ov])
        raise Unsupported("binop " + op)

    # ---- execution
    def call(self, name, args, idx=0):
        fn = self.prog.func(name, idx)
        self.calls.add(name)
        self.depth += 1
        if self.depth > 60:
            raise Unsupported("call depth")
        frame = {}
        for (l, t), a in zip(fn.params, args):
            frame[l] = a
        bb = "bb0"
        steps = 0
        while True:
            steps += 1
            if steps > 5000:
                raise Unsupported("step limit in " + name)
            blk = fn.blocks[bb]
            for place, rv in blk.stmts:
                v = self.rvalue(fn, frame, rv, fn.locals.get(place[1]) if place[0] == "local" else None)
                self.place_ref(frame, place).set(v)
            t = blk.term
            k = t[0]
            if k == "goto":
                bb = t[1]
            elif k == "return":
                self.depth -= 1
                return frame.get("_0")
            elif k == "switch":
                v = self.operand(frame, t[1])
                targets = t[2]
                if z3.is_bool(v):
                    v = z3.If(v, z3.BitVecVal(1, 8), z3.BitVecVal(0, 8))
                if not z3.is_bv(v):
                    raise Unsupported(f"switch on {v!r}")
                vals = [x for x in targets if x != "otherwise"]
                conds = [v == z3.BitVecVal(int(x) & ((1 << v.size()) - 1), v.size()) for x in vals]
                if "otherwise" in targets:
                    conds.append(z3.Not(z3.Or(*conds)) if conds else z3.BoolVal(True))
                    vals.append("otherwise")
                i = self.choose(conds)
                bb = targets[vals[i]]
            elif k == "assert":
                c = self.operand(frame, t[1])
                ok = z3.Not(c) if t[2] else c
                if self.branch(ok):
                    bb = t[4]["success"]
                else:
                    raise Panic("assert failed: " + t[3][:80])
            elif k == "drop":
                bb = t[2]["return"]
            elif k == "call":
                dest, callee, aops, targets = t[1], t[2], t[3], t[4]
                args2 = [self.operand(frame, o) for o in aops]
                mfp = re.fullmatch(r"(?:move|copy) (_\d+)", callee)
                if mfp:                                   # call through a function pointer held in a local
                    fp = frame[mfp.group(1)]
                    if not (isinstance(fp, Agg) and fp.kind == "fnptr"):
                        raise Unsupported(f"indirect call through {fp!r}")
                    callee = fp.name
                res = self.dispatch(callee, args2)
                if "return" not in targets:
                    raise Panic("diverging call returned: " + callee[:60])
                self.place_ref(frame, dest).set(res)
                bb = targets["return"]
            elif k == "unreachable":
                raise Unsupported("reached unreachable in " + name)
            elif k == "resume":
                raise Panic("resume")
            else:
                raise Unsupported("terminator " + k)

    def dispatch(self, callee, args):
        for pat, fnm in self.models:
            if pat.search(callee):
                return fnm(self, callee, args)
        m = re.match(r"^<([A-Z]) as (.+)>::(\w+)$", callee)
        if m and args:
            # call on a generic type parameter: dispatch on the run-time value's type
            v = args[0]
            while hasattr(v, "get"):
                v = v.get()
            if isinstance(v, Agg) and v.name:
                callee = f"<{'fnptr' if v.kind == 'fnptr' else v.name} as {m.group(2)}>::{m.group(3)}"
                for pat, fnm in self.models:
                    if pat.search(callee):
                        return fnm(self, callee, args)
        target = self.prog.resolve(callee)
        if target is None:
            raise Unsupported("no model and no MIR body for call: " + callee[:160])
        return self.call(target, args)

    def call_closure(self, clo, extra):
        while not isinstance(clo, Agg) and hasattr(clo, "get"):
            clo = clo.get()
        if isinstance(clo, Agg) and clo.kind == "fnptr":
            return self.dispatch(clo.name, list(extra))
        name = self.prog.closures.get(clo.name)
        if name is None:
            raise Unsupported("closure body not found: " + clo.name)
        fn = self.prog.func(name)
        first = fn.params[0][1] if fn.params else ""
        recv = ValRef(clo) if first.startswith("&") else clo          # Fn/FnMut bodies take the closure by reference
        return self.call(name, [recv] + list(extra))


def explore(interp, entry, make_args, max_paths=400):
    """Run entry on all feasible paths. make_args(interp) builds fresh args each run.
    Yields dicts: outcome ('return'|'panic'|'unsupported'), value/msg, pc (list), side (list), calls."""
    work = [[]]
    n = 0
    while work:
        dec = work.pop()
        n += 1
        if n > max_paths:
            yield {"outcome": "unsupported", "msg": "path limit", "pc": [], "side": [], "calls": set()}
            return
        interp.reset(dec)
        out = None
        try:
            args = make_args(interp)
            v = interp.call(entry, args)
            out = {"outcome": "return", "value": v}
        except Panic as p:
            out = {"outcome": "panic", "msg": p.msg}
        except Infeasible:
            out = None
        except Unsupported as u:
            out = {"outcome": "unsupported", "msg": str(u)}
        except (AttributeError, IndexError, KeyError, TypeError) as e:
            # a value whose shape the interpreter / a std model / a stub does not cover (e.g. a field of a stubbed foreign
            # struct that the stub does not carry): this path is outside the modelled fragment, not a verdict
            import traceback
            tb = traceback.extract_tb(e.__traceback__)
            where = "; ".join(f"{os.path.basename(f.filename)}:{f.lineno} {f.name}" for f in tb[-2:])
            out = {"outcome": "unsupported", "msg": f"value shape outside the models ({type(e).__name__}: {str(e)[:80]} at {where})"}
        for pnd in interp.pending:
            work.append(pnd)
        if out is not None:
            out.update(pc=list(interp.pc), side=list(interp.side), calls=set(interp.calls), decisions=list(interp.decisions))
            yield out
