"""Parser for rustc `-Zunpretty=mir` text: functions, locals, basic blocks, statements, terminators.

Only the constructs occurring in the falcon functions that Engine B executes are supported;
anything else raises Unsupported with the offending text (the run is then *undecided*)."""
import re


class Unsupported(Exception):
    pass


class Func:
    def __init__(self, name, params, ret):
        self.name = name
        self.params = params      # [(local, type)]
        self.ret = ret
        self.locals = {}          # "_N" -> type string
        self.blocks = {}          # "bbN" -> Block
        self.text_hash = None


class Block:
    def __init__(self, name, cleanup):
        self.name = name
        self.cleanup = cleanup
        self.stmts = []           # (place_ast, rvalue_ast)
        self.term = None


def split_top(s, sep=","):
    """Split on sep at nesting depth 0 (parentheses, brackets, braces, angle brackets, strings)."""
    out = []; depth = 0; cur = ""; i = 0; instr = False
    while i < len(s):
        c = s[i]
        if instr:
            cur += c
            if c == "\\" and i + 1 < len(s):
                cur += s[i + 1]; i += 1
            elif c == '"':
                instr = False
        elif c == '"':
            instr = True; cur += c
        elif c in "([{":
            depth += 1; cur += c
        elif c in ")]}":
            depth -= 1; cur += c
        elif c == "<":
            # generic bracket unless it is a comparison (never at this level in MIR text)
            depth += 1; cur += c
        elif c == ">" and not (i > 0 and s[i - 1] in "-="):
            depth -= 1; cur += c
        elif c == sep and depth == 0:
            out.append(cur.strip()); cur = ""
        else:
            cur += c
        i += 1
    if cur.strip():
        out.append(cur.strip())
    return out


def find_matching(s, start, open_c="(", close_c=")"):
    depth = 0; i = start; instr = False
    while i < len(s):
        c = s[i]
        if instr:
            if c == "\\": i += 1
            elif c == '"': instr = False
        elif c == '"': instr = True
        elif c == open_c: depth += 1
        elif c == close_c:
            depth -= 1
            if depth == 0:
                return i
        i += 1
    raise Unsupported("unbalanced: " + s)


# ---- places --------------------------------------------------------------

def parse_place(s):
    """-> ("local", "_N") | ("deref", p) | ("field", p, idx, type) | ("downcast", p, variant) | ("index", p, local)"""
    s = s.strip()
    if re.fullmatch(r"_\d+", s):
        return ("local", s)
    if s.startswith("(*") and s.endswith(")") and find_matching(s, 0) == len(s) - 1:
        return ("deref", parse_place(s[2:-1]))
    if s.startswith("(") and s.endswith(")") and find_matching(s, 0) == len(s) - 1:
        inner = s[1:-1]
        m = re.match(r"(.*) as (\w+)$", inner)
        # field access: (PLACE.N: TYPE)
        # find the last ": " at depth 0
        depth = 0; pos = -1
        for i, c in enumerate(inner):
            if c in "([{<": depth += 1
            elif c in ")]}" or (c == ">" and inner[i - 1] not in "-="): depth -= 1
            elif c == ":" and depth == 0 and inner[i:i + 2] == ": " and (i == 0 or inner[i - 1] != ":") and inner[i + 1:i + 2] != ":":
                pos = i; break
        if pos >= 0:
            left, ty = inner[:pos], inner[pos + 2:]
            k = left.rfind(".")
            return ("field", parse_place(left[:k]), int(left[k + 1:]), ty)
        if m:
            return ("downcast", parse_place(m.group(1)), m.group(2))
        return parse_place(inner)
    m = re.match(r"(.*)\[(_\d+)\]$", s)
    if m:
        return ("index", parse_place(m.group(1)), m.group(2))
    raise Unsupported("place: " + s)


# ---- operands / rvalues -----------------------------------------------------

def parse_operand(s):
    s = s.strip()
    if s.startswith("copy "):
        return ("copy", parse_place(s[5:]))
    if s.startswith("move "):
        return ("move", parse_place(s[5:]))
    if s.startswith("no_retag copy "):
        return ("copy", parse_place(s[14:]))
    if s.startswith("const "):
        return ("const", s[6:].strip())
    if "::" in s and re.fullmatch(r"[\w:<>, &'\[\]\(\){}@./\-]+", s) and not s.endswith(")"):
        return ("fnitem", s)                           # a function item passed as a value (e.g. `.map(Foo::bar)`)
    raise Unsupported("operand: " + s)


BINOPS = {"Add", "Sub", "Mul", "Div", "Rem", "BitAnd", "BitOr", "BitXor", "Shl", "Shr", "Eq", "Ne", "Lt", "Le", "Gt", "Ge",
          "AddWithOverflow", "SubWithOverflow", "MulWithOverflow", "AddUnchecked", "SubUnchecked", "MulUnchecked", "ShlUnchecked", "ShrUnchecked", "Cmp", "Offset"}
UNOPS = {"Not", "Neg", "PtrMetadata"}


def parse_rvalue(s):
    s = s.strip()
    m = re.match(r"(?:const )?(.+?) as (?:for<[^>]*> )?(?:unsafe )?(?:extern \"\w+\" )?fn\(.*\(PointerCoercion\(ReifyFnPointer\(\w+\), \w+\)\)$", s)
    if m and not s.startswith(("copy ", "move ")):
        return ("fnptr", m.group(1).strip())          # a function item coerced to a function pointer
    if s.startswith(("copy ", "move ", "const ", "no_retag copy ")):
        m = re.match(r"(.*) as (.+?) \((\w+(?:\([^)]*\))?)\)$", s)
        if m and " as " in s and not s.startswith("const \""):
            return ("cast", parse_operand(m.group(1)), m.group(2), m.group(3))
        return ("use", parse_operand(s))
    if s.startswith("&mut "):
        return ("ref", parse_place(s[5:]), True)
    if s.startswith("&raw "):
        raise Unsupported("raw pointer: " + s)
    if s.startswith("&"):
        return ("ref", parse_place(s[1:].replace("fake shallow ", "").replace("fake ", "")), False)
    m = re.match(r"(\w+)\((.*)\)$", s)
    if m and m.group(1) in BINOPS:
        a, b = split_top(m.group(2))
        return ("binop", m.group(1), parse_operand(a), parse_operand(b))
    if m and m.group(1) in UNOPS:
        return ("unop", m.group(1), parse_operand(m.group(2)))
    if m and m.group(1) == "discriminant":
        return ("discriminant", parse_place(m.group(2)))
    if m and m.group(1) == "Len":
        return ("len", parse_place(m.group(2)))
    if s.startswith("(") and s.endswith(")") and find_matching(s, 0) == len(s) - 1:
        return ("tuple", [parse_operand(x) for x in split_top(s[1:-1])])
    if s.startswith("[") and s.endswith("]"):
        inner = s[1:-1]
        if ";" in inner and len(split_top(inner, ";")) == 2:
            a, n = split_top(inner, ";")
            return ("repeat", parse_operand(a), n)
        return ("array", [parse_operand(x) for x in split_top(inner)])
    if s.startswith("{closure@") or s.startswith("{coroutine@"):
        k = find_matching(s, 0, "{", "}")
        cname = s[:k + 1]
        rest = s[k + 1:].strip()
        fields = []
        if rest.startswith("{") and rest.endswith("}"):
            for f in split_top(rest[1:-1]):
                if not f: continue
                nm, val = f.split(":", 1)
                fields.append((nm.strip(), parse_operand(val)))
        return ("closure", cname, fields)
    # aggregate: Path::Variant(ops) | Path { f: op, .. } | Path::Variant
    if s.endswith("}") and "{" in s:
        k = s.index(" {") if " {" in s else s.index("{")
        name = s[:k].strip()
        body = s[k:].strip()[1:-1]
        fields = []
        for f in split_top(body):
            if not f: continue
            nm, val = f.split(":", 1)
            fields.append((nm.strip(), parse_operand(val)))
        return ("struct", name, fields)
    if s.endswith(")"):
        # Name(args)
        depth = 0
        for i in range(len(s) - 1, -1, -1):
            c = s[i]
            if c == ")": depth += 1
            elif c == "(":
                depth -= 1
                if depth == 0:
                    name = s[:i]; args = s[i + 1:-1]
                    return ("variant", name.strip(), [parse_operand(x) for x in split_top(args)])
    if re.fullmatch(r"[\w:<>, &'\[\]\(\)]+", s):
        return ("variant", s, [])
    raise Unsupported("rvalue: " + s)


# ---- terminators ------------------------------------------------------------

def parse_targets(s):
    """'[return: bb1, unwind: bb2]' or '[0: bb1, otherwise: bb2]' or 'bbN' -> dict"""
    s = s.strip()
    if s.startswith("["):
        d = {}
        for part in split_top(s[1:-1]):
            if ":" not in part:
                d["unwind"] = part.replace("unwind", "").strip()
                continue
            k, v = part.split(":", 1)
            d[k.strip()] = v.strip()
        return d
    if s.startswith("unwind"):
        return {"unwind": s[6:].strip()}     # diverging call
    return {"return": s}


def parse_terminator(s):
    s = s.strip()
    if s.startswith("goto -> "):
        return ("goto", s[8:].strip())
    if s == "return": return ("return",)
    if s == "resume" or s.startswith("unwind"): return ("resume",)
    if s == "unreachable": return ("unreachable",)
    if s.startswith("switchInt("):
        k = find_matching(s, s.index("("))
        op = parse_operand(s[10:k])
        t = parse_targets(s[k + 1:].strip()[2:].strip())
        return ("switch", op, t)
    if s.startswith("drop("):
        k = find_matching(s, 4)
        t = parse_targets(s[k + 1:].strip()[2:].strip())
        return ("drop", parse_place(s[5:k]), t)
    if s.startswith("assert("):
        k = find_matching(s, 6)
        parts = split_top(s[7:k])
        cond = parts[0]
        neg = cond.startswith("!")
        t = parse_targets(s[k + 1:].strip()[2:].strip())
        return ("assert", parse_operand(cond[1:] if neg else cond), neg, parts[1] if len(parts) > 1 else "", t)
    # call: PLACE = FUNC(ARGS) -> [targets]
    m = re.match(r"(.*?) = (.*)$", s)
    if m and "->" in s:
        dest = m.group(1)
        rest = m.group(2)
        arrow = rest.rfind(" -> ")
        callee = rest[:arrow].strip()
        t = parse_targets(rest[arrow + 4:])
        # split callee into function and args: last top-level parenthesised group
        depth = 0
        for i in range(len(callee) - 1, -1, -1):
            c = callee[i]
            if c == ")": depth += 1
            elif c == "(":
                depth -= 1
                if depth == 0:
                    fn = callee[:i].strip(); args = callee[i + 1:-1]
                    return ("call", parse_place(dest), fn, [parse_operand(x) for x in split_top(args)], t)
    raise Unsupported("terminator: " + s)


# ---- file ---------------------------------------------------------------------

HEADER = re.compile(r"^fn (.+?)\((.*)\) -> (.+) \{$")


def parse_file(path, wanted=None):
    """Parse all functions whose name satisfies wanted(name) (default: all). Bodies are parsed lazily."""
    funcs = {}
    with open(path) as f:
        lines = f.read().split("\n")
    i = 0
    n = len(lines)
    while i < n:
        ln = lines[i]
        if ln.startswith("const ") and ln.endswith("= {") and "::promoted[" in ln:
            j = i + 1
            while j < n and lines[j] != "}":
                j += 1
            mm = re.match(r"^const (.+?::promoted\[\d+\]): (.+) = \{$", ln)
            if mm:
                funcs.setdefault("const " + mm.group(1), []).append(("const " + mm.group(1), "", mm.group(2), lines[i + 1:j]))
            i = j + 1
            continue
        if ln.startswith("const ") and ln.endswith("= {"):
            # associated / module constants with a body (e.g. the bitflags constants)
            j = i + 1
            while j < n and lines[j] != "}":
                j += 1
            mm = re.match(r"^const (.+): (.+) = \{$", ln)
            if mm and (wanted is None or wanted("const " + mm.group(1))):
                funcs.setdefault("const " + mm.group(1), []).append(("const " + mm.group(1), "", mm.group(2), lines[i + 1:j]))
            i = j + 1
            continue
        if ln.startswith("fn ") and ln.endswith("{"):
            j = i + 1
            while j < n and lines[j] != "}":
                j += 1
            hdr = ln
            m = HEADER.match(hdr)
            if not m:
                # header without '-> ret' (unit)
                m2 = re.match(r"^fn (.+?)\((.*)\) \{$", hdr)
                if m2:
                    name, params, ret = m2.group(1), m2.group(2), "()"
                else:
                    i = j + 1; continue
            else:
                name, params, ret = m.group(1), m.group(2), m.group(3)
            if wanted is None or wanted(name):
                funcs.setdefault(name, []).append((name, params, ret, lines[i + 1:j]))
            i = j + 1
        else:
            i += 1
    return funcs


def build(entry):
    name, params, ret, body = entry
    ps = []
    for p in split_top(params):
        if not p: continue
        k = p.index(":")
        ps.append((p[:k].strip(), p[k + 1:].strip()))
    fn = Func(name, ps, ret)
    import hashlib
    fn.text_hash = hashlib.sha1("\n".join(body).encode()).hexdigest()[:12]
    for l, t in ps:
        fn.locals[l] = t
    cur = None
    pending = ""
    for raw in body:
        ln = raw.strip()
        if not ln or ln.startswith("//") or ln.startswith("debug ") or ln.startswith("scope ") or ln == "}":
            if ln == "}" and cur is not None and raw.startswith("    }"):
                cur = None
            continue
        m = re.match(r"let (mut )?(_\d+): (.+);$", ln)
        if m and cur is None:
            fn.locals[m.group(2)] = m.group(3)
            continue
        m = re.match(r"(bb\d+)( \(cleanup\))?: \{$", ln)
        if m:
            cur = Block(m.group(1), bool(m.group(2)))
            fn.blocks[cur.name] = cur
            continue
        if cur is None:
            continue
        pending += (" " if pending else "") + ln
        if not pending.endswith(";"):
            continue
        stmt = pending[:-1]; pending = ""
        if cur.cleanup:
            continue
        if stmt.startswith(("StorageLive", "StorageDead", "nop", "FakeRead", "PlaceMention", "AscribeUserType", "Retag", "Coverage", "ConstEvalCounter", "Deinit")):
            continue
        if stmt.startswith("set_discriminant") or stmt.startswith("discriminant("):
            raise Unsupported(stmt)
        is_term = stmt.startswith(("goto ", "switchInt", "return", "resume", "unreachable", "drop(", "assert(", "unwind")) or (" -> [" in stmt or re.search(r"\) -> bb\d+$", stmt) is not None or re.search(r"\) -> unwind [\w()]+$", stmt) is not None)
        if is_term:
            cur.term = parse_terminator(stmt)
        else:
            k = stmt.index(" = ")
            cur.stmts.append((parse_place(stmt[:k]), parse_rvalue(stmt[k + 3:])))
    return fn
