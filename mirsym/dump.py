"""MIR dump of /repo's current working tree (nightly -Zunpretty=mir), in a scratch copy outside
/repo and /verif that is removed afterwards.  The dump is a pure function of the sources, so it is
cached under /verif/target/mircache keyed by a hash of lib/**/*.rs, Cargo.toml and Cargo.lock."""
import hashlib, os, shutil, subprocess, sys, tempfile, time, glob

VERIF = os.path.dirname(os.path.dirname(os.path.abspath(__file__)))
CACHE = os.path.join(VERIF, "target", "mircache")


def source_hash(repo="/repo"):
    h = hashlib.sha1()
    files = sorted(glob.glob(os.path.join(repo, "lib", "**", "*.rs"), recursive=True)) + [os.path.join(repo, "Cargo.toml"), os.path.join(repo, "Cargo.lock")]
    for f in files:
        h.update(f.encode()); h.update(open(f, "rb").read())
    return h.hexdigest()[:16]


def mir_path(repo="/repo", verbose=True):
    os.makedirs(CACHE, exist_ok=True)
    hs = source_hash(repo)
    out = os.path.join(CACHE, hs + ".mir")
    if os.path.exists(out) and os.path.getsize(out) > 1000000:
        return out, 0.0
    t0 = time.time()
    # one dump at a time: checks that start together wait for the first one's dump instead of racing on the cache file
    import fcntl
    lock = open(os.path.join(CACHE, hs + ".lock"), "w")
    fcntl.flock(lock, fcntl.LOCK_EX)
    if os.path.exists(out) and os.path.getsize(out) > 1000000:
        lock.close()
        return out, time.time() - t0
    scratch = tempfile.mkdtemp(prefix="falcon_mir_")
    tmp = out + f".{os.getpid()}.tmp"
    try:
        dst = os.path.join(scratch, "repo")
        shutil.copytree(repo, dst, ignore=shutil.ignore_patterns("target", ".git"))
        env = dict(os.environ, CARGO_NET_OFFLINE="true", CARGO_TARGET_DIR=os.path.join(scratch, "target"))
        env.pop("RUSTFLAGS", None)
        with open(tmp, "w") as f:
            p = subprocess.run(["cargo", "+nightly", "rustc", "--offline", "--lib", "--", "-Zunpretty=mir", "-C", "debug-assertions=off", "-C", "overflow-checks=on"],
                               cwd=dst, env=env, stdout=f, stderr=subprocess.PIPE, text=True)
        if p.returncode != 0:
            sys.stderr.write(p.stderr[-3000:])
            raise SystemExit("BUILD-FAILED: MIR dump of /repo failed (exit 3)")
        os.replace(tmp, out)
        # keep the cache small
        olds = sorted(glob.glob(os.path.join(CACHE, "*.mir")), key=os.path.getmtime)
        for o in olds[:-3]:
            os.remove(o)
        for o in glob.glob(os.path.join(CACHE, "*.lock")):
            if not o.endswith(hs + ".lock"):
                try: os.remove(o)
                except OSError: pass
    finally:
        shutil.rmtree(scratch, ignore_errors=True)
        if os.path.exists(tmp):
            os.remove(tmp)
        lock.close()
    dt = time.time() - t0
    if verbose:
        print(f"[mir] dumped MIR of /repo in {dt:.0f}s ({os.path.getsize(out) // 1000} kB)", flush=True)
    return out, dt
