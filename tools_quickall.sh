#!/bin/bash
# run every quick command once, sequentially (development aid, not a registered command)
cd /verif
mkdir -p /tmp/quickall
: > /tmp/quickall/summary.txt
for id in C01 C02 C03 C04 C05 C06 C07 C08 C09 C10 C11 C12 C13 C14 C15 C16 C17 C18 C19 C20; do
  lc=$(echo $id | tr 'A-Z' 'a-z')
  s=$(date +%s)
  timeout 3600 python3-vt checks/$lc.py quick > /tmp/quickall/$id.log 2>&1
  rc=$?
  e=$(date +%s)
  echo "$id rc=$rc secs=$((e-s)) $(grep '^\[C' /tmp/quickall/$id.log | tail -1)" >> /tmp/quickall/summary.txt
done
