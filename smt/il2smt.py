"""IL -> z3: expressions, operations, guarded-merge bounded executor over CFGs."""
import z3
from . import ilsem


class SortError(Exception):
    """The IL is ill-sorted at a place the executor would report Error::Sort."""


# ---------------------------------------------------------------- widths --

def bits(e):
    t = e[0]
    if t == "scalar": return e[2]
    if t == "const": return e[2]
    if t in ilsem.CMPS: return 1
    if t in ilsem.EXTS: return e[1]
    if t == "ite": return bits(e[2])
    return bits(e[1])


def sort_errors(e, path="e"):
    """Recursive width rules (what Expression's constructors enforce). Returns list of strings."""
    t = e[0]
    out = []
    if t in ("scalar", "const"):
        if e[2] == 0:
            out.append(f"{path}: zero-width terminal")
        return out
    if t in ilsem.EXTS:
        out += sort_errors(e[2], path + "." + t)
        sb = bits(e[2])
        if t == "trun" and not (sb > e[1] and e[1] > 0):
            out.append(f"{path}: trun {sb}->{e[1]}")
        if t in ("zext", "sext") and not (sb < e[1] and sb > 0):
            out.append(f"{path}: {t} {sb}->{e[1]}")
        return out
    if t == "ite":
        for i in (1, 2, 3):
            out += sort_errors(e[i], f"{path}.ite{i}")
        if bits(e[1]) != 1:
            out.append(f"{path}: ite condition width {bits(e[1])}")
        if bits(e[2]) != bits(e[3]):
            out.append(f"{path}: ite arms {bits(e[2])} vs {bits(e[3])}")
        return out
    out += sort_errors(e[1], path + "." + t + "L")
    out += sort_errors(e[2], path + "." + t + "R")
    if bits(e[1]) != bits(e[2]):
        out.append(f"{path}: {t} operands {bits(e[1])} vs {bits(e[2])}")
    return out


def scalars_of(e, acc=None):
    if acc is None:
        acc = []
    t = e[0]
    if t == "scalar":
        acc.append(e)
    elif t == "const":
        pass
    elif t in ilsem.EXTS:
        scalars_of(e[2], acc)
    else:
        for x in e[1:]:
            scalars_of(x, acc)
    return acc


def key_of(s, ssa=False):
    """State key of a scalar: by name (as executor::State does) or name.version."""
    if ssa and s[3] is not None:
        return f"{s[1]}.{s[3]}"
    return s[1]


# ----------------------------------------------------------------- state --

class Ctx:
    """Shared per-run context: input variables created on demand, fault list."""

    def __init__(self, endian="little", ssa=False, prefix="", strict_c04=True):
        self.inputs = {}      # key -> z3 BV (pre-state value of a scalar)
        self.endian = endian
        self.ssa = ssa
        self.prefix = prefix
        self.mem0 = z3.Array(prefix + "mem", z3.BitVecSort(64), z3.BitVecSort(8))
        self.faults = []      # (kind, z3 Bool) - already includes the path guard
        self.c04_assumptions = []  # conditions assumed away (ashr amount <= width, ...)
        self.fresh = 0

    def input(self, key, w):
        v = self.inputs.get(key)
        if v is None:
            v = z3.BitVec(self.prefix + key, w)
            self.inputs[key] = v
        if v.size() != w:
            raise SortError(f"scalar {key} used at width {w} and {v.size()}")
        return v

    def fresh_bv(self, name, w):
        self.fresh += 1
        return z3.BitVec(f"{self.prefix}{name}!{self.fresh}", w)


class St:
    __slots__ = ("sc", "mem", "ghost")

    def __init__(self, sc=None, mem=None, ghost=None):
        self.sc = sc if sc is not None else {}
        self.mem = mem
        self.ghost = ghost if ghost is not None else {}

    def copy(self):
        return St(dict(self.sc), self.mem, dict(self.ghost))


def initial_state(ctx):
    return St({}, ctx.mem0, {})


def get_scalar(ctx, st, s):
    k = key_of(s, ctx.ssa)
    v = st.sc.get(k)
    if v is None:
        v = ctx.input(k, s[2])
    if v.size() != s[2]:
        raise SortError(f"scalar {k} read at width {s[2]} but holds {v.size()} bits")
    return v


def merge_states(ctx, parts):
    """parts: list of (guard, St). Result: St with ite-merged components (last is default)."""
    if len(parts) == 1:
        return parts[0][1]
    keys = []
    seen = set()
    for _, s in parts:
        for k in s.sc:
            if k not in seen:
                seen.add(k); keys.append(k)
    out = St()
    for k in keys:
        vals = []
        w = None
        for g, s in parts:
            v = s.sc.get(k)
            if v is not None:
                w = v.size()
        for g, s in parts:
            v = s.sc.get(k)
            if v is None:
                v = ctx.input(k, w)
            elif v.size() != w:
                raise SortError(f"scalar {k} has widths {v.size()} and {w} on joining paths")
            vals.append((g, v))
        acc = vals[-1][1]
        for g, v in reversed(vals[:-1]):
            acc = v if acc is v else z3.If(g, v, acc)
        out.sc[k] = acc
    acc = parts[-1][1].mem
    for g, s in reversed(parts[:-1]):
        acc = s.mem if acc is s.mem else z3.If(g, s.mem, acc)
    out.mem = acc
    gkeys = []
    seen = set()
    for _, s in parts:
        for k in s.ghost:
            if k not in seen:
                seen.add(k); gkeys.append(k)
    for k in gkeys:
        default = None
        for g, s in parts:
            if k in s.ghost:
                default = s.ghost[k]
        acc = None
        for g, s in reversed(parts):
            v = s.ghost.get(k, default)
            if acc is None:
                acc = v
            else:
                acc = v if acc is v else z3.If(g, v, acc)
        out.ghost[k] = acc
    return out


# ----------------------------------------------------------- expressions --

def ev(ctx, st, e, g=True):
    """Evaluate expression to a z3 BV under path guard g (faults are recorded with g)."""
    t = e[0]
    if t == "scalar":
        return get_scalar(ctx, st, e)
    if t == "const":
        return z3.BitVecVal(int(e[1]), e[2])
    if t in ilsem.EXTS:
        a = ev(ctx, st, e[2], g)
        n = e[1]
        w = a.size()
        if t == "trun":
            if not (0 < n < w):
                raise SortError(f"trun {w}->{n}")
        else:
            if not (n > w):
                raise SortError(f"{t} {w}->{n}")
            if t == "sext" and n % 8 != 0:
                raise SortError(f"sext to {n} bits (Constant::sext rejects non-multiples of 8)")
        return ilsem.z3_ext(t, n, a)
    if t == "ite":
        c = ev(ctx, st, e[1], g)
        if c.size() != 1:
            raise SortError("ite condition width")
        # falcon's eval evaluates only the chosen arm: faults inside an arm are conditional
        gc = z3.And(g, c == 1) if g is not True else (c == 1)
        gn = z3.And(g, c != 1) if g is not True else (c != 1)
        a = ev(ctx, st, e[2], gc)
        b = ev(ctx, st, e[3], gn)
        if a.size() != b.size():
            raise SortError("ite arms width")
        return z3.If(c == 1, a, b)
    a = ev(ctx, st, e[1], g)
    b = ev(ctx, st, e[2], g)
    if a.size() != b.size():
        raise SortError(f"{t} operands {a.size()} vs {b.size()}")
    if t in ilsem.DIVS:
        ctx.faults.append(("divzero", z3.And(g, b == 0) if g is not True else (b == 0)))
    if t == "ashr":
        w = a.size()
        # C04 deviation: Constant::ashr panics when amount > width; assumed away here
        if not (z3.is_bv_value(b) and b.as_long() <= w):
            if not z3.is_bv_value(b):
                cond = z3.ULE(b, w) if w.bit_length() <= b.size() else z3.BoolVal(True)
                ctx.c04_assumptions.append(z3.Implies(g, cond) if g is not True else cond)
            else:
                ctx.c04_assumptions.append(z3.BoolVal(False))
    return ilsem.z3_binop(t, a, b)


def addr64(a):
    if a.size() > 64:
        raise SortError("address wider than 64 bits")
    return z3.ZeroExt(64 - a.size(), a) if a.size() < 64 else a


def load_bytes(mem, addr, nbytes, endian):
    bs = [z3.Select(mem, addr + i) for i in range(nbytes)]
    if endian == "little":
        bs = list(reversed(bs))
    return bs[0] if nbytes == 1 else z3.Concat(*bs)


def store_bytes(mem, addr, val, endian):
    n = val.size() // 8
    for i in range(n):
        if endian == "little":
            byte = z3.Extract(8 * i + 7, 8 * i, val)
        else:
            byte = z3.Extract(8 * (n - 1 - i) + 7, 8 * (n - 1 - i), val)
        mem = z3.Store(mem, addr + i, byte)
    return mem


# ------------------------------------------------------------- operations --

class Events:
    """Observable events of a run, each with its guard."""

    def __init__(self):
        self.branches = []     # (guard, target64)
        self.intrinsics = []   # (guard, intrinsic dict, state)
        self.stores = []       # (guard, addr64, value)
        self.loads = []        # (guard, addr64, nbytes)


def exec_op(ctx, st, op, g, events=None):
    """Apply one operation to st (mutating a copy the caller owns). Returns
    'fall' | 'branch' | 'intrinsic'."""
    t = op[0]
    if t == "assign":
        v = ev(ctx, st, op[2], g)
        if v.size() != op[1][2]:
            raise SortError(f"assign {op[1][1]}:{op[1][2]} = {v.size()}-bit value")
        st.sc[key_of(op[1], ctx.ssa)] = v
        return "fall"
    if t == "store":
        v = ev(ctx, st, op[2], g)
        a = addr64(ev(ctx, st, op[1], g))
        if v.size() % 8 != 0:
            raise SortError(f"store of {v.size()} bits")
        st.mem = store_bytes(st.mem, a, v, ctx.endian)
        if events is not None:
            events.stores.append((g, a, v))
        return "fall"
    if t == "load":
        a = addr64(ev(ctx, st, op[2], g))
        w = op[1][2]
        if w % 8 != 0:
            raise SortError(f"load of {w} bits")
        st.sc[key_of(op[1], ctx.ssa)] = load_bytes(st.mem, a, w // 8, ctx.endian)
        if events is not None:
            events.loads.append((g, a, w // 8))
        return "fall"
    if t == "branch":
        a = addr64(ev(ctx, st, op[1], g))
        if events is not None:
            events.branches.append((g, a))
        return "branch"
    if t == "intrinsic":
        if getattr(ctx, "intrinsic_havoc", False) and op[1].get("written") is not None:
            # analysis-level meaning of a declared intrinsic: it writes unknown values to exactly the scalars it declares
            for w_ in op[1]["written"]:
                if w_[0] == "scalar":
                    tag = getattr(ctx, "cur_tag", None)
                    if tag is None:
                        hv = ctx.fresh_bv("havoc_" + w_[1], w_[2])
                    else:
                        nm = f"havoc!{tag[0]}!{tag[1]}!{tag[2]}!{w_[1]}"
                        hv = z3.BitVec(ctx.prefix + nm, w_[2])
                        if not hasattr(ctx, "havocs"): ctx.havocs = {}
                        ctx.havocs[nm] = hv
                    st.sc[key_of(w_, ctx.ssa)] = hv
            return "fall"
        if events is not None:
            events.intrinsics.append((g, op[1], st.copy()))
        return "intrinsic"
    if t == "nop":
        return "fall"
    raise KeyError(t)


# ---------------------------------------------------------------- graphs --

class Graph:
    def __init__(self, cfg):
        self.cfg = cfg
        self.blocks = {b["index"]: b for b in cfg["blocks"]}
        self.out = {i: [] for i in self.blocks}
        self.inn = {i: [] for i in self.blocks}
        for e in cfg["edges"]:
            self.out.setdefault(e["head"], []).append(e)
            self.inn.setdefault(e["tail"], []).append(e)
        self.entry = cfg.get("entry")
        self.exit = cfg.get("exit")


def _and(a, b):
    if a is True: return b
    if b is True: return a
    return z3.And(a, b)


def simp_guard(g):
    if g is True:
        return True
    s = z3.simplify(g)
    if z3.is_true(s):
        return True
    return s


class Run:
    """Result of a bounded run of one graph."""

    def __init__(self):
        self.finals = []       # (guard, St): paths that completed the exit block / had no successor
        self.stuck = []        # guards of paths where no outgoing edge was enabled is not tracked here
        self.events = Events()
        self.frontier = {}     # block -> (guard, St) still pending after k steps
        self.steps = 0


def run_graph(ctx, cfg, st0, k, g0=True, hooks=None, stop_at_exit=True):
    """Guarded-merge bounded execution from cfg.entry.

    Each step executes one block for every (guard, state) in the frontier.  A path ends
    (-> finals) when it completes the exit block (stop_at_exit) or a block with no out
    edges, or at a branch/intrinsic operation.  hooks: optional object with
    on_block(block_index, guard, st), on_instr(block_index, instr, guard, st) (before),
    after_instr(...), on_edge(edge, guard, st).
    """
    G = Graph(cfg)
    run = Run()
    if G.entry is None:
        return run
    frontier = {G.entry: [(g0, st0)]}
    for step in range(k):
        if not frontier:
            break
        run.steps = step + 1
        new = {}
        for b, parts in frontier.items():
            g = True if any(p[0] is True for p in parts) else simp_guard(z3.Or(*[p[0] for p in parts]))
            if g is not True and z3.is_false(g):
                continue
            st = merge_states(ctx, parts).copy()
            blk = G.blocks[b]
            if hooks and hasattr(hooks, "on_block"):
                hooks.on_block(blk, g, st)
            ended = False
            for ins in blk["instructions"]:
                if hooks and hasattr(hooks, "on_instr"):
                    hooks.on_instr(blk, ins, g, st)
                r = exec_op(ctx, st, ins["op"], g, run.events)
                if hooks and hasattr(hooks, "after_instr"):
                    hooks.after_instr(blk, ins, g, st)
                if r != "fall":
                    run.finals.append((g, st, (r, b, ins["index"])))
                    ended = True
                    break
            if ended:
                continue
            outs = G.out.get(b, [])
            if (stop_at_exit and b == G.exit) or not outs:
                run.finals.append((g, st, ("end", b, None)))
                continue
            enabled = []
            for e in outs:
                if e["cond"] is None:
                    c = True
                else:
                    cv = ev(ctx, st, e["cond"], g)
                    if cv.size() != 1:
                        raise SortError(f"edge guard of {cv.size()} bits")
                    c = (cv == 1)
                ge = simp_guard(_and(g, c))
                enabled.append(c)
                if ge is not True and z3.is_false(ge):
                    continue
                if hooks and hasattr(hooks, "on_edge"):
                    hooks.on_edge(e, ge, st)
                new.setdefault(e["tail"], []).append((ge, st))
            # executor semantics: with >1 successor and no guard true -> ExecutorNoValidLocation
            if len(outs) > 1 or outs[0]["cond"] is not None:
                if len(outs) == 1:
                    pass  # Driver::step takes a single successor without evaluating its guard
                else:
                    none = z3.Not(z3.Or(*[c if c is not True else z3.BoolVal(True) for c in enabled]))
                    ctx.faults.append(("noedge", _and(g, none)))
        frontier = new
    run.frontier = frontier
    return run


def final_merge(ctx, run):
    """Merged final state and the disjunction of final guards."""
    if not run.finals:
        return None, z3.BoolVal(False)
    parts = [(g if g is not True else z3.BoolVal(True), s) for g, s, _ in run.finals]
    guards = [p[0] for p in parts]
    return merge_states(ctx, parts), (z3.BoolVal(True) if any(z3.is_true(x) for x in guards) else z3.Or(*guards))


def pending_guard(run):
    gs = []
    for b, parts in run.frontier.items():
        for g, _ in parts:
            gs.append(z3.BoolVal(True) if g is True else g)
    return z3.Or(*gs) if gs else z3.BoolVal(False)
