"""Function-level bounded model checking of IL programs: lock-step, guarded-merge execution of
one or two "lanes" (e.g. a function and its transformed version) over the same CFG shape,
with hooks that add ghost state and collect obligations."""
import z3
from . import il2smt
from .il2smt import Graph, St, merge_states, exec_op, ev, simp_guard, _and, SortError, Events, key_of


class Lane:
    def __init__(self, cfg, ctx, phi=False):
        self.G = Graph(cfg)
        self.ctx = ctx
        self.phi = phi
        self.events = Events()


class Hooks:
    def block_entry(self, b, g, sts): pass
    def before(self, b, pos, ins, g, sts): pass
    def after(self, b, pos, ins, g, sts, kinds): pass
    def path_end(self, b, pos, ins, g, sts, kinds): pass
    def terminal(self, b, g, sts): pass
    def edge(self, e, g, sts, conds): pass
    def edge_taken(self, e, ge, sts): pass
    def empty_block(self, b, g, sts): pass


def apply_phis(lane, blk, pred, st):
    """Phi nodes of blk select by incoming block index `pred`."""
    vals = []
    for p in blk.get("phis", []):
        src = None
        for bi, s in p["incoming"]:
            if bi == pred:
                src = s
        if src is None:
            raise SortError(f"phi in block {blk['index']} has no incoming for predecessor {pred}")
        vals.append((key_of(p["out"], True), il2smt.get_scalar(lane.ctx, st, src)))
    for k, v in vals:
        st.sc[k] = v


def apply_entry_phis(lane, blk, st):
    vals = []
    for p in blk.get("phis", []):
        src = p.get("entry")
        if src is None:
            continue
        vals.append((key_of(p["out"], True), il2smt.get_scalar(lane.ctx, st, src)))
    for k, v in vals:
        st.sc[k] = v


def run(lanes, k, hooks, init_states=None):
    """Returns dict(steps=..., frontier_guards=[...]).  All lanes must have the same blocks/edges
    (checked by the caller as a ground obligation)."""
    L0 = lanes[0]
    entry = L0.G.entry
    if entry is None:
        return {"steps": 0}
    sts0 = init_states or [il2smt.initial_state(l.ctx) for l in lanes]
    for l, s in zip(lanes, sts0):
        if l.phi:
            apply_entry_phis(l, l.G.blocks[entry], s)
    frontier = {entry: [(True, sts0)]}
    steps = 0
    for step in range(k):
        if not frontier:
            break
        steps = step + 1
        new = {}
        for b, parts in frontier.items():
            if any(p[0] is True for p in parts):
                g = True
            else:
                g = simp_guard(z3.Or(*[p[0] for p in parts]))
                if z3.is_false(g):
                    continue
            sts = [merge_states(lanes[i].ctx, [(p[0] if p[0] is not True else z3.BoolVal(True), p[1][i]) for p in parts]).copy()
                   for i in range(len(lanes))]
            blks = [l.G.blocks[b] for l in lanes]
            hooks.block_entry(b, g, sts)
            n = len(blks[0]["instructions"])
            if n == 0:
                hooks.empty_block(b, g, sts)
            ended = False
            for pos in range(n):
                ins = [bl["instructions"][pos] for bl in blks]
                hooks.before(b, pos, ins, g, sts)
                for i in range(len(lanes)):
                    lanes[i].ctx.cur_tag = (step, b, ins[i]["index"])          # names the unknown values a declared intrinsic writes
                kinds = [exec_op(lanes[i].ctx, sts[i], ins[i]["op"], g, lanes[i].events) for i in range(len(lanes))]
                hooks.after(b, pos, ins, g, sts, kinds)
                if any(kd != "fall" for kd in kinds):
                    hooks.path_end(b, pos, ins, g, sts, kinds)
                    ended = True
                    break
            if ended:
                continue
            outs = L0.G.out.get(b, [])
            if not outs:
                hooks.terminal(b, g, sts)
                continue
            conds0 = []
            for e in outs:
                conds = []
                for i, l in enumerate(lanes):
                    ei = next(x for x in l.G.out.get(b, []) if x["tail"] == e["tail"])
                    if ei["cond"] is None:
                        conds.append(True)
                    else:
                        cv = ev(l.ctx, sts[i], ei["cond"], g)
                        if cv.size() != 1:
                            raise SortError("edge guard width")
                        conds.append(cv == 1)
                hooks.edge(e, g, sts, conds)
                conds0.append(conds[0])
                ge = simp_guard(_and(g, conds[0]))
                if ge is not True and z3.is_false(ge):
                    continue
                sts2 = [s.copy() for s in sts]
                for i, l in enumerate(lanes):
                    if l.phi:
                        apply_phis(l, l.G.blocks[e["tail"]], b, sts2[i])
                hooks.edge_taken(e, ge, sts2)
                new.setdefault(e["tail"], []).append((ge, sts2))
            if len(outs) > 1:
                none = z3.Not(z3.Or(*[c if c is not True else z3.BoolVal(True) for c in conds0]))
                lanes[0].ctx.faults.append(("noedge", _and(g, none)))
        frontier = new
    return {"steps": steps, "pending": sum(len(v) for v in frontier.values())}


def same_shape(cfga, cfgb):
    """Ground obligations: same blocks, same instruction positions/indices, same edges."""
    errs = []
    ba = {b["index"]: b for b in cfga["blocks"]}
    bb = {b["index"]: b for b in cfgb["blocks"]}
    if set(ba) != set(bb):
        errs.append(f"block sets differ: {sorted(ba)} vs {sorted(bb)}")
        return errs
    for i in ba:
        ia = [x["index"] for x in ba[i]["instructions"]]
        ib = [x["index"] for x in bb[i]["instructions"]]
        if ia != ib:
            errs.append(f"block {i}: instruction indices {ia} vs {ib}")
    ea = sorted((e["head"], e["tail"]) for e in cfga["edges"])
    eb = sorted((e["head"], e["tail"]) for e in cfgb["edges"])
    if ea != eb:
        errs.append(f"edge sets differ: {ea} vs {eb}")
    if cfga.get("entry") != cfgb.get("entry"):
        errs.append("entry differs")
    return errs


def longest_acyclic(cfg):
    """Length (in blocks) of the longest acyclic path from the entry (for choosing k)."""
    G = Graph(cfg)
    best = 0
    stack = [(G.entry, (G.entry,))]
    seen_paths = 0
    while stack and seen_paths < 20000:
        b, path = stack.pop()
        seen_paths += 1
        best = max(best, len(path))
        for e in G.out.get(b, []):
            if e["tail"] not in path:
                stack.append((e["tail"], path + (e["tail"],)))
    return best
