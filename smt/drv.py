"""Client for the fdriver binary (real falcon code, run concretely)."""
import json, os, subprocess, sys, threading, time

VERIF = os.path.dirname(os.path.dirname(os.path.abspath(__file__)))
TARGET = os.path.join(VERIF, "target")
BIN = os.path.join(TARGET, "debug", "fdriver")
_built = False


def build(verbose=True):
    """(Re)build the driver against /repo's current working tree. Incremental."""
    global _built
    if _built or os.environ.get("VERIF_NO_BUILD") == "1":
        return 0.0
    t0 = time.time()
    env = dict(os.environ)
    env["CARGO_NET_OFFLINE"] = "true"
    env["CARGO_TARGET_DIR"] = TARGET
    env.pop("RUSTFLAGS", None)
    lock = os.path.join(VERIF, "driver", "Cargo.lock")
    # keep the lock file in sync with the repository's (no network to resolve anything else)
    p = subprocess.run(
        ["cargo", "build", "--offline", "--manifest-path", os.path.join(VERIF, "driver", "Cargo.toml")],
        env=env, stdout=subprocess.PIPE, stderr=subprocess.STDOUT, text=True)
    if p.returncode != 0:
        sys.stderr.write(p.stdout[-6000:])
        raise SystemExit("BUILD-FAILED: driver did not build against /repo (exit 3)")
    _built = True
    dt = time.time() - t0
    if verbose:
        print(f"[build] fdriver up to date in {dt:.1f}s", flush=True)
    return dt


class Driver:
    def __init__(self):
        build()
        self.p = None
        self.start()

    def start(self):
        self.p = subprocess.Popen([BIN], stdin=subprocess.PIPE, stdout=subprocess.PIPE,
                                  stderr=subprocess.DEVNULL, text=True, bufsize=1)

    def call(self, req):
        """Returns the response dict. If the driver process dies (abort/segfault in C
        code, stack overflow) returns {"died": returncode} and restarts it."""
        try:
            self.p.stdin.write(json.dumps(req) + "\n")
            self.p.stdin.flush()
            line = self.p.stdout.readline()
        except (BrokenPipeError, OSError):
            line = ""
        if not line:
            rc = self.p.poll()
            if rc is None:
                try:
                    rc = self.p.wait(timeout=5)
                except Exception:
                    self.p.kill()
                    rc = -9
            self.start()
            return {"died": rc}
        return json.loads(line)

    def close(self):
        try:
            self.p.stdin.close()
            self.p.wait(timeout=5)
        except Exception:
            self.p.kill()


_tls = threading.local()


def get():
    d = getattr(_tls, "d", None)
    if d is None or getattr(_tls, "pid", None) != os.getpid():
        d = Driver()          # never share a pipe with a forked parent
        _tls.d = d
        _tls.pid = os.getpid()
    return d


def call(req):
    return get().call(req)
