"""Concrete IL evaluator (same ilsem table, python ints). Used to replay solver models."""
from . import ilsem


class Fault(Exception):
    def __init__(self, kind, detail=""):
        super().__init__(f"{kind} {detail}")
        self.kind = kind


class CState:
    def __init__(self, scalars=None, mem_read=None, endian="little", ssa=False):
        self.sc = dict(scalars or {})      # key -> (value, bits)
        self.mem = {}                      # addr -> byte (written or cached)
        self.mem_read = mem_read or (lambda a: None)
        self.endian = endian
        self.ssa = ssa
        self.stores = []                   # (addr, nbytes, value)
        self.trace = []

    def key(self, s):
        return f"{s[1]}.{s[3]}" if (self.ssa and s[3] is not None) else s[1]

    def rd8(self, a):
        a &= (1 << 64) - 1
        if a in self.mem:
            return self.mem[a]
        v = self.mem_read(a)
        if v is None:
            raise Fault("unmapped", hex(a))
        self.mem[a] = v
        return v

    def load(self, a, n):
        bs = [self.rd8(a + i) for i in range(n)]
        if self.endian == "little":
            bs.reverse()
        v = 0
        for b in bs:
            v = (v << 8) | b
        return v

    def store(self, a, v, n):
        self.stores.append((a, n, v))
        for i in range(n):
            sh = 8 * i if self.endian == "little" else 8 * (n - 1 - i)
            self.mem[(a + i) & ((1 << 64) - 1)] = (v >> sh) & 0xff


def ev(st, e):
    """-> (value, bits)"""
    t = e[0]
    if t == "scalar":
        k = st.key(e)
        if k not in st.sc:
            raise Fault("undefined-scalar", k)
        v, w = st.sc[k]
        if w != e[2]:
            raise Fault("sort", f"{k} {w} vs {e[2]}")
        return v, w
    if t == "const":
        return int(e[1]) & ilsem.mask(e[2]), e[2]
    if t in ilsem.EXTS:
        v, w = ev(st, e[2])
        n = e[1]
        if t == "trun":
            if not (0 < n < w): raise Fault("sort", "trun")
        else:
            if not n > w: raise Fault("sort", t)
            if t == "sext" and n % 8: raise Fault("sort", "sext non-byte width")
        return ilsem.py_ext(t, n, v, w), n
    if t == "ite":
        c, cw = ev(st, e[1])
        if cw != 1: raise Fault("sort", "ite cond")
        return ev(st, e[2]) if c == 1 else ev(st, e[3])
    a, wa = ev(st, e[1])
    b, wb = ev(st, e[2])
    if wa != wb:
        raise Fault("sort", f"{t} {wa} vs {wb}")
    if t == "ashr" and b > wa:
        raise Fault("c04-ashr", "amount above width (Constant::ashr panics)")
    try:
        r = ilsem.py_binop(t, a, b, wa)
    except ilsem.DivZero:
        raise Fault("divzero")
    return r, (1 if t in ilsem.CMPS else wa)


def exec_op(st, op):
    t = op[0]
    if t == "assign":
        v, w = ev(st, op[2])
        st.sc[st.key(op[1])] = (v, w)
        return "fall", None
    if t == "store":
        v, w = ev(st, op[2])
        a, _ = ev(st, op[1])
        st.store(a, v, w // 8)
        return "fall", None
    if t == "load":
        a, _ = ev(st, op[2])
        w = op[1][2]
        st.sc[st.key(op[1])] = (st.load(a, w // 8), w)
        return "fall", None
    if t == "branch":
        a, _ = ev(st, op[1])
        return "branch", a
    if t == "intrinsic":
        return "intrinsic", op[1]
    return "fall", None


def run_cfg(st, cfg, max_steps=10000, stop_at_exit=True, phi=False):
    """Run from cfg entry. Returns (kind, info) where kind in end/branch/intrinsic/noedge/steps."""
    blocks = {b["index"]: b for b in cfg["blocks"]}
    out = {}
    for e in cfg["edges"]:
        out.setdefault(e["head"], []).append(e)
    b = cfg["entry"]
    prev = None
    steps = 0
    while True:
        blk = blocks[b]
        st.trace.append(("block", b))
        if phi and blk.get("phis"):
            vals = []
            for p in blk["phis"]:
                src = None
                for bi, s in p["incoming"]:
                    if bi == prev:
                        src = s
                if src is None and prev is None:
                    src = p.get("entry")
                if src is None:
                    raise Fault("phi-no-incoming", f"block {b} from {prev}")
                k = st.key(src)
                if k not in st.sc:
                    raise Fault("undefined-scalar", k)
                vals.append((st.key(p["out"]), st.sc[k]))
            for k, v in vals:
                st.sc[k] = v
        for ins in blk["instructions"]:
            steps += 1
            st.trace.append(("ins", b, ins["index"]))
            hv = getattr(st, "havoc", None)
            if hv is not None and ins["op"][0] == "intrinsic" and ins["op"][1].get("written") is not None:
                # declared intrinsic under the analysis-level meaning: writes the values the solver chose
                bstep = sum(1 for t_ in st.trace if t_[0] == "block") - 1
                for w_ in ins["op"][1]["written"]:
                    if w_[0] == "scalar":
                        st.sc[st.key(w_)] = (hv.get(f"havoc!{bstep}!{b}!{ins['index']}!{w_[1]}", 0) & ((1 << w_[2]) - 1), w_[2])
                kind, info = "fall", None
            else:
                kind, info = exec_op(st, ins["op"])
            if kind != "fall":
                return kind, info
            if steps > max_steps:
                return "steps", None
        outs = out.get(b, [])
        if (stop_at_exit and b == cfg.get("exit")) or not outs:
            return "end", b
        nxt = None
        for e in outs:
            if e["cond"] is None:
                nxt = e; break
            c, _ = ev(st, e["cond"])
            if c == 1:
                nxt = e; break
        if nxt is None:
            return "noedge", b
        prev = b
        b = nxt["tail"]
        steps += 1
        if steps > max_steps:
            return "steps", None
