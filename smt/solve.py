"""Solver helpers: timed checks, verdict protocol, model extraction, cvc5 cross-check."""
import subprocess, time, os, tempfile
import z3

UNSAT, SAT, UNDECIDED = "unsat", "sat", "undecided"


def check(assertions, timeout_ms=20000, want_model=True):
    """Returns (verdict, model|None, seconds)."""
    s = z3.Solver()
    s.set("timeout", int(timeout_ms))
    for a in assertions:
        s.add(a)
    t0 = time.time()
    r = s.check()
    dt = time.time() - t0
    if r == z3.unsat:
        return UNSAT, None, dt
    if r == z3.sat:
        return SAT, (s.model() if want_model else None), dt
    return UNDECIDED, None, dt


def model_val(m, term, default=0):
    v = m.eval(term, model_completion=True)
    try:
        return v.as_long()
    except Exception:
        return default


def model_mem(m, arr, addrs):
    """Concrete bytes of array term arr at the given addresses under model m."""
    out = {}
    for a in addrs:
        v = m.eval(z3.Select(arr, z3.BitVecVal(a, 64)), model_completion=True)
        out[a] = v.as_long()
    return out


def cvc5_check(assertions, timeout_s=30):
    """Cross-check with cvc5 via SMT-LIB2 text. Returns verdict string."""
    s = z3.Solver()
    for a in assertions:
        s.add(a)
    text = "(set-logic ALL)\n" + s.to_smt2()
    with tempfile.NamedTemporaryFile("w", suffix=".smt2", delete=False, dir=os.environ.get("VERIF_SCRATCH", None)) as f:
        f.write(text)
        path = f.name
    try:
        p = subprocess.run(["cvc5", "--lang", "smt2", f"--tlimit={int(timeout_s*1000)}", path],
                           stdout=subprocess.PIPE, stderr=subprocess.STDOUT, text=True, timeout=timeout_s + 10)
        out = p.stdout
    except subprocess.TimeoutExpired:
        out = "timeout"
    finally:
        os.unlink(path)
    if "(error" in out:
        return UNDECIDED
    first = out.strip().splitlines()[0] if out.strip() else ""
    if first == "unsat":
        return UNSAT
    if first == "sat":
        return SAT
    return UNDECIDED
