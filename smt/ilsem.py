"""THE IL semantics table: operator -> z3 term builder, and the same on python ints.

One place states what each IL operator means.  C04 (Engine B) proves that falcon's
`Constant` methods compute exactly these terms for the widths it covers.
"""
import z3

BINOPS = ["add", "sub", "mul", "divu", "modu", "divs", "mods", "and", "or", "xor",
          "shl", "shr", "ashr", "cmpeq", "cmpneq", "cmplts", "cmpltu"]
CMPS = {"cmpeq", "cmpneq", "cmplts", "cmpltu"}
DIVS = {"divu", "modu", "divs", "mods"}
EXTS = {"zext", "sext", "trun"}


def b1(c):
    return z3.If(c, z3.BitVecVal(1, 1), z3.BitVecVal(0, 1))


def z3_binop(op, a, b):
    """a, b: z3 bit-vectors of equal width w.  Division by zero is a fault
    handled by the caller (the value returned here is then irrelevant)."""
    w = a.size()
    if op == "add": return a + b
    if op == "sub": return a - b
    if op == "mul": return a * b
    if op == "divu": return z3.UDiv(a, b)
    if op == "modu": return z3.URem(a, b)
    if op == "divs": return a / b            # bvsdiv: truncating toward zero
    if op == "mods": return z3.SRem(a, b)    # sign follows dividend
    if op == "and": return a & b
    if op == "or": return a | b
    if op == "xor": return a ^ b
    if op == "shl": return z3.If(z3.UGE(b, w), z3.BitVecVal(0, w), a << b)
    if op == "shr": return z3.If(z3.UGE(b, w), z3.BitVecVal(0, w), z3.LShR(a, b))
    if op == "ashr":
        fill = z3.If(z3.Extract(w - 1, w - 1, a) == 1, z3.BitVecVal(-1, w), z3.BitVecVal(0, w))
        return z3.If(z3.UGE(b, w), fill, a >> b)
    if op == "cmpeq": return b1(a == b)
    if op == "cmpneq": return b1(a != b)
    if op == "cmplts": return b1(a < b)
    if op == "cmpltu": return b1(z3.ULT(a, b))
    raise KeyError(op)


def z3_ext(op, bits, a):
    w = a.size()
    if op == "zext": return z3.ZeroExt(bits - w, a)
    if op == "sext": return z3.SignExt(bits - w, a)
    if op == "trun": return z3.Extract(bits - 1, 0, a)
    raise KeyError(op)


# ---- the same table on python ints (concrete replay) -------------------

def mask(w):
    return (1 << w) - 1


def sgn(v, w):
    return v - (1 << w) if v >> (w - 1) else v


class DivZero(Exception):
    pass


def py_binop(op, a, b, w):
    m = mask(w)
    if op == "add": return (a + b) & m
    if op == "sub": return (a - b) & m
    if op == "mul": return (a * b) & m
    if op in DIVS:
        if b == 0:
            raise DivZero()
        if op == "divu": return a // b
        if op == "modu": return a % b
        sa, sb = sgn(a, w), sgn(b, w)
        q = abs(sa) // abs(sb)
        if (sa < 0) != (sb < 0):
            q = -q
        r = sa - q * sb
        return (q if op == "divs" else r) & m
    if op == "and": return a & b
    if op == "or": return a | b
    if op == "xor": return a ^ b
    if op == "shl": return 0 if b >= w else (a << b) & m
    if op == "shr": return 0 if b >= w else a >> b
    if op == "ashr":
        if b >= w:
            return m if a >> (w - 1) else 0
        return (sgn(a, w) >> b) & m
    if op == "cmpeq": return int(a == b)
    if op == "cmpneq": return int(a != b)
    if op == "cmplts": return int(sgn(a, w) < sgn(b, w))
    if op == "cmpltu": return int(a < b)
    raise KeyError(op)


def py_ext(op, bits, a, w):
    if op == "zext": return a
    if op == "sext": return sgn(a, w) & mask(bits)
    if op == "trun": return a & mask(bits)
    raise KeyError(op)
